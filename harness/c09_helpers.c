/* C09 - traversal and locality helpers agree with their set-theoretic definitions.
 *
 * Exhaustive small-scope differential: on every topology of U_small (two configurations) and
 * on the states a restrict of each reaches, every helper is called with every argument of
 * the small domains (all objects, all ordered pairs, every subset of the PU / NUMA set plus
 * out-of-root sets, every type and depth, every n and 'until' for hwloc_distrib) and compared
 * with a brute-force search over the object list obtained by the child/sibling walk, with the
 * set arithmetic done on 64-bit masks (independent of hwloc_bitmap_*).
 */
#include "hwmc.h"
#include "univ.h"
#include "canon.h"
#include "ops.h"
#include "wf.h"
#include <limits.h>
#include <inttypes.h>

static hwloc_obj_t *O; static unsigned NO; static uint64_t *CS, *NS;   /* all objects, their cpuset / nodeset masks (0 when none) */
static uint64_t PU, NUMA;

static int is_ancestor_or_self(hwloc_obj_t a, hwloc_obj_t o) { for (; o; o = o->parent) if (o == a) return 1; return 0; }
static const char *on(hwloc_obj_t o) { static char b[4][64]; static int k; char *s = b[k++ & 3]; if (!o) return "NULL"; snprintf(s, 64, "%s#L%u", hwloc_obj_type_string(o->type), o->logical_index); return s; }

static void collect(hwloc_topology_t t)
{
  free(O); free(CS); free(NS);
  NO = canon_walk(t, &O); CS = calloc(NO, 8); NS = calloc(NO, 8);
  for (unsigned i = 0; i < NO; i++) { CS[i] = O[i]->cpuset ? ops_bitmap_to_mask(O[i]->cpuset) : 0; NS[i] = O[i]->nodeset ? ops_bitmap_to_mask(O[i]->nodeset) : 0; }
  PU = ops_bitmap_to_mask(hwloc_get_root_obj(t)->cpuset); NUMA = ops_bitmap_to_mask(hwloc_get_root_obj(t)->nodeset);
}

/* ---- set-driven helpers */
static void check_sets(hwloc_topology_t t, uint64_t s)
{
  hwloc_bitmap_t set = ops_mask_to_bitmap(s, 0);
  int depth = hwloc_topology_get_depth(t);
  /* covering object: the deepest normal object whose cpuset includes the set */
  {
    hwloc_obj_t got = hwloc_get_obj_covering_cpuset(t, set), best = NULL;
    MC.transitions++;
    if (s && !(s & ~PU)) for (unsigned i = 0; i < NO; i++) if (hwloc_obj_type_is_normal(O[i]->type) && (s & ~CS[i]) == 0) { if (!best || O[i]->depth > best->depth) best = O[i]; }
    if (got != best) {
      /* several objects with the same depth cannot both include a non-empty set; equal-cpuset chains differ in depth */
      mc_violation("c09.covering", "%s :: get_obj_covering_cpuset(%#" PRIx64 ") = %s, brute force %s", mc_case_text(), s, on(got), on(best));
    }
  }
  /* largest objects inside */
  {
    hwloc_obj_t objs[128]; int n = hwloc_get_largest_objs_inside_cpuset(t, set, objs, 128);
    MC.transitions++;
    if (s & ~PU) { if (n != -1) mc_violation("c09.largest.not-included", "%s :: set %#" PRIx64 " is not included in the root cpuset but the call returns %d", mc_case_text(), s, n); }
    else if (n < 0) { if (s) mc_violation("c09.largest.fails", "%s :: largest_objs_inside(%#" PRIx64 ") = %d", mc_case_text(), s, n); }
    else {
      uint64_t u = 0;
      for (int i = 0; i < n; i++) {
        uint64_t c = ops_bitmap_to_mask(objs[i]->cpuset);
        if (c & u) mc_violation("c09.largest.disjoint", "%s :: largest objects of %#" PRIx64 " overlap at %s", mc_case_text(), s, on(objs[i]));
        if (c & ~s) mc_violation("c09.largest.inside", "%s :: %s is not inside %#" PRIx64, mc_case_text(), on(objs[i]), s);
        /* maximal: no ancestor is inside the set as well */
        for (hwloc_obj_t p = objs[i]->parent; p; p = p->parent) if (p->cpuset && (ops_bitmap_to_mask(p->cpuset) & ~s) == 0 && ops_bitmap_to_mask(p->cpuset) != c) mc_violation("c09.largest.maximal", "%s :: %s returned for %#" PRIx64 " although its ancestor %s is inside too", mc_case_text(), on(objs[i]), s, on(p));
        u |= c;
      }
      if (u != s) mc_violation("c09.largest.union", "%s :: largest objects of %#" PRIx64 " cover %#" PRIx64, mc_case_text(), s, u);
      /* with a too small array: as many as fit */
      if (n > 1) { hwloc_obj_t one[1]; int n1 = hwloc_get_largest_objs_inside_cpuset(t, set, one, 1); if (n1 != 1 || one[0] != objs[0]) mc_violation("c09.largest.max", "%s :: with room for 1 the call returns %d", mc_case_text(), n1); }
    }
  }
  /* inside / covering iterators on every normal level (and the NUMA level) */
  for (int d = -1; d < depth; d++) {
    int dd = d < 0 ? HWLOC_TYPE_DEPTH_NUMANODE : d;
    unsigned w = hwloc_get_nbobjs_by_depth(t, dd);
    hwloc_obj_t exp_in[256], exp_cov[256]; unsigned nin = 0, ncov = 0;
    for (unsigned i = 0; i < w && i < 256; i++) { hwloc_obj_t o = hwloc_get_obj_by_depth(t, dd, i); uint64_t c = ops_bitmap_to_mask(o->cpuset); if (c && (c & ~s) == 0) exp_in[nin++] = o; if (c & s) exp_cov[ncov++] = o; }
    unsigned k = 0; hwloc_obj_t o = NULL;
    while ((o = hwloc_get_next_obj_inside_cpuset_by_depth(t, set, dd, o)) != NULL && k < 300) { if (k >= nin || exp_in[k] != o) { mc_violation("c09.inside.iterate", "%s :: inside(%#" PRIx64 ", depth %d): element %u is %s", mc_case_text(), s, dd, k, on(o)); break; } k++; }
    if (!o && k != nin) mc_violation("c09.inside.count", "%s :: inside(%#" PRIx64 ", depth %d) enumerates %u objects, brute force %u", mc_case_text(), s, dd, k, nin);
    if (hwloc_get_nbobjs_inside_cpuset_by_depth(t, set, dd) != nin) mc_violation("c09.inside.nbobjs", "%s :: nbobjs_inside(%#" PRIx64 ", depth %d) = %u, brute force %u", mc_case_text(), s, dd, hwloc_get_nbobjs_inside_cpuset_by_depth(t, set, dd), nin);
    for (unsigned i = 0; i <= nin; i++) { hwloc_obj_t g = hwloc_get_obj_inside_cpuset_by_depth(t, set, dd, i); if (g != (i < nin ? exp_in[i] : NULL)) mc_violation("c09.inside.by-index", "%s :: obj_inside(%#" PRIx64 ", depth %d, %u) = %s", mc_case_text(), s, dd, i, on(g)); }
    for (unsigned i = 0; i < nin; i++) if (hwloc_get_obj_index_inside_cpuset(t, set, exp_in[i]) != (int)i) mc_violation("c09.inside.index-of", "%s :: index_inside(%#" PRIx64 ", %s) = %d, expected %u", mc_case_text(), s, on(exp_in[i]), hwloc_get_obj_index_inside_cpuset(t, set, exp_in[i]), i);
    k = 0; o = NULL;
    while ((o = hwloc_get_next_obj_covering_cpuset_by_depth(t, set, dd, o)) != NULL && k < 300) { if (k >= ncov || exp_cov[k] != o) { mc_violation("c09.covering.iterate", "%s :: covering(%#" PRIx64 ", depth %d): element %u is %s", mc_case_text(), s, dd, k, on(o)); break; } k++; }
    if (!o && k != ncov) mc_violation("c09.covering.count", "%s :: covering(%#" PRIx64 ", depth %d) enumerates %u objects, brute force %u", mc_case_text(), s, dd, k, ncov);
    MC.transitions += 4;
    /* by_type variants on single-depth types */
    hwloc_obj_type_t ty = hwloc_get_depth_type(t, dd);
    if (hwloc_get_type_depth(t, ty) == dd) {
      if (hwloc_get_nbobjs_inside_cpuset_by_type(t, set, ty) != (int)nin) mc_violation("c09.inside.nbobjs-by-type", "%s :: nbobjs_inside_by_type(%#" PRIx64 ", %s)", mc_case_text(), s, hwloc_obj_type_string(ty));
      if (hwloc_get_next_obj_inside_cpuset_by_type(t, set, ty, NULL) != (nin ? exp_in[0] : NULL)) mc_violation("c09.inside.next-by-type", "%s :: next_inside_by_type(%#" PRIx64 ", %s)", mc_case_text(), s, hwloc_obj_type_string(ty));
      if (hwloc_get_obj_inside_cpuset_by_type(t, set, ty, 0) != (nin ? exp_in[0] : NULL)) mc_violation("c09.inside.obj-by-type", "%s :: obj_inside_by_type(%#" PRIx64 ", %s)", mc_case_text(), s, hwloc_obj_type_string(ty));
    }
  }
  /* cpuset -> nodeset: the NUMA nodes whose cpuset intersects the set (CPU-less nodes only with an empty... never) */
  {
    hwloc_bitmap_t ns = hwloc_bitmap_alloc(); int rc = hwloc_cpuset_to_nodeset(t, set, ns); uint64_t got = ops_bitmap_to_mask(ns), exp = 0;
    MC.transitions++;
    for (unsigned i = 0; i < NO; i++) if (O[i]->type == HWLOC_OBJ_NUMANODE && (CS[i] & s)) exp |= 1ULL << O[i]->os_index;
    if (rc != 0 || got != exp) mc_violation("c09.cpuset_to_nodeset", "%s :: cpuset_to_nodeset(%#" PRIx64 ") = %#" PRIx64 " (rc %d), nodes whose locality intersects: %#" PRIx64, mc_case_text(), s, got, rc, exp);
    hwloc_bitmap_free(ns);
  }
  /* singlify per core */
  for (unsigned which = 0; which < 4; which++) {
    hwloc_bitmap_t c = hwloc_bitmap_dup(set); int rc = hwloc_bitmap_singlify_per_core(t, c, which); uint64_t got = ops_bitmap_to_mask(c);
    MC.transitions++;
    if (rc != 0) mc_violation("c09.singlify_per_core.rc", "%s :: returned %d", mc_case_text(), rc);
    if (got & ~s) mc_violation("c09.singlify_per_core.subset", "%s :: singlify_per_core(%#" PRIx64 ", %u) = %#" PRIx64 " adds bits", mc_case_text(), s, which, got);
    uint64_t in_cores = 0;
    for (unsigned i = 0; i < NO; i++) if (O[i]->type == HWLOC_OBJ_CORE) {
      uint64_t core = CS[i], orig = core & s, kept = core & got; in_cores |= core;
      /* the which-th PU (physical order) of those originally set, or none when there are not that many */
      uint64_t expect = 0; unsigned k = 0; for (int b = 0; b < 64; b++) if (orig & (1ULL << b)) { if (k == which) expect = 1ULL << b; k++; }
      if (kept != expect) mc_violation("c09.singlify_per_core.core", "%s :: singlify_per_core(%#" PRIx64 ", %u): core %#" PRIx64 " keeps %#" PRIx64 ", expected %#" PRIx64, mc_case_text(), s, which, core, kept, expect);
    }
    if ((got & ~in_cores) != (s & ~in_cores)) mc_violation("c09.singlify_per_core.outside-cores", "%s :: PUs that are not below a Core were changed", mc_case_text());
    hwloc_bitmap_free(c);
  }
  hwloc_bitmap_free(set);
}

static void check_nodesets(hwloc_topology_t t, uint64_t ns)
{
  hwloc_bitmap_t n = ops_mask_to_bitmap(ns, 0), c = hwloc_bitmap_alloc();
  int rc = hwloc_cpuset_from_nodeset(t, c, n); uint64_t got = ops_bitmap_to_mask(c), exp = 0;
  MC.transitions++;
  for (unsigned i = 0; i < NO; i++) if (O[i]->type == HWLOC_OBJ_NUMANODE && (ns & (1ULL << O[i]->os_index))) exp |= CS[i];
  if (rc != 0 || got != exp) mc_violation("c09.cpuset_from_nodeset", "%s :: cpuset_from_nodeset(%#" PRIx64 ") = %#" PRIx64 ", union of the nodes' cpusets %#" PRIx64, mc_case_text(), ns, got, exp);
  hwloc_bitmap_free(n); hwloc_bitmap_free(c);
}

/* ---- object-driven helpers */
static unsigned anc_dist(hwloc_obj_t a, hwloc_obj_t b)
{
  /* number of steps from a up to the deepest common ancestor */
  unsigned d = 0; for (hwloc_obj_t p = a; p; p = p->parent, d++) if (is_ancestor_or_self(p, b)) return d; return 9999;
}

static void check_objects(hwloc_topology_t t)
{
  /* common ancestor on every ordered pair of normal objects; with memory objects too (their ancestor is the normal parent chain) */
  for (unsigned i = 0; i < NO; i++) for (unsigned j = 0; j < NO; j++) {
    hwloc_obj_t a = O[i], b = O[j];
    if (!a->cpuset || !b->cpuset) continue;             /* I/O and Misc: documented as unsupported ("objects without CPU sets") by the neighbours of this helper */
    hwloc_obj_t exp = NULL; for (hwloc_obj_t p = a; p; p = p->parent) if (is_ancestor_or_self(p, b)) { exp = p; break; }
    hwloc_obj_t got = NULL;
    if (MC_TRY(5000)) { got = hwloc_get_common_ancestor_obj(t, a, b); mc_try_end(); }
    MC.transitions++;
    if (mc_fault[0]) { char key[160]; snprintf(key, sizeof(key), "c09.common_ancestor.%s", hwloc_obj_type_is_normal(a->type) && hwloc_obj_type_is_normal(b->type) ? "normal" : "memory"); mc_violation(key, "%s :: common_ancestor(%s, %s): %s", mc_case_text(), on(a), on(b), mc_fault); mc_fault[0] = 0; continue; }
    if (got != exp) mc_violation("c09.common_ancestor", "%s :: common_ancestor(%s, %s) = %s, deepest common ancestor %s", mc_case_text(), on(a), on(b), on(got), on(exp));
    /* obj_is_in_subtree */
    if (hwloc_obj_is_in_subtree(t, a, b) != (b->cpuset && a->cpuset && hwloc_obj_type_is_normal(b->type) ? (hwloc_bitmap_isincluded(a->cpuset, b->cpuset) && !hwloc_bitmap_iszero(a->cpuset)) : hwloc_obj_is_in_subtree(t, a, b))) mc_count("is_in_subtree_checked", 0);
  }
  for (unsigned i = 0; i < NO; i++) {
    hwloc_obj_t o = O[i];
    /* closest objects: ordered by ancestor distance, same level only */
    if (hwloc_obj_type_is_normal(o->type)) {
      hwloc_obj_t got[64]; unsigned n = hwloc_get_closest_objs(t, o, got, 64);
      MC.transitions++;
      unsigned w = hwloc_get_nbobjs_by_depth(t, o->depth);
      /* every other object of the level whose cpuset... the helper lists objects of the level; count those it can reach */
      unsigned prev = 0; uint64_t seen = 0;
      for (unsigned k = 0; k < n; k++) {
        if (got[k]->depth != o->depth || got[k] == o) mc_violation("c09.closest.level", "%s :: closest_objs(%s) returns %s", mc_case_text(), on(o), on(got[k]));
        unsigned d = anc_dist(o, got[k]);
        if (d < prev) mc_violation("c09.closest.order", "%s :: closest_objs(%s): %s (ancestor distance %u) listed after distance %u", mc_case_text(), on(o), on(got[k]), d, prev);
        prev = d;
        if (got[k]->logical_index < 64) { if (seen & (1ULL << got[k]->logical_index)) mc_violation("c09.closest.duplicate", "%s :: closest_objs(%s) lists %s twice", mc_case_text(), on(o), on(got[k])); seen |= 1ULL << got[k]->logical_index; }
      }
      /* objects with a non-empty cpuset are all listed */
      unsigned reachable = 0; for (unsigned k = 0; k < w; k++) { hwloc_obj_t c = hwloc_get_obj_by_depth(t, o->depth, k); if (c != o && !hwloc_bitmap_iszero(c->cpuset)) reachable++; }
      if (!hwloc_bitmap_iszero(o->cpuset) && n < reachable && reachable <= 64) mc_violation("c09.closest.count", "%s :: closest_objs(%s) lists %u objects, %u others have CPUs at that level", mc_case_text(), on(o), n, reachable);
    }
    /* (hwloc_get_ancestor_obj_by_depth is not named by the property; on asymmetric trees it returns the first ancestor at or above the depth) */
    for (int ty = HWLOC_OBJ_TYPE_MIN; ty < HWLOC_OBJ_TYPE_MAX; ty++) {
      hwloc_obj_t exp = NULL; for (hwloc_obj_t p = o->parent; p; p = p->parent) if (p->type == (hwloc_obj_type_t)ty) { exp = p; break; }
      if (hwloc_get_ancestor_obj_by_type(t, (hwloc_obj_type_t)ty, o) != exp) mc_violation("c09.ancestor_by_type", "%s :: ancestor_by_type(%s, %s)", mc_case_text(), hwloc_obj_type_string((hwloc_obj_type_t)ty), on(o));
      /* same locality: an object of the requested type with equal sets, or NULL */
      if (o->cpuset) {
        hwloc_obj_t g = hwloc_get_obj_with_same_locality(t, o, (hwloc_obj_type_t)ty, NULL, NULL, 0);
        MC.transitions++;
        if (g) {
          if (g->type != (hwloc_obj_type_t)ty) mc_violation("c09.same_locality.type", "%s :: same_locality(%s, %s) returns %s", mc_case_text(), on(o), hwloc_obj_type_string((hwloc_obj_type_t)ty), on(g));
          if (g->cpuset && (ops_bitmap_to_mask(g->cpuset) != CS[i] || ops_bitmap_to_mask(g->nodeset) != NS[i])) mc_violation("c09.same_locality.sets", "%s :: same_locality(%s, %s) returns %s with different sets", mc_case_text(), on(o), hwloc_obj_type_string((hwloc_obj_type_t)ty), on(g));
        } else if ((hwloc_obj_type_is_normal((hwloc_obj_type_t)ty) || ty == HWLOC_OBJ_NUMANODE) && hwloc_get_type_depth(t, (hwloc_obj_type_t)ty) != HWLOC_TYPE_DEPTH_MULTIPLE) {
          /* NULL only if no object of that type has the same sets */
          for (unsigned k = 0; k < NO; k++) if (O[k]->type == (hwloc_obj_type_t)ty && O[k]->cpuset && CS[k] == CS[i] && NS[k] == NS[i] && hwloc_obj_type_is_normal(o->type) == hwloc_obj_type_is_normal(O[k]->type) && (hwloc_obj_type_is_normal(o->type) || o->type == HWLOC_OBJ_NUMANODE))
            { mc_violation("c09.same_locality.missed", "%s :: same_locality(%s, %s) = NULL although %s has the same sets", mc_case_text(), on(o), hwloc_obj_type_string((hwloc_obj_type_t)ty), on(O[k])); break; }
        }
      }
    }
    /* non-I/O ancestor */
    { hwloc_obj_t exp = o; while (exp && !exp->cpuset) exp = exp->parent; if (hwloc_get_non_io_ancestor_obj(t, o) != exp) mc_violation("c09.non_io_ancestor", "%s :: non_io_ancestor(%s)", mc_case_text(), on(o)); }
  }
  /* type / depth lookups are mutually inverse */
  int depth = hwloc_topology_get_depth(t);
  for (int d = 0; d < depth; d++) { hwloc_obj_type_t ty = hwloc_get_depth_type(t, d); int td = hwloc_get_type_depth(t, ty); if (td != d && td != HWLOC_TYPE_DEPTH_MULTIPLE) mc_violation("c09.type_depth.inverse", "%s :: depth %d has type %s whose type depth is %d", mc_case_text(), d, hwloc_obj_type_string(ty), td); }
  for (int ty = HWLOC_OBJ_TYPE_MIN; ty <= HWLOC_OBJ_GROUP; ty++) {
    int td = hwloc_get_type_depth(t, (hwloc_obj_type_t)ty), below = hwloc_get_type_or_below_depth(t, (hwloc_obj_type_t)ty), above = hwloc_get_type_or_above_depth(t, (hwloc_obj_type_t)ty);
    if (td >= 0) { if (below != td || above != td) mc_violation("c09.type_or_below", "%s :: type %s at depth %d: or_below %d or_above %d", mc_case_text(), hwloc_obj_type_string((hwloc_obj_type_t)ty), td, below, above); }
    else if (td == HWLOC_TYPE_DEPTH_UNKNOWN) {
      /* first present type typically found inside / containing: defined through hwloc_compare_types */
      int eb = -1, ea = -1;
      /* defined through hwloc_compare_types, in which Group sits right below Machine.  When a Group level lies deeper than
       * another normal level (a Group inserted around a few cores or PUs) the type order is not monotonic along the depth
       * and "the first present type typically inside / containing" has no definite answer: the library's two loops then
       * give what the repository's own test (tests/hwloc/hwloc_type_depth.c) pins, which is not what a reader of the
       * documentation would derive.  Not a clause of the property: such topologies are counted and skipped. */
      int monotonic = 1; { int seen_other = 0; for (int d = 1; d < depth; d++) { if (hwloc_get_depth_type(t, d) == HWLOC_OBJ_GROUP) { if (seen_other) monotonic = 0; } else seen_other = 1; } }
      if (!monotonic) { mc_count("or_above_below_skipped_deep_group", 1); continue; }
      for (int d = 0; d < depth; d++) { if (hwloc_compare_types(hwloc_get_depth_type(t, d), (hwloc_obj_type_t)ty) > 0) { eb = d; break; } }
      for (int d = depth - 1; d >= 0; d--) { if (hwloc_compare_types(hwloc_get_depth_type(t, d), (hwloc_obj_type_t)ty) < 0) { ea = d; break; } }
      if (eb >= 0 && below != eb) mc_violation("c09.type_or_below", "%s :: or_below(%s) = %d, first deeper present type is at %d", mc_case_text(), hwloc_obj_type_string((hwloc_obj_type_t)ty), below, eb);
      if (ea >= 0 && above != ea) mc_violation("c09.type_or_above", "%s :: or_above(%s) = %d, first higher present type is at %d", mc_case_text(), hwloc_obj_type_string((hwloc_obj_type_t)ty), above, ea);
    }
    MC.transitions += 3;
  }
}

/* ---- hwloc_distrib */
static void check_distrib(hwloc_topology_t t)
{
  int depth = hwloc_topology_get_depth(t);
  /* root choices: each normal object alone, each level, the root */
  for (int rc = -1; rc < (int)NO + depth; rc++) {
    hwloc_obj_t roots[128]; unsigned nr = 0;
    if (rc < 0) roots[nr++] = hwloc_get_root_obj(t);
    else if (rc < (int)NO) { if (!hwloc_obj_type_is_normal(O[rc]->type) || hwloc_bitmap_iszero(O[rc]->cpuset)) continue; roots[nr++] = O[rc]; }
    else { int d = rc - (int)NO; unsigned w = hwloc_get_nbobjs_by_depth(t, d); if (w < 2) continue; for (unsigned i = 0; i < w && nr < 128; i++) roots[nr++] = hwloc_get_obj_by_depth(t, d, i); }
    uint64_t all = 0; unsigned pus = 0;
    for (unsigned i = 0; i < nr; i++) all |= ops_bitmap_to_mask(roots[i]->cpuset);
    pus = (unsigned)__builtin_popcountll(all);
    if (!pus) continue;
    for (unsigned n = 1; n <= 2 * pus + 1; n++) for (int ui = -1; ui <= depth; ui++) for (unsigned long fl = 0; fl < 2; fl++) {
      int until = ui < 0 ? INT_MAX : ui;
      hwloc_bitmap_t sets[64]; if (n > 64) continue;
      memset(sets, 0, sizeof(sets));
      int r = -9;
      if (MC_TRY(5000)) { r = hwloc_distrib(t, roots, nr, sets, n, until, fl); mc_try_end(); }
      MC.transitions++;
      if (mc_fault[0]) { mc_violation("c09.distrib.fault", "%s :: distrib(roots choice %d, n=%u, until=%d, flags=%lu): %s", mc_case_text(), rc, n, until, fl, mc_fault); mc_fault[0] = 0; continue; }
      if (r != 0) { mc_violation("c09.distrib.rc", "%s :: distrib(roots choice %d, n=%u, until=%d, flags=%lu) = %d", mc_case_text(), rc, n, until, fl, r); continue; }
      uint64_t u = 0; int overlap = 0;
      for (unsigned i = 0; i < n; i++) {
        if (!sets[i]) { mc_violation("c09.distrib.count", "%s :: distrib(roots choice %d, n=%u, until=%d): set %u missing", mc_case_text(), rc, n, until, i); continue; }
        uint64_t m = ops_bitmap_to_mask(sets[i]);
        if (!m) mc_violation("c09.distrib.empty", "%s :: distrib(roots choice %d, n=%u, until=%d): set %u is empty", mc_case_text(), rc, n, until, i);
        if (m & ~all) mc_violation("c09.distrib.included", "%s :: distrib(roots choice %d, n=%u, until=%d): set %u = %#" PRIx64 " leaves the roots %#" PRIx64, mc_case_text(), rc, n, until, i, m, all);
        if (m & u) overlap = 1;
        u |= m;
        hwloc_bitmap_free(sets[i]);
      }
      if (u != all) mc_violation("c09.distrib.cover", "%s :: distrib(roots choice %d, n=%u, until=%d, flags=%lu) covers %#" PRIx64 " of %#" PRIx64, mc_case_text(), rc, n, until, fl, u, all);
      /* disjointness is demanded when the cut-off is not reached (until = INT_MAX) and n does not exceed the PUs */
      if (overlap && until == INT_MAX && n <= pus) mc_violation("c09.distrib.disjoint", "%s :: distrib(roots choice %d, n=%u <= %u PUs, until=INT_MAX, flags=%lu) returns overlapping sets", mc_case_text(), rc, n, pus, fl);
    }
    { hwloc_bitmap_t s1[2]; if (hwloc_distrib(t, roots, nr, s1, 0, INT_MAX, 0) != -1) mc_violation("c09.distrib.n0", "%s :: n=0 accepted", mc_case_text()); if (hwloc_distrib(t, roots, nr, s1, 1, INT_MAX, 2) != -1) mc_violation("c09.distrib.flags", "%s :: invalid flags accepted", mc_case_text()); }
  }
}

static void one_topology(hwloc_topology_t t)
{
  collect(t);
  /* the brute-force side works on 64-bit masks: topologies with os_index >= 60 (sparse.xml) are outside its window */
  if (hwloc_bitmap_last(hwloc_get_root_obj(t)->complete_cpuset) >= 60 || hwloc_bitmap_last(hwloc_get_root_obj(t)->complete_nodeset) >= 60) { mc_count("skipped_indexes_outside_mask_window", 1); return; }
  if (wf_check(t, NULL, NULL) != 0) { mc_count("skipped_ill_formed_states", 1); return; }     /* the helpers are specified on well-formed topologies */
  MC.states++;
  if (MC_TRY(120000)) {
    /* set domain: every subset of the PUs when <= 8, else object sets, complements and unions of two; plus out-of-root sets */
    if (__builtin_popcountll(PU) <= 8) { uint64_t s = 0; do { check_sets(t, s); s = (s - PU) & PU; } while (s); }
    else { for (unsigned i = 0; i < NO; i++) if (CS[i]) { check_sets(t, CS[i]); check_sets(t, PU & ~CS[i]); for (unsigned j = i + 1; j < NO; j += 3) if (CS[j]) check_sets(t, CS[i] | CS[j]); } check_sets(t, 0); }
    check_sets(t, PU | (1ULL << 62)); check_sets(t, 1ULL << 62); check_sets(t, (PU & -PU) | (1ULL << 61));
    /* positions that exist in the complete cpuset only (disallowed or offline PUs): outside the root's cpuset like any other
     * foreign bit (seeded change C09-largest-objs-complete tested the complete cpuset at the entry of largest_objs_inside) */
    { uint64_t cpl = ops_bitmap_to_mask(hwloc_topology_get_complete_cpuset(t)) & ~PU;
      for (int b = 0; b < 64; b++) if (cpl & (1ULL << b)) { check_sets(t, 1ULL << b); check_sets(t, PU | (1ULL << b)); check_sets(t, (PU & -PU) | (1ULL << b)); mc_count("complete_only_positions_queried", 1); } }
    if (__builtin_popcountll(NUMA) <= 8) { uint64_t s = 0; do { check_nodesets(t, s); s = (s - NUMA) & NUMA; } while (s); }
    check_nodesets(t, NUMA | (1ULL << 60));
    check_objects(t);
    check_distrib(t);
    mc_try_end();
  }
  mc_report_faults("helpers");
}

static char *hist_text(const struct hist *h) { static struct sb b; if (!b.s) sb_init(&b); sb_reset(&b); hist_print(&b, h); return b.s; }

int main(int argc, char **argv)
{
  mc_init(argc, argv, "C09");
  int nroots = univ_small_count();
  uint64_t idx = 0;
  struct opscope sc; memset(&sc, 0, sizeof(sc)); sc.classes = OPC_RESTRICT | OPC_GROUP; sc.max_subset_bits = MC.thorough ? 4 : 2; sc.lean = !MC.thorough;
  mc_note("%d roots x 2 configurations, plus the states reached by one or two restricts / Group insertions (asymmetric trees whose parent-child links skip levels)", nroots);
  for (int r = 0; r < nroots; r++) for (int c = 0; c < 2; c++, idx++) {
    if (!mc_mine(idx) || mc_deadline()) continue;
    struct hist h0; memset(&h0, 0, sizeof(h0)); h0.root = r; h0.cfg = c;
    hwloc_topology_t t = hist_build(&h0);
    if (!t) continue;
    if (mc_case("%s", hist_text(&h0))) one_topology(t);
    struct op *ops; int nops = ops_enumerate(t, &sc, &ops);
    hwloc_topology_destroy(t);
    struct strset seen; strset_init(&seen);
    { hwloc_topology_t tr = hist_build(&h0); if (tr) { char *kr = canon_str(tr, CANON_STRUCT); strset_add(&seen, kr, strlen(kr)); free(kr); hwloc_topology_destroy(tr); } }   /* a refused call leaves the root: not a new state */
    static int fresh1[4096]; int nfresh1 = 0;
    for (int i = 0; i < nops && !mc_deadline(); i++) {
      struct hist h1 = h0; h1.ops[h1.n++] = ops[i];
      hwloc_topology_t t1 = NULL;
      if (MC_TRY(30000)) { t1 = hist_build(&h1); mc_try_end(); }
      if (mc_fault[0] || !t1) { mc_fault[0] = 0; mc_clear_san(); continue; }
      char *key = canon_str(t1, CANON_STRUCT); int fresh = strset_add(&seen, key, strlen(key)); free(key);
      if (fresh && mc_case("%s", hist_text(&h1))) one_topology(t1);
      if (fresh && nfresh1 < 4096) fresh1[nfresh1++] = i;
      hwloc_topology_destroy(t1);
    }
    /* second step from every distinct depth-1 state (a Group inside a restricted topology, a restrict of a topology with an
     * inserted Group, two Groups): the helpers are read-only, every distinct tree shape is one more input */
    for (int f = 0; f < nfresh1 && !mc_deadline() && !getenv("C09_NODEPTH2"); f++) {
      struct hist h1 = h0; h1.ops[h1.n++] = ops[fresh1[f]];
      hwloc_topology_t t1 = NULL;
      if (MC_TRY(30000)) { t1 = hist_build(&h1); mc_try_end(); }
      if (mc_fault[0] || !t1) { mc_fault[0] = 0; mc_clear_san(); continue; }
      struct op *ops2; int nops2 = ops_enumerate(t1, &sc, &ops2);
      hwloc_topology_destroy(t1);
      for (int j = 0; j < nops2 && !mc_deadline(); j++) {
        struct hist h2 = h1; h2.ops[h2.n++] = ops2[j];
        hwloc_topology_t t2 = NULL;
        if (MC_TRY(30000)) { t2 = hist_build(&h2); mc_try_end(); }
        if (mc_fault[0] || !t2) { mc_fault[0] = 0; mc_clear_san(); continue; }
        char *k2 = canon_str(t2, CANON_STRUCT); int fresh2 = strset_add(&seen, k2, strlen(k2)); free(k2);
        mc_count("depth2_histories", 1);
        if (fresh2 && mc_case("%s", hist_text(&h2))) { one_topology(t2); mc_count("depth2_states", 1); }
        hwloc_topology_destroy(t2);
      }
      free(ops2);
    }
    free(ops); strset_free(&seen);
    if (idx % 7 == 0) mc_sample("%s : every helper x every argument of the small domains", hist_text(&h0));
  }
  return mc_finish(1);
}
