/* C04 - bitmap <-> string conversions round-trip and honour the snprintf contract.
 *
 * Enumerated exhaustively:
 *  (A) bitmaps: every subset of a set of boundary bit positions x every tail choice x two
 *      representations (minimal / with trailing words); for each, the three formats x every
 *      buffer length 0..needed+1 (exact-size heap buffers: ASan sees any byte outside) and
 *      NULL/0; asprintf; round trip through the matching sscanf, compared through the
 *      reference set model, and through an independent reference parser of the documented
 *      grammar (so a print/parse pair that is wrong consistently is caught).
 *  (B) parser inputs: every string of length <= L over a 10-letter alphabet, every
 *      single-character deletion / duplication / substitution of printed texts, each given
 *      as an exact-size heap copy; accepted strings must be stable under print-then-parse and
 *      agree with the reference parser whenever the string is in the documented grammar.
 */
#include "hwmc.h"
#include "refset.h"
#include "private/private.h"
#include <ctype.h>

typedef int (*snprintf_fn)(char *, size_t, hwloc_const_bitmap_t);
typedef int (*asprintf_fn)(char **, hwloc_const_bitmap_t);
typedef int (*sscanf_fn)(hwloc_bitmap_t, const char *);
static const struct fmt { const char *name; snprintf_fn sn; asprintf_fn as; sscanf_fn sc; } FMT[3] = {
  {"hwloc", hwloc_bitmap_snprintf, hwloc_bitmap_asprintf, hwloc_bitmap_sscanf},
  {"list", hwloc_bitmap_list_snprintf, hwloc_bitmap_list_asprintf, hwloc_bitmap_list_sscanf},
  {"taskset", hwloc_bitmap_taskset_snprintf, hwloc_bitmap_taskset_asprintf, hwloc_bitmap_taskset_sscanf},
};

/* ---------- reference parsers (strict documented grammar). return 0 ok, -1 not in grammar */
static int hexval(int c) { if (c >= '0' && c <= '9') return c - '0'; if (c >= 'a' && c <= 'f') return c - 'a' + 10; if (c >= 'A' && c <= 'F') return c - 'A' + 10; return -1; }

static int ref_parse_hwloc(const char *s, refset *out)
{
  int infinite = 0;
  rs_zero(out);
  if (!*s) return -1;
  if (!strncmp(s, "0xf...f", 7)) {
    s += 7; infinite = 1;
    if (!*s) { rs_fill(out); return 0; }
    if (*s != ',') return -1;
    s++;
  }
  /* split groups */
  unsigned long groups[64]; int n = 0;
  for (;;) {
    unsigned long v = 0; int digits = 0;
    if (s[0] == '0' && (s[1] == 'x' || s[1] == 'X')) { s += 2; if (hexval(*s) < 0) return -1; }
    while (hexval(*s) >= 0) { v = (v << 4) | (unsigned)hexval(*s); s++; if (++digits > 8) return -1; }
    if (n == 64) return -1;
    if (!digits && ((n == 0 && !infinite) || *s != ',')) return -1;   /* an empty group is only defined between two commas (hwloc prints those) */
    groups[n++] = v;
    if (*s == ',') { s++; continue; }
    if (*s) return -1;
    break;
  }
  for (int j = 0; j < n; j++) {
    int sig = n - 1 - j;
    for (int b = 0; b < 32; b++) if (groups[j] & (1UL << b)) { if (sig * 32 + b >= RS_BITS) return -1; rs_set(out, sig * 32 + b); }
  }
  if (infinite) rs_set_range(out, n * 32, -1);
  return 0;
}

static int ref_parse_list(const char *s, refset *out)
{
  rs_zero(out);
  if (!*s) return 0;
  for (;;) {
    if (!isdigit((unsigned char)*s)) return -1;
    if (s[0] == '0' && isdigit((unsigned char)s[1])) return -1;   /* canonical decimal only: "08" is not a documented index */
    unsigned long a = 0, b; int d = 0;
    while (isdigit((unsigned char)*s)) { a = a * 10 + (unsigned)(*s - '0'); s++; if (++d > 6) return -1; }
    if (*s == '-') {
      s++;
      if (!*s) { if (a >= RS_BITS) return -1; rs_set_range(out, (long)a, -1); return 0; }
      if (!isdigit((unsigned char)*s)) return -1;
      if (s[0] == '0' && isdigit((unsigned char)s[1])) return -1;
      b = 0; d = 0;
      while (isdigit((unsigned char)*s)) { b = b * 10 + (unsigned)(*s - '0'); s++; if (++d > 6) return -1; }
      if (b < a || b >= RS_BITS) return -1;
      rs_set_range(out, (long)a, (long)b);
    } else { if (a >= RS_BITS) return -1; rs_set(out, (long)a); }
    if (*s == ',') { s++; continue; }
    if (*s) return -1;
    return 0;
  }
}

static int ref_parse_taskset(const char *s, refset *out)
{
  int infinite = 0;
  rs_zero(out);
  if (!strncmp(s, "0xf...f", 7)) { infinite = 1; s += 7; if (!*s) { rs_fill(out); return 0; } }
  else { if (strncmp(s, "0x", 2)) return -1; s += 2; if (!*s) return -1; }
  size_t n = strlen(s);
  if (n * 4 > RS_BITS) return -1;
  for (size_t i = 0; i < n; i++) {
    int v = hexval(s[i]); if (v < 0) return -1;
    size_t sig = n - 1 - i;
    for (int b = 0; b < 4; b++) if (v & (1 << b)) rs_set(out, (long)(sig * 4 + (size_t)b));
  }
  if (infinite) rs_set_range(out, (long)(n * 4), -1);
  return 0;
}
static int (*const REFPARSE[3])(const char *, refset *) = { ref_parse_hwloc, ref_parse_list, ref_parse_taskset };

/* reference printer for the list format (canonical) */
static void ref_print_list(const refset *m, struct sb *b)
{
  long i = 0; int first = 1;
  sb_reset(b);
  while (i < RS_BITS) {
    if (!rs_isset(m, i)) { i++; continue; }
    long j = i; while (j + 1 < RS_BITS && rs_isset(m, j + 1)) j++;
    if (!first) sb_putc(b, ','); first = 0;
    if (j == RS_BITS - 1 && m->tail) { sb_printf(b, "%ld-", i); return; }
    if (j == i) sb_printf(b, "%ld", i); else sb_printf(b, "%ld-%ld", i, j);
    i = j + 1;
  }
}

/* model of a real bitmap straight from its representation */
static void model_of(hwloc_const_bitmap_t b, refset *m)
{
  unsigned count, alloc; int inf; const unsigned long *w;
  hwloc_verif_bitmap_repr(b, &count, &alloc, &inf, &w);
  rs_zero(m);
  for (unsigned i = 0; i < RS_WORDS; i++) m->w[i] = i < count ? w[i] : (inf ? ~0UL : 0UL);
  m->tail = !!inf;
}

static struct strset texts; /* distinct printed texts */
static char **printed; static size_t nprinted, capprinted; static int *printed_fmt;

static void check_parse_of(int f, const char *text, const refset *expect, const char *what)
{
  /* exact-size heap copy */
  size_t l = strlen(text); char *copy = malloc(l + 1); memcpy(copy, text, l + 1);
  /* pre-existing content of the destination must not survive, whatever its width: a low bit, a wider finite set (more words
   * than most texts need), an infinite tail, the full set (seeded change C04-taskset-sscanf-stale-ulongs: the destination
   * was enlarged but never shrunk) */
  for (int dv = 0; dv < 4; dv++) {
    hwloc_bitmap_t r = hwloc_bitmap_alloc();
    if (dv == 0) hwloc_bitmap_set(r, 5);
    else if (dv == 1) { hwloc_bitmap_set(r, 5); hwloc_bitmap_set_range(r, 70, 140); hwloc_bitmap_set(r, 450); }
    else if (dv == 2) { hwloc_bitmap_set(r, 1); hwloc_bitmap_set_range(r, 330, -1); }
    else hwloc_bitmap_fill(r);
    int rc = FMT[f].sc(r, copy);
    refset got; model_of(r, &got);
    char key[96];
    if (rc != 0) { snprintf(key, sizeof(key), "c04.%s.rejects-own-output@%s", FMT[f].name, what); mc_violation(key, "%s: sscanf(\"%s\") = %d", mc_case_text(), text, rc); }
    else if (!rs_isequal(&got, expect)) { snprintf(key, sizeof(key), "c04.%s.roundtrip@%s", FMT[f].name, what); mc_violation(key, "%s: \"%s\" parsed into a destination holding %s gives %s, expected %s", mc_case_text(), text, dv == 0 ? "{5}" : dv == 1 ? "{5,70-140,450}" : dv == 2 ? "{1,330-}" : "the full set", rs_str(&got), rs_str(expect)); }
    hwloc_bitmap_free(r);
    mc_count("parse_destinations", 1);
  }
  free(copy);
}

static void print_battery(hwloc_const_bitmap_t b, const refset *m)
{
  static struct sb ref; if (!ref.s) sb_init(&ref);
  for (int f = 0; f < 3; f++) {
    char key[96];
    int need = FMT[f].sn(NULL, 0, b);
    MC.transitions++;
    if (need < 0) { snprintf(key, sizeof(key), "c04.%s.snprintf.null", FMT[f].name); mc_violation(key, "%s: snprintf(NULL,0) = %d", mc_case_text(), need); continue; }
    /* full text */
    char *full = malloc((size_t)need + 1);
    int r = FMT[f].sn(full, (size_t)need + 1, b);
    if (r != need || strlen(full) != (size_t)need) { snprintf(key, sizeof(key), "c04.%s.snprintf.length", FMT[f].name); mc_violation(key, "%s: needed %d, full call returned %d, strlen %zu", mc_case_text(), need, r, strlen(full)); }
    /* a generous buffer gives the same length and text (a printer that under-reports whenever it truncates is consistent with
     * itself at every size up to its own answer + 1) */
    { size_t bl = (size_t)need + 65; char *big = malloc(bl); memset(big, 0x5a, bl); r = FMT[f].sn(big, bl, b); MC.transitions++;
      if (r != need || strcmp(big, full)) { snprintf(key, sizeof(key), "c04.%s.snprintf.generous", FMT[f].name); mc_violation(key, "%s: snprintf(NULL,0) = %d and \"%s\", a %zu-byte buffer returns %d and \"%s\"", mc_case_text(), need, full, bl, r, big); }
      free(big); }
    /* every length 0..need+1 in an exact-size heap buffer */
    for (int len = 0; len <= need + 2; len++) {
      char *buf = malloc((size_t)len ? (size_t)len : 1);
      memset(buf, 0x5a, (size_t)len ? (size_t)len : 1);
      r = FMT[f].sn(buf, (size_t)len, b);
      MC.transitions++;
      if (r != need) { snprintf(key, sizeof(key), "c04.%s.snprintf.return", FMT[f].name); mc_violation(key, "%s: buflen %d returned %d, needed %d", mc_case_text(), len, r, need); }
      if (len > 0) {
        size_t sl = strnlen(buf, (size_t)len);
        if (sl == (size_t)len) { snprintf(key, sizeof(key), "c04.%s.snprintf.nul", FMT[f].name); mc_violation(key, "%s: buflen %d not NUL-terminated", mc_case_text(), len); }
        else {
          if (strncmp(buf, full, sl)) { snprintf(key, sizeof(key), "c04.%s.snprintf.prefix", FMT[f].name); mc_violation(key, "%s: buflen %d gives \"%s\", not a prefix of \"%s\"", mc_case_text(), len, buf, full); }
          if (len > need && sl != (size_t)need) { snprintf(key, sizeof(key), "c04.%s.snprintf.truncated", FMT[f].name); mc_violation(key, "%s: buflen %d > needed %d but text is \"%s\"", mc_case_text(), len, need, buf); }
        }
      } else if ((unsigned char)buf[0] != 0x5a) { snprintf(key, sizeof(key), "c04.%s.snprintf.write0", FMT[f].name); mc_violation(key, "%s: buflen 0 wrote into the buffer", mc_case_text()); }
      free(buf);
    }
    /* asprintf */
    { char *as = NULL; int ar = FMT[f].as(&as, b);
      MC.transitions++;
      if (ar != need || !as || strcmp(as, full)) { snprintf(key, sizeof(key), "c04.%s.asprintf", FMT[f].name); mc_violation(key, "%s: asprintf=%d \"%s\" vs snprintf=%d \"%s\"", mc_case_text(), ar, as ? as : "(null)", need, full); }
      free(as); }
    /* round trip and independent reference parser */
    check_parse_of(f, full, m, "print");
    { refset rp; int rr = REFPARSE[f](full, &rp);
      if (rr < 0) { snprintf(key, sizeof(key), "c04.%s.print.grammar", FMT[f].name); mc_violation(key, "%s: printed text \"%s\" is not in the documented grammar", mc_case_text(), full); }
      else if (!rs_isequal(&rp, m)) { snprintf(key, sizeof(key), "c04.%s.print.meaning", FMT[f].name); mc_violation(key, "%s: printed text \"%s\" denotes %s, bitmap is %s", mc_case_text(), full, rs_str(&rp), rs_str(m)); } }
    if (f == 1) { ref_print_list(m, &ref); if (strcmp(ref.s, full)) mc_violation("c04.list.print.canonical", "%s: printed \"%s\", canonical list is \"%s\"", mc_case_text(), full, ref.s); }
    if (strset_add(&texts, full, strlen(full)) ) {
      if (nprinted == capprinted) { capprinted = capprinted ? capprinted * 2 : 1024; printed = realloc(printed, capprinted * sizeof(char *)); printed_fmt = realloc(printed_fmt, capprinted * sizeof(int)); }
      printed[nprinted] = full; printed_fmt[nprinted++] = f;
    } else free(full);
  }
}

/* hostile / arbitrary parser input */
static void parse_input(int f, const char *text, size_t l)
{
  char *copy = malloc(l + 1); memcpy(copy, text, l); copy[l] = 0;   /* exact size */
  hwloc_bitmap_t r = hwloc_bitmap_alloc();
  int rc = -7; char key[96];
  MC.transitions++;
  if (MC_TRY(5000)) { rc = FMT[f].sc(r, copy); mc_try_end(); }
  snprintf(key, sizeof(key), "%s.sscanf", FMT[f].name);
  if (mc_report_faults(key)) { free(copy); return; /* r possibly inconsistent: abandon */ }
  if (rc != 0 && rc != -1) { snprintf(key, sizeof(key), "c04.%s.sscanf.rc", FMT[f].name); mc_violation(key, "%s: returned %d", mc_case_text(), rc); }
  refset ref; int rr = REFPARSE[f](copy, &ref);
  if (rc == 0) {
    refset got; model_of(r, &got);
    mc_count("inputs_accepted", 1);
    if (rr == 0 && !rs_isequal(&got, &ref)) { snprintf(key, sizeof(key), "c04.%s.sscanf.meaning", FMT[f].name); mc_violation(key, "%s: parsed as %s, documented grammar says %s", mc_case_text(), rs_str(&got), rs_str(&ref)); }
    /* stability: print then parse */
    if (rs_last_irregular(&got) < RS_BITS - 128) {
      char *as = NULL; int ar = FMT[f].as(&as, r);
      if (ar < 0 || !as) { snprintf(key, sizeof(key), "c04.%s.asprintf", FMT[f].name); mc_violation(key, "%s: asprintf of the parsed bitmap failed", mc_case_text()); }
      else check_parse_of(f, as, &got, "reparse");
      free(as);
    }
  } else {
    mc_count("inputs_rejected", 1);
    if (rr == 0) { snprintf(key, sizeof(key), "c04.%s.sscanf.rejects-valid", FMT[f].name); mc_violation(key, "%s: a string of the documented grammar (%s) is rejected", mc_case_text(), rs_str(&ref)); }
  }
  hwloc_bitmap_free(r); free(copy);
}

int main(int argc, char **argv)
{
  mc_init(argc, argv, "C04");
  strset_init(&texts);
  /* (A) bitmaps */
  static const long POS[] = {0, 1, 31, 32, 33, 63, 64, 65, 95, 96, 127, 128, 511, 512, 191, 192};
  int npos = MC.thorough ? 16 : 12;
  static const long TAILS[] = {-1, 32, 64, 96, 128, 513};
  uint64_t nb = 0;
  for (uint64_t mask = 0; mask < (1ULL << npos); mask++) {
    if (!mc_mine(mask)) continue;
    if (mc_deadline()) break;
    for (unsigned t = 0; t < sizeof(TAILS) / sizeof(TAILS[0]); t++) for (int variant = 0; variant < 2; variant++) {
      hwloc_bitmap_t b = hwloc_bitmap_alloc();
      if (variant) { hwloc_bitmap_set(b, 700); hwloc_bitmap_clr(b, 700); }   /* trailing zero words */
      for (int i = 0; i < npos; i++) if (mask & (1ULL << i)) hwloc_bitmap_set(b, (unsigned)POS[i]);
      if (TAILS[t] >= 0) hwloc_bitmap_set_range(b, (unsigned)TAILS[t], -1);
      refset m; model_of(b, &m);
      if (mc_case("print bitmap %s (variant %d)", rs_str(&m), variant)) { print_battery(b, &m); MC.states++; nb++; }
      hwloc_bitmap_free(b);
    }
  }
  /* (A2) bitmaps built from 32-bit groups (the unit of the hwloc format, half a word of the representation):
   * every assignment of the first 6 groups over a small value set x {finite, infinite from 192, infinite from 224} */
  {
    static const unsigned long GV[] = { 0x0UL, 0xffffffffUL, 0x1UL, 0x80000000UL, 0x0000ffffUL, 0xffff0000UL };
    int nv = MC.thorough ? 6 : 4; uint64_t total = 1; for (int i = 0; i < 6; i++) total *= (uint64_t)nv;
    static const long GT[] = { -1, 192, 224 };
    for (uint64_t k = 0; k < total; k++) {
      if (!mc_mine(k)) continue;
      if (mc_deadline()) break;
      for (unsigned t = 0; t < 3; t++) {
        hwloc_bitmap_t b = hwloc_bitmap_alloc(); uint64_t q = k;
        for (int g = 0; g < 6; g++) { unsigned long v = GV[q % (uint64_t)nv]; q /= (uint64_t)nv; for (int bit = 0; bit < 32; bit++) if (v & (1UL << bit)) hwloc_bitmap_set(b, (unsigned)(g * 32 + bit)); }
        if (GT[t] >= 0) hwloc_bitmap_set_range(b, (unsigned)GT[t], -1);
        refset m; model_of(b, &m);
        if (mc_case("print bitmap %s (groups)", rs_str(&m))) { print_battery(b, &m); MC.states++; nb++; }
        hwloc_bitmap_free(b);
      }
    }
  }
  mc_count("bitmaps_printed", nb);
  /* (B1) every string of length <= L over the alphabet */
  static const char ALPHA[] = { '0', '1', '8', 'f', 'x', ',', '-', '.', ' ', (char)0x80 };
  int L = MC.thorough ? 6 : 5;
  uint64_t idx = 0;
  for (int len = 0; len <= L; len++) {
    uint64_t total = 1; for (int i = 0; i < len; i++) total *= 10;
    for (uint64_t k = 0; k < total; k++, idx++) {
      if (!mc_mine(idx)) continue;
      if ((idx & 0xfff) == 0 && mc_deadline()) break;
      char s[8]; uint64_t q = k;
      for (int i = 0; i < len; i++) { s[i] = ALPHA[q % 10]; q /= 10; }
      s[len] = 0;
      for (int f = 0; f < 3; f++) {
        struct sb e; sb_init(&e); sb_put_escaped(&e, s);
        if (mc_case("%s_sscanf(%s)", FMT[f].name, e.s)) parse_input(f, s, (size_t)len);
        sb_free(&e);
      }
      MC.states++;
    }
  }
  mc_count_max("alphabet_strings_max_len", (uint64_t)L);
  /* (B2) single-character mutations of the printed texts of this worker */
  static const char SUB[] = { '0', 'f', 'x', ',', '-', ' ', 'g' };
  uint64_t nmut = 0;
  for (size_t p = 0; p < nprinted; p++) {
    if (!MC.thorough && p % 8) continue;        /* quick: the mutations of every 8th text (texts differ only in which groups are set) */
    if (mc_deadline()) break;
    const char *t = printed[p]; size_t l = strlen(t); int f = printed_fmt[p];
    char *m = malloc(l + 2);
    for (size_t i = 0; i < l; i++) {
      /* deletion */
      memcpy(m, t, i); memcpy(m + i, t + i + 1, l - i); if (mc_case("%s_sscanf(\"%s\") [deletion at %zu of \"%s\"]", FMT[f].name, m, i, t)) parse_input(f, m, l - 1);
      /* duplication */
      memcpy(m, t, i + 1); memcpy(m + i + 1, t + i, l - i + 1); if (mc_case("%s_sscanf(\"%s\") [duplication at %zu of \"%s\"]", FMT[f].name, m, i, t)) parse_input(f, m, l + 1);
      for (unsigned s = 0; s < sizeof(SUB); s++) {
        if (SUB[s] == t[i]) continue;
        memcpy(m, t, l + 1); m[i] = SUB[s];
        if (mc_case("%s_sscanf(\"%s\") [substitution at %zu of \"%s\"]", FMT[f].name, m, i, t)) parse_input(f, m, l);
        nmut++;
      }
      nmut += 2;
    }
    free(m);
  }
  mc_count("mutated_inputs", nmut);
  mc_count_max("distinct_printed_texts", texts.n);
  if (nprinted) { mc_sample("printed: %s \"%s\"", FMT[printed_fmt[0]].name, printed[0]); mc_sample("printed: %s \"%s\"", FMT[printed_fmt[nprinted / 2]].name, printed[nprinted / 2]); mc_sample("printed: %s \"%s\"", FMT[printed_fmt[nprinted - 1]].name, printed[nprinted - 1]); }
  mc_sample("parser inputs: all %d-letter-alphabet strings of length <= %d, e.g. \"0x,f-\"", 10, L);
  return mc_finish(1);
}
