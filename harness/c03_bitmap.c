/* C03 - bitmap operations implement exact (finite or cofinite) set semantics.
 *
 * Explicit-state exploration of the bitmap "register machine".  A bitmap has no state
 * other than its own representation (word count, words, infinite flag), observed through
 * the HWLOC_VERIF accessor, so the reachable state space factorises per register:
 *
 *   phase 1  BFS over single-register representations: every unary constructor/modifier
 *            with every argument of the boundary alphabet, and every combinator over every
 *            ordered pair of already reached representations (all aliasing patterns),
 *            to depth D1 (pairs) / D2 (unary ops only); dedup on the representation.
 *   phase 2  on every newly reached representation: the complete unary query battery
 *            against the reference model.
 *   phase 3  on every ordered pair of a pair-set P of representations: every binary query,
 *            and every combinator under every aliasing pattern (res fresh / res==op1 /
 *            res==op2 / all three the same object) with a destination taken from a set
 *            of destination representations.
 *
 * The model of an operand is taken from its *representation* before the call, so the
 * oracle never depends on hwloc queries; the result is read back both from the
 * representation and through the public API.
 */
#include "hwmc.h"
#include "refset.h"
#include "private/private.h"
#include "private/misc.h"
#include <assert.h>
#include <limits.h>
#include <sys/mman.h>

#define MAXW 14
struct rep {
  unsigned count; int inf; unsigned long w[MAXW];
  hwloc_bitmap_t proto;          /* live bitmap with exactly this representation, never modified */
  refset m;                      /* denoted set */
  int depth;
  char *how;                     /* shortest history */
};
static struct rep *R; static size_t nR, capR;
static struct strset seen;

static const long I16[] = {0,1,31,32,33,63,64,65,127,128,191,192,511,512,513,575};
#define NI16 16
static const long J[] = {0,31,32,63,64,65,127,128,511,512,575};
#define NJ 11
static const unsigned long MASKS[] = {0UL, 1UL, 0x8000000000000001UL, ~0UL, 0x00000000ffffffffUL};
#define NMASKS 5
static const unsigned ITH[] = {0,1,7,8,9};
#define NITH 5

static int get_repr(hwloc_const_bitmap_t b, struct rep *r)
{
  unsigned count, alloc; int inf; const unsigned long *w;
  hwloc_verif_bitmap_repr(b, &count, &alloc, &inf, &w);
  if (count > MAXW || count < 1 || alloc < count) return -1;
  memset(r, 0, sizeof(*r));
  r->count = count; r->inf = !!inf;
  for (unsigned i = 0; i < count; i++) r->w[i] = w[i];
  return 0;
}
static void denote(const struct rep *r, refset *m)
{
  rs_zero(m);
  for (unsigned i = 0; i < RS_WORDS; i++) m->w[i] = i < r->count ? r->w[i] : (r->inf ? ~0UL : 0UL);
  m->tail = r->inf;
}
static size_t repkey(const struct rep *r, char *buf)
{
  size_t n = 0;
  memcpy(buf, &r->count, sizeof(r->count)); n += sizeof(r->count);
  buf[n++] = (char)r->inf;
  memcpy(buf + n, r->w, r->count * sizeof(unsigned long)); n += r->count * sizeof(unsigned long);
  return n;
}
static int same_rep(const struct rep *a, const struct rep *b)
{
  return a->count == b->count && a->inf == b->inf && !memcmp(a->w, b->w, a->count * sizeof(unsigned long));
}

/* read a bitmap through the public API only (bit by bit) */
static void observe(hwloc_const_bitmap_t b, refset *m) { rs_from_bitmap_slow(m, b); }

static void check_result(hwloc_const_bitmap_t b, const refset *expect, const char *what)
{
  struct rep r; refset viaRepr, viaApi;
  if (get_repr(b, &r) < 0) { mc_violation("c03.repr.invalid", "%s", mc_case_text()); return; }
  denote(&r, &viaRepr);
  observe(b, &viaApi);
  if (!rs_isequal(&viaRepr, &viaApi)) { char k[128]; snprintf(k, sizeof(k), "c03.isset-vs-repr@%s", what); mc_violation(k, "%s: repr=%s api=%s", mc_case_text(), rs_str(&viaRepr), rs_str(&viaApi)); }
  if (!rs_isequal(&viaRepr, expect)) { char k[128]; snprintf(k, sizeof(k), "c03.op.%s", what); mc_violation(k, "%s: got=%s expected=%s", mc_case_text(), rs_str(&viaRepr), rs_str(expect)); }
}

/* add the representation of b (reached by history how) to R if new; returns index or -1 */
static long add_rep(hwloc_const_bitmap_t b, int depth, const char *how)
{
  struct rep r; char key[8 + MAXW * 8];
  if (get_repr(b, &r) < 0) return -1;
  size_t kl = repkey(&r, key);
  if (!strset_add(&seen, key, kl)) return -1;
  if (!R) {
    /* fixed virtual reservation: pointers into R stay valid while the table grows */
    capR = 4000000;
    R = mmap(NULL, capR * sizeof(*R), PROT_READ | PROT_WRITE, MAP_PRIVATE | MAP_ANONYMOUS | MAP_NORESERVE, -1, 0);
    if (R == MAP_FAILED) { perror("mmap"); exit(2); }
  }
  if (nR == capR) { mc_note("representation table full"); MC.deadline_hit = 1; return -1; }
  r.proto = hwloc_bitmap_dup(b);
  struct rep r2;
  if (get_repr(r.proto, &r2) < 0 || !same_rep(&r, &r2)) {
    /* dup does not preserve the representation: keep the original object's state by copying words */
    mc_count("dup_changed_representation", 1);
  }
  denote(&r, &r.m);
  r.depth = depth; r.how = strdup(how);
  R[nR] = r;
  return (long)nR++;
}

static hwloc_bitmap_t fresh(const struct rep *r) { return hwloc_bitmap_dup(r->proto); }

/* ---------------------------------------------------------------- unary ops */
/* applies unary op number k to b and to the model m; returns 0 when k is past the last op.
 * desc receives a printable description. */
static int unary_op(int k, hwloc_bitmap_t b, refset *m, char *desc, size_t dl, int *rc)
{
  int n = 0;
  *rc = 0;
#define OP(cond) if ((cond) && k == n++)
  OP(1) { hwloc_bitmap_zero(b); rs_zero(m); snprintf(desc, dl, "zero"); return 1; }
  OP(1) { hwloc_bitmap_fill(b); rs_fill(m); snprintf(desc, dl, "fill"); return 1; }
  OP(1) { *rc = hwloc_bitmap_singlify(b); rs_singlify(m); snprintf(desc, dl, "singlify"); return 1; }
  OP(1) { *rc = hwloc_bitmap_not(b, b); rs_not(m, m); snprintf(desc, dl, "not(self)"); return 1; }
  for (int i = 0; i < NI16; i++) {
    OP(1) { *rc = hwloc_bitmap_set(b, (unsigned)I16[i]); rs_set(m, I16[i]); snprintf(desc, dl, "set(%ld)", I16[i]); return 1; }
    OP(1) { *rc = hwloc_bitmap_clr(b, (unsigned)I16[i]); rs_clr(m, I16[i]); snprintf(desc, dl, "clr(%ld)", I16[i]); return 1; }
    OP(1) { *rc = hwloc_bitmap_only(b, (unsigned)I16[i]); rs_only(m, I16[i]); snprintf(desc, dl, "only(%ld)", I16[i]); return 1; }
    OP(1) { *rc = hwloc_bitmap_allbut(b, (unsigned)I16[i]); rs_allbut(m, I16[i]); snprintf(desc, dl, "allbut(%ld)", I16[i]); return 1; }
  }
  for (int i = 0; i < NJ; i++) {
    for (int j = i; j < NJ; j++) {
      OP(1) { *rc = hwloc_bitmap_set_range(b, (unsigned)J[i], (int)J[j]); rs_set_range(m, J[i], J[j]); snprintf(desc, dl, "set_range(%ld,%ld)", J[i], J[j]); return 1; }
      OP(1) { *rc = hwloc_bitmap_clr_range(b, (unsigned)J[i], (int)J[j]); rs_clr_range(m, J[i], J[j]); snprintf(desc, dl, "clr_range(%ld,%ld)", J[i], J[j]); return 1; }
    }
    OP(1) { *rc = hwloc_bitmap_set_range(b, (unsigned)J[i], -1); rs_set_range(m, J[i], -1); snprintf(desc, dl, "set_range(%ld,-1)", J[i]); return 1; }
    OP(1) { *rc = hwloc_bitmap_clr_range(b, (unsigned)J[i], -1); rs_clr_range(m, J[i], -1); snprintf(desc, dl, "clr_range(%ld,-1)", J[i]); return 1; }
  }
  /* empty ranges (end < begin) are no-ops */
  OP(1) { *rc = hwloc_bitmap_set_range(b, 64, 31); snprintf(desc, dl, "set_range(64,31)"); return 1; }
  OP(1) { *rc = hwloc_bitmap_clr_range(b, 513, 512); snprintf(desc, dl, "clr_range(513,512)"); return 1; }
  for (int i = 0; i < NMASKS; i++) {
    OP(1) { *rc = hwloc_bitmap_from_ulong(b, MASKS[i]); rs_zero(m); m->w[0] = MASKS[i]; snprintf(desc, dl, "from_ulong(%#lx)", MASKS[i]); return 1; }
    for (int j = 0; j < NITH; j++) {
      OP(1) { *rc = hwloc_bitmap_from_ith_ulong(b, ITH[j], MASKS[i]); rs_zero(m); m->w[ITH[j]] = MASKS[i]; snprintf(desc, dl, "from_ith_ulong(%u,%#lx)", ITH[j], MASKS[i]); return 1; }
      OP(1) { *rc = hwloc_bitmap_set_ith_ulong(b, ITH[j], MASKS[i]); m->w[ITH[j]] = MASKS[i]; snprintf(desc, dl, "set_ith_ulong(%u,%#lx)", ITH[j], MASKS[i]); return 1; }
    }
  }
  {
    static const unsigned NRS[] = {1, 2, 8, 9, 10};
    for (int i = 0; i < 5; i++) for (int p = 0; p < 3; p++) {
      OP(1) {
        unsigned long *masks = malloc(NRS[i] * sizeof(unsigned long)); /* exact size: ASan sees over-reads */
        for (unsigned q = 0; q < NRS[i]; q++) masks[q] = p == 0 ? 0UL : p == 1 ? ~0UL : MASKS[(q + 1) % NMASKS];
        *rc = hwloc_bitmap_from_ulongs(b, NRS[i], masks);
        rs_zero(m); for (unsigned q = 0; q < NRS[i]; q++) m->w[q] = masks[q];
        free(masks);
        snprintf(desc, dl, "from_ulongs(%u,pattern%d)", NRS[i], p); return 1;
      }
    }
  }
#undef OP
  return 0;
}

/* ---------------------------------------------------------------- unary queries */
#define Q(name, got, want) do { long g_ = (long)(got), w_ = (long)(want); mc_count("q." name, 1); \
    if (g_ != w_) mc_violation("c03.query." name, "%s: %s on %s = %ld, expected %ld", mc_case_text(), name, rs_str(m), g_, w_); } while (0)

static void unary_queries(hwloc_const_bitmap_t b, const refset *m, const struct rep *r)
{
  Q("iszero", hwloc_bitmap_iszero(b), rs_iszero(m));
  Q("isfull", hwloc_bitmap_isfull(b), rs_isfull(m));
  Q("first", hwloc_bitmap_first(b), rs_first(m));
  Q("last", hwloc_bitmap_last(b), rs_last(m));
  Q("first_unset", hwloc_bitmap_first_unset(b), rs_first_unset(m));
  Q("last_unset", hwloc_bitmap_last_unset(b), rs_last_unset(m));
  Q("weight", hwloc_bitmap_weight(b), rs_weight(m));
  { long l = rs_last(m); Q("nr_ulongs", hwloc_bitmap_nr_ulongs(b), m->tail ? -1 : (l + 64) / 64); }
  Q("to_ulong", hwloc_bitmap_to_ulong(b), m->w[0]);
  for (unsigned i = 0; i < r->count + 2 && i < RS_WORDS; i++) Q("to_ith_ulong", hwloc_bitmap_to_ith_ulong(b, i), rs_word(m, i));
  Q("next", hwloc_bitmap_next(b, -1), rs_next(m, -1));
  Q("next_unset", hwloc_bitmap_next_unset(b, -1), rs_next_unset(m, -1));
  for (int i = 0; i < NI16; i++) {
    Q("next", hwloc_bitmap_next(b, (int)I16[i]), rs_next(m, I16[i]));
    Q("next_unset", hwloc_bitmap_next_unset(b, (int)I16[i]), rs_next_unset(m, I16[i]));
    Q("next", hwloc_bitmap_next(b, (int)I16[i] - 1 < 0 ? 2 : (int)I16[i] - 1), rs_next(m, I16[i] - 1 < 0 ? 2 : I16[i] - 1));
  }
  {
    /* to_ulongs into exact-size heap arrays */
    unsigned nrs[3] = {1, r->count, r->count + 2};
    for (int k = 0; k < 3; k++) {
      unsigned long *masks = malloc(nrs[k] * sizeof(unsigned long));
      int rc = hwloc_bitmap_to_ulongs(b, nrs[k], masks);
      Q("to_ulongs.rc", rc, 0);
      for (unsigned i = 0; i < nrs[k]; i++) Q("to_ulongs", masks[i], rs_word(m, i));
      free(masks);
    }
  }
  {
    /* the iteration idiom first/next visits exactly the set members in order; for an
     * infinite set it is followed a few steps into the tail (the foreach macro itself
     * asserts on infinite sets, as documented) */
    long expect = rs_first(m), steps = 0; int id;
    for (id = hwloc_bitmap_first(b); id != -1 && steps < RS_BITS + 3; id = hwloc_bitmap_next(b, id), steps++) {
      if (id != expect) break;
      expect = rs_next(m, expect);
    }
    if (steps < RS_BITS + 3) Q("iterate", id, expect);
    if (!m->tail) {
      unsigned uid; long n = 0, bad = 0, prev = -1;
      hwloc_bitmap_foreach_begin(uid, b) { if (!rs_isset(m, uid) || (long)uid <= prev) bad++; prev = uid; n++; } hwloc_bitmap_foreach_end();
      Q("foreach.count", n, rs_weight(m)); Q("foreach.members", bad, 0);
    }
  }
  MC.transitions += 60;
}

/* ---------------------------------------------------------------- binary */
static int sign(long v) { return v < 0 ? -1 : v > 0 ? 1 : 0; }
static int model_compare(const refset *a, const refset *b)
{
  if (a->tail != b->tail) return a->tail - b->tail;
  for (int i = RS_WORDS - 1; i >= 0; i--) if (a->w[i] != b->w[i]) return a->w[i] < b->w[i] ? -1 : 1;
  return 0;
}
static int model_compare_first(const refset *a, const refset *b)
{
  long fa = rs_first(a), fb = rs_first(b);
  if (fa < 0 && fb < 0) return 0;
  if (fa < 0) return 1;       /* the empty set is higher than anything */
  if (fb < 0) return -1;
  return sign(fa - fb);
}
static int model_compare_inclusion(const refset *a, const refset *b)
{
  if (rs_isequal(a, b)) return HWLOC_BITMAP_EQUAL;
  if (rs_isincluded(a, b)) return HWLOC_BITMAP_INCLUDED;
  if (rs_isincluded(b, a)) return HWLOC_BITMAP_CONTAINS;
  if (rs_intersects(a, b)) return HWLOC_BITMAP_INTERSECTS;
  return HWLOC_BITMAP_DIFFERENT;
}

#define QB(name, got, want) do { long g_ = (long)(got), w_ = (long)(want); mc_count("q." name, 1); \
    if (g_ != w_) mc_violation("c03.query." name, "%s: %s(%s, %s) = %ld, expected %ld", mc_case_text(), name, rs_str(&a->m), rs_str(&b->m), g_, w_); } while (0)

static void binary_queries(const struct rep *a, const struct rep *b)
{
  hwloc_const_bitmap_t x = a->proto, y = b->proto;
  QB("isequal", hwloc_bitmap_isequal(x, y), rs_isequal(&a->m, &b->m));
  QB("isincluded", hwloc_bitmap_isincluded(x, y), rs_isincluded(&a->m, &b->m));
  QB("intersects", hwloc_bitmap_intersects(x, y), rs_intersects(&a->m, &b->m));
  QB("compare", sign(hwloc_bitmap_compare(x, y)), model_compare(&a->m, &b->m));
  QB("compare_first", sign(hwloc_bitmap_compare_first(x, y)), model_compare_first(&a->m, &b->m));
  QB("compare_inclusion", hwloc_bitmap_compare_inclusion(x, y), model_compare_inclusion(&a->m, &b->m));
  MC.transitions += 6;
}

typedef int (*binop_t)(hwloc_bitmap_t, hwloc_const_bitmap_t, hwloc_const_bitmap_t);
typedef void (*mbinop_t)(refset *, const refset *, const refset *);
static const struct { const char *name; binop_t f; mbinop_t m; } BINOPS[] = {
  {"or", hwloc_bitmap_or, rs_or}, {"and", hwloc_bitmap_and, rs_and},
  {"andnot", hwloc_bitmap_andnot, rs_andnot}, {"xor", hwloc_bitmap_xor, rs_xor},
};
#define NBINOPS 4

static void unchanged(hwloc_const_bitmap_t b, const struct rep *r, const char *what)
{
  struct rep now;
  if (get_repr(b, &now) < 0 || !same_rep(&now, r)) { char k[96]; snprintf(k, sizeof(k), "c03.operand-modified@%s", what); mc_violation(k, "%s", mc_case_text()); }
}

/* all aliasing patterns of op(res, x, y) for operands a, b and destination representation d.
 * collect != 0: add the resulting representations to R with the given depth. */
static void binary_ops(size_t ia, size_t ib, size_t id, int collect_depth)
{
  struct rep *a = &R[ia], *b = &R[ib], *d = &R[id];
  char how[256];
  for (int o = 0; o < NBINOPS; o++) {
    refset expect;
    hwloc_bitmap_t x, y, z; int rc;
    /* res fresh */
    x = fresh(a); y = fresh(b); z = fresh(d);
    BINOPS[o].m(&expect, &a->m, &b->m);
    if (!mc_case("%s(res=[%s], [%s], [%s])", BINOPS[o].name, d->how, a->how, b->how)) goto next1;
    rc = BINOPS[o].f(z, x, y);
    if (rc) mc_violation("c03.op.rc", "%s rc=%d", mc_case_text(), rc);
    check_result(z, &expect, BINOPS[o].name);
    unchanged(x, a, BINOPS[o].name); unchanged(y, b, BINOPS[o].name);
    if (collect_depth) { snprintf(how, sizeof(how), "%s([%s],[%s])", BINOPS[o].name, a->how, b->how); add_rep(z, collect_depth, how); }
  next1:
    hwloc_bitmap_free(x); hwloc_bitmap_free(y); hwloc_bitmap_free(z);
    /* res == op1 */
    x = fresh(a); y = fresh(b);
    if (mc_case("%s(res=op1=[%s], [%s])", BINOPS[o].name, a->how, b->how)) {
      rc = BINOPS[o].f(x, x, y);
      if (rc) mc_violation("c03.op.rc", "%s rc=%d", mc_case_text(), rc);
      check_result(x, &expect, BINOPS[o].name);
      unchanged(y, b, BINOPS[o].name);
      if (collect_depth) { snprintf(how, sizeof(how), "%s(self=[%s],[%s])", BINOPS[o].name, a->how, b->how); add_rep(x, collect_depth, how); }
    }
    hwloc_bitmap_free(x); hwloc_bitmap_free(y);
    /* res == op2 */
    x = fresh(a); y = fresh(b);
    if (mc_case("%s(res=op2, [%s], op2=[%s])", BINOPS[o].name, a->how, b->how)) {
      rc = BINOPS[o].f(y, x, y);
      if (rc) mc_violation("c03.op.rc", "%s rc=%d", mc_case_text(), rc);
      check_result(y, &expect, BINOPS[o].name);
      unchanged(x, a, BINOPS[o].name);
      if (collect_depth) { snprintf(how, sizeof(how), "%s([%s],self=[%s])", BINOPS[o].name, a->how, b->how); add_rep(y, collect_depth, how); }
    }
    hwloc_bitmap_free(x); hwloc_bitmap_free(y);
    MC.transitions += 3;
    if (ia == ib) {
      /* all three the same object */
      x = fresh(a);
      BINOPS[o].m(&expect, &a->m, &a->m);
      if (mc_case("%s(res=op1=op2=[%s])", BINOPS[o].name, a->how)) {
        rc = BINOPS[o].f(x, x, x);
        if (rc) mc_violation("c03.op.rc", "%s rc=%d", mc_case_text(), rc);
        check_result(x, &expect, BINOPS[o].name);
      }
      hwloc_bitmap_free(x);
      MC.transitions++;
    }
  }
  /* not and copy: res fresh (self-not is a unary op above) */
  {
    refset expect; hwloc_bitmap_t x = fresh(a), z = fresh(d); int rc;
    if (mc_case("not(res=[%s], [%s])", d->how, a->how)) {
      rs_not(&expect, &a->m);
      rc = hwloc_bitmap_not(z, x);
      if (rc) mc_violation("c03.op.rc", "%s rc=%d", mc_case_text(), rc);
      check_result(z, &expect, "not"); unchanged(x, a, "not");
      if (collect_depth) { snprintf(how, sizeof(how), "not([%s])", a->how); add_rep(z, collect_depth, how); }
    }
    hwloc_bitmap_free(z); z = fresh(d);
    if (mc_case("copy(dst=[%s], [%s])", d->how, a->how)) {
      rc = hwloc_bitmap_copy(z, x);
      if (rc) mc_violation("c03.op.rc", "%s rc=%d", mc_case_text(), rc);
      check_result(z, &a->m, "copy"); unchanged(x, a, "copy");
      if (collect_depth) { snprintf(how, sizeof(how), "copy(dst=[%s],[%s])", d->how, a->how); add_rep(z, collect_depth, how); }
    }
    hwloc_bitmap_free(x); hwloc_bitmap_free(z);
    MC.transitions += 2;
  }
}

static void new_state(size_t i)
{
  MC.states++;
  if (mc_case("queries on [%s]", R[i].how)) {
    struct rep *r = &R[i];
    refset api; observe(r->proto, &api);
    if (!rs_isequal(&api, &r->m)) mc_violation("c03.isset-vs-repr@state", "%s: repr=%s api=%s", mc_case_text(), rs_str(&r->m), rs_str(&api));
    const refset *m = &r->m;
    unary_queries(r->proto, m, r);
    /* dup denotes the same set and is an independent object */
    hwloc_bitmap_t d = hwloc_bitmap_dup(r->proto);
    check_result(d, m, "dup");
    hwloc_bitmap_set(d, 700); hwloc_bitmap_clr(d, 0);
    unchanged(r->proto, r, "dup-independent");
    hwloc_bitmap_free(d);
  }
}

/* apply every unary op to R[i]; new representations get depth d */
static void expand_unary(size_t i, int d)
{
  char desc[96], how[320];
  for (int k = 0;; k++) {
    hwloc_bitmap_t b = fresh(&R[i]);
    refset m = R[i].m; int rc;
    if (!unary_op(k, b, &m, desc, sizeof(desc), &rc)) { hwloc_bitmap_free(b); break; }
    MC.transitions++;
    if (mc_case("%s on [%s]", desc, R[i].how)) {
      if (rc) mc_violation("c03.op.rc", "%s rc=%d", mc_case_text(), rc);
      check_result(b, &m, "unary");
      snprintf(how, sizeof(how), "%s%s%s", R[i].how, R[i].how[0] ? ";" : "", desc);
      add_rep(b, d, how);
    }
    hwloc_bitmap_free(b);
  }
}

int main(int argc, char **argv)
{
  mc_init(argc, argv, "C03");
  strset_init(&seen);
  /* bounds */
  int unary_depth = MC.thorough ? 3 : 2;          /* unary-op BFS depth */
  size_t pair_close = MC.thorough ? 400 : 150;    /* combinators closed over the first N representations (BFS order) */
  size_t maxP = MC.thorough ? 6000 : 1600;        /* size of the pair set of phase 3 */

  hwloc_bitmap_t e = hwloc_bitmap_alloc(), f = hwloc_bitmap_alloc_full();
  add_rep(e, 0, "alloc"); add_rep(f, 0, "alloc_full");
  hwloc_bitmap_free(e); hwloc_bitmap_free(f);

  /* phase 1a (identical in every worker): unary ops on the two roots, then the
   * combinators over all ordered pairs of the first pair_close representations under all
   * aliasing patterns.  This "core" table is common to all workers. */
  expand_unary(0, 1); expand_unary(1, 1);
  {
    size_t n = nR < pair_close ? nR : pair_close;
    for (size_t i = 0; i < n; i++) for (size_t j = 0; j < n; j++) binary_ops(i, j, 0, 2);
  }
  size_t nCommon = nR;
  if (MC.part != 0) MC.transitions = 0;   /* phase 1a is counted once */
  mc_count_max("core_representations", nCommon);
  /* phase 1b (partitioned): unary ops on every core representation, and again on the
   * results up to unary_depth. Representations found here are worker-local. */
  {
    size_t lo = 2, hi = nCommon;
    for (int d = 2; d <= unary_depth; d++) {
      for (size_t i = lo; i < hi; i++) {
        if (i < nCommon && !mc_mine(i)) continue;
        if (mc_deadline()) break;
        expand_unary(i, R[i].depth + 1);
      }
      lo = hi; hi = nR;
    }
  }
  mc_note("phase 1: %zu core representations (roots + unary ops + combinators closed over the first %zu), unary-op depth %d beyond", nCommon, pair_close, unary_depth);

  /* phase 2: unary queries on every representation */
  for (size_t i = 0; i < nR; i++) { if (i < nCommon && !mc_mine(i)) continue; new_state(i); }

  /* phase 3: pair set P = representations in BFS order, thinned so that every
   * (count, infinite, denoted set) signature seen is represented */
  size_t *P = malloc(nR * sizeof(size_t)), nP = 0;
  {
    struct strset sig; strset_init(&sig);
    for (size_t i = 0; i < nCommon && nP < maxP; i++) P[nP++] = i;
    strset_free(&sig);
  }
  /* destination representations: distinct (count, infinite) signatures */
  size_t D[64], nD = 0;
  {
    struct strset sig; strset_init(&sig);
    for (size_t i = 0; i < nCommon && nD < 64; i++) {
      char k[16]; int n = snprintf(k, sizeof(k), "%u/%d", R[i].count, R[i].inf);
      if (strset_add(&sig, k, (size_t)n)) D[nD++] = i;
    }
    strset_free(&sig);
  }
  mc_note("phase 3: %zu x %zu ordered pairs, %zu destination representations", nP, nP, nD);
  uint64_t pairs = 0;
  for (size_t i = 0; i < nP; i++) {
    if (!mc_mine(i)) continue;
    if (mc_deadline()) break;
    for (size_t j = 0; j < nP; j++) {
      if (!mc_case("pair [%s] , [%s]", R[P[i]].how, R[P[j]].how)) { if (!MC.only) continue; }
      binary_queries(&R[P[i]], &R[P[j]]);
      binary_ops(P[i], P[j], D[(i + j) % nD], 0);
      pairs++;
    }
    /* every destination representation against a few operand pairs per i */
    for (size_t k = 0; k < nD; k++) binary_ops(P[i], P[(i * 7 + k) % nP], D[k], 0);
  }
  mc_count("ordered_pairs", pairs);
  {
    /* distinct denoted sets vs representations: the "independent of history" clause is
     * non-vacuous only if several representations denote one set */
    struct strset sets; strset_init(&sets);
    for (size_t i = 0; i < nR; i++) strset_add(&sets, (const char *)&R[i].m, sizeof(refset));
    mc_count_max("distinct_denoted_sets", sets.n);
    mc_count_max("distinct_representations", nR);
    strset_free(&sets);
  }
  for (size_t i = 0; i < nR && i < 6; i++) mc_sample("representation #%zu: count=%u infinite=%d set=%s history=[%s]", i * 97 % nR, R[i * 97 % nR].count, R[i * 97 % nR].inf, rs_str(&R[i * 97 % nR].m), R[i * 97 % nR].how);
  return mc_finish(1);
}
