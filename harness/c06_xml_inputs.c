/* C06 - loading arbitrary XML never corrupts memory, hangs or yields a broken topology.
 *
 * Deviation-bounded exhaustive input enumeration: base documents (fixtures, small corpus
 * files, their v2-format exports, hand-written hwloc-2.x documents) and, for every base, EVERY
 * single deviation of the alphabet at EVERY applicable site:
 *   attribute value := each of a boundary/garbage value list, or the value of the previous attribute;
 *   attribute dropped / duplicated; element dropped / duplicated / renamed / swapped with the next;
 *   version changed; truncation at every byte offset; '<' '>' '"' flipped at every occurrence.
 * Plus every document of <= 4 tokens over an XML token alphabet, and the same for diff XML.
 * One process per XML backend (HWLOC_LIBXML_IMPORT).  Exact-size heap copies, watchdog, ASan.
 */
#include "hwmc.h"
#include "univ.h"
#include "canon.h"
#include "wf.h"
#include "battery.h"
#include "hwloc/diff.h"

static int with_wf = 1;

static void try_document(const char *doc, size_t len, const char *what)
{
  /* exact-size heap copy, once with and once without the final NUL counted (both documented: length includes the NUL;
   * size >= 1 is the precondition) */
  MC.transitions++;
  char *copy = malloc(len + 1); memcpy(copy, doc, len); copy[len] = 0;
  hwloc_topology_t t = NULL; int rc1 = -9, rc2 = -9;
  if (MC_TRY(20000)) {
    hwloc_topology_init(&t);
    hwloc_topology_set_all_types_filter(t, HWLOC_TYPE_FILTER_KEEP_ALL);
    hwloc_topology_set_flags(t, HWLOC_TOPOLOGY_FLAG_INCLUDE_DISALLOWED | HWLOC_TOPOLOGY_FLAG_IMPORT_SUPPORT);
    rc1 = hwloc_topology_set_xmlbuffer(t, copy, (int)len + 1);
    if (rc1 == 0) rc2 = hwloc_topology_load(t);
    mc_try_end();
  }
  if (mc_report_faults(what)) { free(copy); mc_leak_disable(); return; }
  if ((rc1 != 0 && rc1 != -1) || (rc1 == 0 && rc2 != 0 && rc2 != -1)) mc_violation("c06.rc", "%s :: set_xmlbuffer=%d load=%d", mc_case_text(), rc1, rc2);
  if (rc1 == 0 && rc2 == 0) {
    mc_count("documents_loaded", 1); MC.states++;
    char key[64];
    if (MC_TRY(60000)) {
      /* unmodified base documents are not covered by the known finding on unvalidated documents: distinct key */
      if (with_wf) { snprintf(key, sizeof(key), strcmp(what, "base") ? "%s-loaded" : "%s-document", what); wf_check_mc(t, key); }
      struct sb b; sb_init(&b); battery_all(t, &b); sb_free(&b);
      hwloc_topology_t d = NULL; if (hwloc_topology_dup(&d, t) == 0) hwloc_topology_destroy(d);
      mc_try_end();
    }
    snprintf(key, sizeof(key), "%s-battery", what); mc_report_faults(key);
    snprintf(key, sizeof(key), strcmp(what, "base") ? "%s-topology_check" : "%s-document-check", what); wf_builtin_check_mc(t, key);
    if (MC_TRY(20000)) { hwloc_topology_destroy(t); mc_try_end(); }
    mc_report_faults("destroy");
  } else {
    mc_count("documents_rejected", 1);
    /* a failed topology can be destroyed, or configured and loaded again */
    int rc3 = -9, rc4 = -9;
    if (MC_TRY(20000)) {
      /* in turn: a synthetic description, the richest fixture (distances, memory attributes, CPU kinds, I/O: whatever the failed
       * import registered before failing must not leak into the next load), nothing */
      static char *rich; static int richlen;
      if (!rich) { char pth[600]; snprintf(pth, sizeof(pth), "%s/harness/fixtures/annot.xml", univ_verif()); rich = univ_read_file(pth, &richlen); }
      if ((MC.transitions & 3) == 0) { rc3 = hwloc_topology_set_synthetic(t, "pu:2"); if (rc3 == 0) rc4 = hwloc_topology_load(t); }
      else if ((MC.transitions & 3) == 1 && rich) { rc3 = hwloc_topology_set_xmlbuffer(t, rich, richlen + 1); if (rc3 == 0) rc4 = hwloc_topology_load(t); if (rc3 == 0 && rc4 == 0) { wf_check_mc(t, "reload-after-failure"); struct sb b; sb_init(&b); battery_group(t, BAT_CPUKINDS, &b); battery_group(t, BAT_DISTANCES, &b); battery_group(t, BAT_MEMATTRS, &b); sb_free(&b); } }
      else rc3 = rc4 = 0;
      hwloc_topology_destroy(t);
      mc_try_end();
    }
    mc_report_faults("after-failure");
    if (rc3 != 0 || rc4 != 0) mc_violation(rc1 == 0 ? "c06.reload-after-failed-load" : "c06.reload-after-failed-set", "%s :: after the failure set_synthetic=%d load=%d (errno %d)", mc_case_text(), rc3, rc4, errno);
  }
  free(copy);
}

static void try_diff_document(const char *doc, size_t len)
{
  MC.transitions++;
  char *copy = malloc(len + 1); memcpy(copy, doc, len); copy[len] = 0;
  hwloc_topology_diff_t diff = NULL; char *refname = NULL; int rc = -9;
  if (MC_TRY(20000)) { rc = hwloc_topology_diff_load_xmlbuffer(copy, (int)len + 1, &diff, &refname); mc_try_end(); }
  if (!mc_report_faults("diff-load")) {
    if (rc != 0 && rc != -1) mc_violation("c06.rc", "%s :: diff_load_xmlbuffer=%d", mc_case_text(), rc);
    if (rc == 0) { mc_count("diffs_loaded", 1); if (MC_TRY(20000)) { hwloc_topology_diff_destroy(diff); free(refname); mc_try_end(); } mc_report_faults("diff-destroy"); }
    else mc_count("diffs_rejected", 1);
  }
  free(copy);
}

/* ---------------------------------------------------------------- scanning */
struct attr { size_t name_off, name_len, val_off, val_len, end_off; };   /* end_off: after the closing quote */
struct elem { size_t start, tag_end, end; size_t name_off, name_len; };    /* [start,end) whole element incl. subtree; tag_end after '>' of the start tag */

static size_t scan_attrs(const char *d, size_t n, struct attr *A, size_t max)
{
  size_t k = 0;
  for (size_t i = 0; i + 2 < n && k < max; i++) {
    if (d[i] == '=' && d[i + 1] == '"') {
      size_t s = i; while (s > 0 && (isalnum((unsigned char)d[s - 1]) || d[s - 1] == '_')) s--;
      if (s == i) continue;
      size_t e = i + 2; while (e < n && d[e] != '"') e++;
      if (e >= n) break;
      A[k].name_off = s; A[k].name_len = i - s; A[k].val_off = i + 2; A[k].val_len = e - (i + 2); A[k].end_off = e + 1; k++;
      i = e;
    }
  }
  return k;
}

static size_t scan_elems(const char *d, size_t n, struct elem *E, size_t max)
{
  /* stack-based scan of start tags and their matching ends */
  size_t k = 0; size_t stack[256]; int sp = 0;
  for (size_t i = 0; i < n; i++) {
    if (d[i] != '<') continue;
    if (i + 1 < n && (d[i + 1] == '?' || d[i + 1] == '!')) continue;
    if (i + 1 < n && d[i + 1] == '/') { /* end tag */
      size_t e = i; while (e < n && d[e] != '>') e++;
      if (sp > 0) { size_t idx = stack[--sp]; E[idx].end = e + 1; }
      i = e; continue;
    }
    size_t e = i; int inq = 0; while (e < n && (inq || d[e] != '>')) { if (d[e] == '"') inq = !inq; e++; }
    if (e >= n || k >= max) break;
    E[k].start = i; E[k].tag_end = e + 1; E[k].name_off = i + 1;
    size_t q = i + 1; while (q < e && !isspace((unsigned char)d[q]) && d[q] != '/' && d[q] != '>') q++;
    E[k].name_len = q - (i + 1);
    if (d[e - 1] == '/') E[k].end = e + 1; else { E[k].end = n; if (sp < 256) stack[sp++] = k; }
    k++;
    i = e;
  }
  return k;
}

static const char *VALUES[] = { "", "0", "-1", "1", "4294967295", "4294967296", "18446744073709551616", "0x", "0xffffffffffffffffffffffff", ",", NULL /* 300 chars */, "Bogus", "0x00000003" };
#define NVALUES (sizeof(VALUES) / sizeof(VALUES[0]))

static void splice(struct sb *out, const char *d, size_t n, size_t cut_from, size_t cut_to, const char *ins, size_t ins_len)
{
  sb_reset(out); sb_putn(out, d, cut_from); if (ins_len) sb_putn(out, ins, ins_len); sb_putn(out, d + cut_to, n - cut_to);
}

static uint64_t gidx;   /* global deviation counter used for partitioning */
#define MINE() (mc_mine(gidx++))

static void deviations_of(const char *name, const char *d, size_t n, int is_diff)
{
  static struct attr A[6000]; static struct elem E[3000];
  size_t na = scan_attrs(d, n, A, 6000), ne = scan_elems(d, n, E, 3000);
  struct sb m; sb_init(&m);
  static char long300[301]; if (!long300[0]) { memset(long300, 'A', 300); long300[300] = 0; }
  uint64_t before = MC.transitions;
#define TRY(label) do { if (is_diff) try_diff_document(m.s, m.len); else try_document(m.s, m.len, label); } while (0)
  /* 0 deviations */
  if (MINE() && mc_case("%s :: unmodified", name)) { sb_reset(&m); sb_putn(&m, d, n); TRY("base"); }
  /* attribute deviations */
  for (size_t i = 0; i < na && !mc_deadline(); i++) {
    for (unsigned v = 0; v <= NVALUES; v++) {
      if (!MINE()) continue;
      const char *val; size_t vl;
      if (v == NVALUES) { if (i == 0) continue; val = d + A[i - 1].val_off; vl = A[i - 1].val_len; }
      else { val = VALUES[v] ? VALUES[v] : long300; vl = strlen(val); }
      if (!mc_case("%s :: attr#%zu %.*s := [%.40s]", name, i, (int)A[i].name_len, d + A[i].name_off, v == NVALUES ? "<value of previous attribute>" : val)) continue;
      splice(&m, d, n, A[i].val_off, A[i].val_off + A[i].val_len, val, vl); TRY("attr-value");
    }
    /* words that mean something elsewhere in the format (built-in memory attributes, type names), for the attributes that
     * carry names and types: a document may claim a built-in, read-only attribute or another object type */
    { static const char *KEYWORDS[] = { "Capacity", "Locality", "Bandwidth", "Latency", "NUMANode", "PU", "Machine", "MemCache", "Misc", "OSDev" };
      size_t nl = A[i].name_len; const char *an = d + A[i].name_off;
      int named = (nl == 4 && (!strncmp(an, "name", 4) || !strncmp(an, "type", 4))) || (nl == 15 && !strncmp(an, "target_obj_type", 15)) || (nl == 18 && !strncmp(an, "initiator_obj_type", 18));
      if (named) for (unsigned k = 0; k < sizeof(KEYWORDS) / sizeof(KEYWORDS[0]); k++) {
        if (!MINE() || !mc_case("%s :: attr#%zu %.*s := keyword %s", name, i, (int)nl, an, KEYWORDS[k])) continue;
        splice(&m, d, n, A[i].val_off, A[i].val_off + A[i].val_len, KEYWORDS[k], strlen(KEYWORDS[k])); TRY("attr-keyword");
      } }
    if (MINE() && mc_case("%s :: attr#%zu %.*s dropped", name, i, (int)A[i].name_len, d + A[i].name_off)) { splice(&m, d, n, A[i].name_off, A[i].end_off, "", 0); TRY("attr-drop"); }
    if (MINE() && mc_case("%s :: attr#%zu %.*s duplicated", name, i, (int)A[i].name_len, d + A[i].name_off)) {
      sb_reset(&m); sb_putn(&m, d, A[i].end_off); sb_putc(&m, ' '); sb_putn(&m, d + A[i].name_off, A[i].end_off - A[i].name_off); sb_putn(&m, d + A[i].end_off, n - A[i].end_off); TRY("attr-dup"); }
  }
  /* element deviations */
  for (size_t i = 0; i < ne && !mc_deadline(); i++) {
    if (MINE() && mc_case("%s :: element#%zu <%.*s> dropped", name, i, (int)E[i].name_len, d + E[i].name_off)) { splice(&m, d, n, E[i].start, E[i].end, "", 0); TRY("elem-drop"); }
    if (MINE() && mc_case("%s :: element#%zu <%.*s> duplicated", name, i, (int)E[i].name_len, d + E[i].name_off)) {
      sb_reset(&m); sb_putn(&m, d, E[i].end); sb_putn(&m, d + E[i].start, E[i].end - E[i].start); sb_putn(&m, d + E[i].end, n - E[i].end); TRY("elem-dup"); }
    if (MINE() && mc_case("%s :: element#%zu <%.*s> renamed", name, i, (int)E[i].name_len, d + E[i].name_off)) {
      /* rename start tag only when self-closing, else both tags would need it: use a same-length name so the end tag mismatches too */
      sb_reset(&m); sb_putn(&m, d, n); for (size_t q = 0; q < E[i].name_len; q++) m.s[E[i].name_off + q] = 'x'; TRY("elem-rename"); }
    /* swap with the next sibling element (the next element that starts at this one's end, modulo whitespace) */
    for (size_t j = i + 1; j < ne; j++) {
      if (E[j].start < E[i].end) continue;
      size_t gap = E[i].end; while (gap < E[j].start && isspace((unsigned char)d[gap])) gap++;
      if (gap != E[j].start) break;
      if (MINE() && mc_case("%s :: element#%zu <%.*s> swapped with the next sibling", name, i, (int)E[i].name_len, d + E[i].name_off)) {
        sb_reset(&m); sb_putn(&m, d, E[i].start); sb_putn(&m, d + E[j].start, E[j].end - E[j].start); sb_putn(&m, d + E[i].end, E[j].start - E[i].end);
        sb_putn(&m, d + E[i].start, E[i].end - E[i].start); sb_putn(&m, d + E[j].end, n - E[j].end); TRY("elem-swap"); }
      /* re-parent: move this element inside the next sibling's start tag (right after it) when that one is not self-closing */
      if (d[E[j].tag_end - 2] != '/' && MINE() && mc_case("%s :: element#%zu <%.*s> moved into the next sibling", name, i, (int)E[i].name_len, d + E[i].name_off)) {
        sb_reset(&m); sb_putn(&m, d, E[i].start); sb_putn(&m, d + E[i].end, E[j].tag_end - E[i].end); sb_putn(&m, d + E[i].start, E[i].end - E[i].start); sb_putn(&m, d + E[j].tag_end, n - E[j].tag_end); TRY("elem-move"); }
      break;
    }
  }
  /* version */
  { const char *v = strstr(d, "version=\""); static const char *VERS[] = { "1.0", "2.0", "2.9", "3.0", "4.0", "0.9", "3", "x" };
    if (v) { size_t off = (size_t)(v - d) + 9, e = off; while (e < n && d[e] != '"') e++;
      for (unsigned k = 0; k < 8; k++) if (MINE() && mc_case("%s :: version := %s", name, VERS[k])) { splice(&m, d, n, off, e, VERS[k], strlen(VERS[k])); TRY("version"); } } }
  /* truncation at every byte offset (big documents: every 8th) */
  size_t step = n > 40000 ? 8 : 1;
  for (size_t cut = 0; cut < n && !mc_deadline(); cut += step) if (MINE() && mc_case("%s :: truncated at byte %zu", name, cut)) { sb_reset(&m); sb_putn(&m, d, cut); TRY("truncate"); }
  /* bound 2, one targeted family: a closing quote of an attribute value that contains an escape is removed AND the
   * document is cut at every one of the next 48 bytes (the parser then scans for the quote up to the end of the buffer:
   * where its cursors stop is exactly what an exact-size buffer under ASan observes) */
  for (size_t i = 0; i + 1 < n && !mc_deadline(); i++) {
    if (d[i] != '"' || i == 0) continue;
    /* closing quote: the value before it holds an '&' since its opening quote */
    size_t o = i; int amp = 0; while (o > 0 && d[o - 1] != '"' && d[o - 1] != '<') { if (d[o - 1] == '&') amp = 1; o--; }
    if (!amp || o == 0 || d[o - 1] != '"' || (o >= 2 && d[o - 2] != '=')) continue;
    for (size_t cut = i + 1; cut <= i + 48 && cut <= n; cut++) {
      if (!MINE() || !mc_case("%s :: quote at byte %zu removed and truncated at byte %zu", name, i, cut)) continue;
      sb_reset(&m); sb_putn(&m, d, i); sb_putn(&m, d + i + 1, cut - i - 1); TRY("quote+truncate");
    }
  }
  /* flips */
  for (size_t i = 0; i < n && !mc_deadline(); i++) {
    if (d[i] != '<' && d[i] != '>' && d[i] != '"') continue;
    if (!MINE() || !mc_case("%s :: byte %zu '%c' flipped", name, i, d[i])) continue;
    sb_reset(&m); sb_putn(&m, d, n); m.s[i] = d[i] == '<' ? '>' : d[i] == '>' ? '<' : '\'' ; TRY("flip");
  }
  sb_free(&m);
  mc_count_max("deviations_of_largest_base", MC.transitions - before);
  if (mc_leak_check()) { char k[160]; snprintf(k, sizeof(k), "c06.leak"); mc_violation(k, "leak reported after the deviations of %s (part %d)", name, MC.part); }
}

static const char *HANDWRITTEN[] = {
  /* hwloc 2.0 document: latency distances without name, v2 osdev types, Die as Group, v1-style attributes */
  "<?xml version=\"1.0\" encoding=\"UTF-8\"?>\n<!DOCTYPE topology SYSTEM \"hwloc2.dtd\">\n<topology version=\"2.0\">\n"
  " <object type=\"Machine\" os_index=\"0\" cpuset=\"0x0000000f\" complete_cpuset=\"0x0000000f\" allowed_cpuset=\"0x0000000f\" nodeset=\"0x00000003\" complete_nodeset=\"0x00000003\" allowed_nodeset=\"0x00000003\" gp_index=\"1\">\n"
  "  <info name=\"Backend\" value=\"Linux\"/>\n"
  "  <object type=\"Package\" os_index=\"0\" cpuset=\"0x00000003\" complete_cpuset=\"0x00000003\" nodeset=\"0x00000001\" complete_nodeset=\"0x00000001\" gp_index=\"2\">\n"
  "   <object type=\"NUMANode\" os_index=\"0\" cpuset=\"0x00000003\" complete_cpuset=\"0x00000003\" nodeset=\"0x00000001\" complete_nodeset=\"0x00000001\" gp_index=\"3\" local_memory=\"1024\"><page_type size=\"4096\" count=\"1\"/></object>\n"
  "   <object type=\"Group\" cpuset=\"0x00000003\" complete_cpuset=\"0x00000003\" nodeset=\"0x00000001\" complete_nodeset=\"0x00000001\" gp_index=\"4\" kind=\"104\" subkind=\"0\" subtype=\"Die\">\n"
  "    <object type=\"L2Cache\" cpuset=\"0x00000003\" complete_cpuset=\"0x00000003\" nodeset=\"0x00000001\" complete_nodeset=\"0x00000001\" gp_index=\"5\" cache_size=\"1024\" depth=\"2\" cache_linesize=\"64\" cache_associativity=\"8\" cache_type=\"0\">\n"
  "     <object type=\"PU\" os_index=\"0\" cpuset=\"0x00000001\" complete_cpuset=\"0x00000001\" nodeset=\"0x00000001\" complete_nodeset=\"0x00000001\" gp_index=\"6\"/>\n"
  "     <object type=\"PU\" os_index=\"1\" cpuset=\"0x00000002\" complete_cpuset=\"0x00000002\" nodeset=\"0x00000001\" complete_nodeset=\"0x00000001\" gp_index=\"7\"/>\n"
  "    </object>\n   </object>\n"
  "   <object type=\"Bridge\" gp_index=\"20\" bridge_type=\"0-1\" depth=\"0\" bridge_pci=\"0000:[00-ff]\">\n"
  "    <object type=\"PCIDev\" gp_index=\"21\" pci_busid=\"0000:00:02.0\" pci_type=\"0300 [10de:1234] [0000:0000] a1 00\" pci_link_speed=\"0.000000\">\n"
  "     <object type=\"OSDev\" gp_index=\"22\" name=\"cuda0\" subtype=\"CUDA\" osdev_type=\"5\"><info name=\"Backend\" value=\"CUDA\"/></object>\n"
  "     <object type=\"OSDev\" gp_index=\"23\" name=\"sda\" osdev_type=\"0\"/>\n"
  "     <object type=\"OSDev\" gp_index=\"24\" name=\"mlx5_0\" osdev_type=\"3\"/>\n"
  "     <object type=\"OSDev\" gp_index=\"25\" name=\"weird\" osdev_type=\"9\"/>\n"
  "    </object>\n   </object>\n"
  "  </object>\n"
  "  <object type=\"Package\" os_index=\"1\" cpuset=\"0x0000000c\" complete_cpuset=\"0x0000000c\" nodeset=\"0x00000002\" complete_nodeset=\"0x00000002\" gp_index=\"8\">\n"
  "   <object type=\"NUMANode\" os_index=\"1\" cpuset=\"0x0000000c\" complete_cpuset=\"0x0000000c\" nodeset=\"0x00000002\" complete_nodeset=\"0x00000002\" gp_index=\"9\" local_memory=\"2048\"/>\n"
  "   <object type=\"PU\" os_index=\"2\" cpuset=\"0x00000004\" complete_cpuset=\"0x00000004\" nodeset=\"0x00000002\" complete_nodeset=\"0x00000002\" gp_index=\"10\"/>\n"
  "   <object type=\"PU\" os_index=\"3\" cpuset=\"0x00000008\" complete_cpuset=\"0x00000008\" nodeset=\"0x00000002\" complete_nodeset=\"0x00000002\" gp_index=\"11\"/>\n"
  "  </object>\n </object>\n"
  " <distances2 type=\"NUMANode\" nbobjs=\"2\" kind=\"5\" indexing=\"os\">\n  <indexes length=\"4\">0 1 </indexes>\n  <u64values length=\"12\">10 20 20 10 </u64values>\n </distances2>\n"
  " <distances2 type=\"PU\" nbobjs=\"4\" kind=\"6\" name=\"XGMIHops\" indexing=\"os\">\n  <indexes length=\"8\">0 1 2 3 </indexes>\n  <u64values length=\"32\">0 1 1 1 1 0 1 1 1 1 0 1 1 1 1 0 </u64values>\n </distances2>\n"
  " <memattr name=\"Bandwidth\" flags=\"5\">\n  <memattr_value target_obj_gp_index=\"3\" target_obj_type=\"NUMANode\" value=\"100\" initiator_cpuset=\"0x00000003\"/>\n </memattr>\n"
  " <cpukind cpuset=\"0x00000003\" forced_efficiency=\"1\"><info name=\"CoreType\" value=\"Big\"/></cpukind>\n"
  " <cpukind cpuset=\"0x0000000c\"/>\n"
  "</topology>\n",
};

int main(int argc, char **argv)
{
  mc_init(argc, argv, "C06");
  const char *stage = mc_opt("stage"); if (!stage) stage = "deviations";
  mc_note("XML import backend: HWLOC_LIBXML_IMPORT=%s", getenv("HWLOC_LIBXML_IMPORT") ? getenv("HWLOC_LIBXML_IMPORT") : "default");
  if (mc_opt("nowf")) with_wf = 0;
  if (!strcmp(stage, "deviations")) {
    /* base documents */
    int nf = univ_fix_count(), nc = univ_corpus_count();
    for (int i = 0; i < nf; i++) {
      int len; char *doc = univ_read_file(univ_fix(i)->text, &len);
      if (!doc) continue;
      if (MC.thorough || i % 2 == 0 || !strcmp(univ_fix(i)->name, "io.xml") || !strcmp(univ_fix(i)->name, "annot.xml") || !strcmp(univ_fix(i)->name, "misc.xml") /* the one with characters that need escaping */) deviations_of(univ_fix(i)->name, doc, (size_t)len, 0);
      /* its v2-format export as a hwloc-2.x base document */
      if (MC.thorough || i % 4 == 1) {
        hwloc_topology_t t; struct ucfg c; ucfg_keepall(&c);
        if (univ_load(&t, univ_fix(i), &c) == 0) {
          char *x; int xl; if (hwloc_topology_export_xmlbuffer(t, &x, &xl, HWLOC_TOPOLOGY_EXPORT_XML_FLAG_V2) == 0) { char nm[128]; snprintf(nm, sizeof(nm), "%s(v2 export)", univ_fix(i)->name); char *cp = strdup(x); hwloc_free_xmlbuffer(t, x); deviations_of(nm, cp, strlen(cp), 0); free(cp); }
          hwloc_topology_destroy(t);
        }
      }
      free(doc);
    }
    for (unsigned i = 0; i < sizeof(HANDWRITTEN) / sizeof(HANDWRITTEN[0]); i++) { char nm[32]; snprintf(nm, sizeof(nm), "handwritten-v2-%u", i); deviations_of(nm, HANDWRITTEN[i], strlen(HANDWRITTEN[i]), 0); }
    for (int i = 0; i < nc; i++) {
      int len; char *doc = univ_read_file(univ_corpus(i)->text, &len);
      if (!doc) continue;
      if (len < (MC.thorough ? 30000 : 8000)) deviations_of(univ_corpus(i)->name, doc, (size_t)len, 0);
      free(doc);
    }
    mc_sample("annot.xml :: attr#17 cpuset := [18446744073709551616]"); mc_sample("io.xml :: element#9 <object> duplicated"); mc_sample("handwritten-v2-0 :: truncated at byte 1201");
  } else if (!strcmp(stage, "tokens")) {
    static const char *TOK[] = { "<?xml version=\"1.0\"?>", "<topology version=\"3.0\">", "<topology>", "</topology>", "<object type=\"Machine\" cpuset=\"0x1\" nodeset=\"0x1\">", "<object type=\"PU\" os_index=\"0\" cpuset=\"0x1\" nodeset=\"0x1\"/>",
                                 "<object type=\"NUMANode\" os_index=\"0\" cpuset=\"0x1\" nodeset=\"0x1\"/>", "</object>", "<object", "/>", ">", "<info name=\"a\" value=\"b\"/>", "<distances2 nbobjs=\"2\" kind=\"5\" type=\"PU\" indexing=\"os\">", "</distances2>",
                                 "<indexes length=\"4\">0 1 </indexes>", "<userdata length=\"1\">a</userdata>", "&amp;", "\"", " ", "<!DOCTYPE topology SYSTEM \"hwloc2.dtd\">", "<support name=\"x\"/>", "<cpukind cpuset=\"0x1\"/>", "<memattr name=\"A\" flags=\"1\"/>", "<page_type size=\"1\" count=\"1\"/>" };
    const int NT = sizeof(TOK) / sizeof(TOK[0]);
    int maxtok = MC.thorough ? 5 : 4;
    for (int len = 0; len <= maxtok; len++) {
      uint64_t total = 1; for (int i = 0; i < len; i++) total *= (uint64_t)NT;
      for (uint64_t k = 0; k < total; k++) {
        if (!MINE()) continue;
        if ((k & 0x3ff) == 0 && mc_deadline()) break;
        char s[1024]; s[0] = 0; uint64_t q = k; char idx[64]; idx[0] = 0;
        for (int i = 0; i < len; i++) { strcat(s, TOK[q % (uint64_t)NT]); char t2[8]; snprintf(t2, sizeof(t2), "%d,", (int)(q % (uint64_t)NT)); strcat(idx, t2); q /= (uint64_t)NT; }
        if (mc_case("tokens [%s]", idx)) try_document(s, strlen(s), "tokens");
      }
    }
    mc_sample("tokens [1,4,5,3,] = <topology version=\"3.0\"><object type=\"Machine\"...><object type=\"PU\".../></topology>");
  } else if (!strcmp(stage, "diff")) {
    static const char *DIFFS[] = {
      "<?xml version=\"1.0\" encoding=\"UTF-8\"?>\n<!DOCTYPE topologydiff SYSTEM \"hwloc2-diff.dtd\">\n<topologydiff refname=\"ref.xml\">\n"
      "  <diff type=\"0\" obj_depth=\"1\" obj_index=\"0\" obj_attr_type=\"1\" obj_attr_oldvalue=\"old\" obj_attr_newvalue=\"new\"/>\n"
      "  <diff type=\"0\" obj_depth=\"-3\" obj_index=\"1\" obj_attr_type=\"0\" obj_attr_index=\"0\" obj_attr_oldvalue=\"1024\" obj_attr_newvalue=\"2048\"/>\n"
      "  <diff type=\"0\" obj_depth=\"2\" obj_index=\"3\" obj_attr_type=\"2\" obj_attr_name=\"Info\" obj_attr_oldvalue=\"a\" obj_attr_newvalue=\"b\"/>\n"
      "  <diff type=\"1\" obj_depth=\"0\" obj_index=\"0\"/>\n</topologydiff>\n",
    };
    for (unsigned i = 0; i < sizeof(DIFFS) / sizeof(DIFFS[0]); i++) { char nm[32]; snprintf(nm, sizeof(nm), "diff-%u", i); deviations_of(nm, DIFFS[i], strlen(DIFFS[i]), 1); }
    static const char *TOK[] = { "<?xml version=\"1.0\"?>", "<topologydiff>", "<topologydiff refname=\"r\">", "</topologydiff>", "<diff type=\"0\" obj_depth=\"0\" obj_index=\"0\" obj_attr_type=\"1\" obj_attr_oldvalue=\"a\" obj_attr_newvalue=\"b\"/>",
                                 "<diff type=\"1\" obj_depth=\"0\" obj_index=\"0\"/>", "<diff type=\"7\"/>", "<diff", "/>", ">", "<topology version=\"3.0\">", "&", "\"" };
    const int NT = sizeof(TOK) / sizeof(TOK[0]);
    for (int len = 0; len <= 4; len++) {
      uint64_t total = 1; for (int i = 0; i < len; i++) total *= (uint64_t)NT;
      for (uint64_t k = 0; k < total; k++) {
        if (!MINE()) continue;
        char s[1024]; s[0] = 0; uint64_t q = k; char idx[64]; idx[0] = 0;
        for (int i = 0; i < len; i++) { strcat(s, TOK[q % (uint64_t)NT]); char t2[8]; snprintf(t2, sizeof(t2), "%d,", (int)(q % (uint64_t)NT)); strcat(idx, t2); q /= (uint64_t)NT; }
        if (mc_case("diff tokens [%s]", idx)) try_diff_document(s, strlen(s));
      }
    }
    mc_sample("diff-0 :: attr#5 obj_attr_type := [4294967296]");
  }
  return mc_finish(1);
}
