/* C13 - distances: what is added is what is returned, and it follows the objects.
 *
 * Explicit-state exploration of histories over {add, remove, remove_by_depth, release_remove,
 * restrict, switch-to-dup, switch-to-XML-reload} from 6 roots, with a list reference model
 * maintained next to the real topology during replay.  After every step the complete query
 * battery (get / by_depth / by_type / by_name x kind filters x *nr in {0,1,all}) is compared
 * with the model, every returned structure is checked against that topology's objects, and
 * the four transforms are applied to copies with switch ports at every subset of positions.
 */
#include "hwmc.h"
#include "univ.h"
#include "canon.h"
#include "wf.h"
#include "ops.h"
#include <inttypes.h>

#define MAXO 8
struct mdist { int hasname; char name[32]; unsigned long kind; unsigned n; hwloc_uint64_t gp[MAXO]; hwloc_obj_type_t ty[MAXO]; hwloc_uint64_t v[MAXO * MAXO]; };
struct model { struct mdist d[24]; int n; };

enum { D_ADD = 1, D_REMOVE_ALL, D_REMOVE_DEPTH, D_RELEASE_REMOVE, D_RESTRICT, D_DUP, D_XML };
struct dop { int kind, a, b, c, d; };
struct dhist { int root; int n; struct dop ops[5]; };

/* a leading '!' loads the root with NO_DISTANCES|NO_MEMATTRS|NO_CPUKINDS: the flags stop the backends, structures added by the
 * user are live all the same and must follow the objects (restrict, Group insertion, refresh) like any other */
static const char *ROOTS[] = { "pu:4", "node:4 pu:1", "node:2 core:2 pu:1", "package:2 core:2 pu:2", "@io.xml", "@annot.xml", "!pu:4", "!node:2 core:2 pu:1" };
#define NROOTS 8
static const char *NAMES[] = { NULL, "a", "b" };
static const unsigned long KINDS[] = { HWLOC_DISTANCES_KIND_FROM_USER | HWLOC_DISTANCES_KIND_VALUE_LATENCY, HWLOC_DISTANCES_KIND_FROM_OS | HWLOC_DISTANCES_KIND_VALUE_BANDWIDTH,
                                       HWLOC_DISTANCES_KIND_VALUE_HOPS, /* invalid: */ 0, HWLOC_DISTANCES_KIND_VALUE_LATENCY | HWLOC_DISTANCES_KIND_VALUE_BANDWIDTH,
                                       HWLOC_DISTANCES_KIND_FROM_OS | HWLOC_DISTANCES_KIND_FROM_USER | HWLOC_DISTANCES_KIND_VALUE_LATENCY, (1UL << 9) | HWLOC_DISTANCES_KIND_VALUE_LATENCY };
#define NKINDS 7
static int kind_valid(unsigned long k)
{
  unsigned long from = k & (HWLOC_DISTANCES_KIND_FROM_OS | HWLOC_DISTANCES_KIND_FROM_USER), val = k & (HWLOC_DISTANCES_KIND_VALUE_LATENCY | HWLOC_DISTANCES_KIND_VALUE_BANDWIDTH | HWLOC_DISTANCES_KIND_VALUE_HOPS);
  if (k & ~(0x3fUL)) return 0;
  return __builtin_popcountl(from) <= 1 && __builtin_popcountl(val) == 1;
}

static void dop_print(struct sb *b, const struct dop *o)
{
  switch (o->kind) {
  case D_ADD: sb_printf(b, "add(name=%s kind=%#lx objs=%d addflags=%d)", NAMES[o->a] ? NAMES[o->a] : "NULL", KINDS[o->b], o->c, o->d); break;
  case D_REMOVE_ALL: sb_puts(b, "remove()"); break;
  case D_REMOVE_DEPTH: sb_printf(b, "remove_by_depth(%s)", o->a == 0 ? "PU" : o->a == 1 ? "NUMA" : "1"); break;
  case D_RELEASE_REMOVE: sb_printf(b, "release_remove(#%d)", o->a); break;
  case D_RESTRICT: sb_printf(b, "restrict(%#x)", o->a); break;
  case D_DUP: sb_puts(b, "switch-to-dup"); break;
  case D_XML: sb_puts(b, "switch-to-xml-reload"); break;
  }
}
static char *dhist_text(const struct dhist *h) { static struct sb b; if (!b.s) sb_init(&b); sb_reset(&b); sb_printf(&b, "root=\"%s\"", ROOTS[h->root]); for (int i = 0; i < h->n; i++) { sb_puts(&b, " ; "); dop_print(&b, &h->ops[i]); } return b.s; }

/* object selections */
static unsigned select_objs(hwloc_topology_t t, int sel, hwloc_obj_t *out)
{
  unsigned n = 0;
  hwloc_obj_t pu0 = hwloc_get_obj_by_type(t, HWLOC_OBJ_PU, 0), pu1 = hwloc_get_obj_by_type(t, HWLOC_OBJ_PU, 1), pu2 = hwloc_get_obj_by_type(t, HWLOC_OBJ_PU, 2);
  hwloc_obj_t nu0 = hwloc_get_obj_by_type(t, HWLOC_OBJ_NUMANODE, 0);
  switch (sel) {
  case 0: for (hwloc_obj_t o = pu0; o && n < MAXO; o = o->next_cousin) out[n++] = o; break;                         /* PU level */
  case 1: for (hwloc_obj_t o = nu0; o && n < MAXO; o = o->next_cousin) out[n++] = o; break;                         /* NUMA level */
  case 2: if (pu0) out[n++] = pu0; if (pu1) out[n++] = pu1; break;                                                  /* 2 PUs */
  case 3: if (pu2) out[n++] = pu2; if (pu0) out[n++] = pu0; if (pu1) out[n++] = pu1; break;                         /* 3 PUs, not in logical order */
  case 4: if (pu0) out[n++] = pu0; if (nu0) out[n++] = nu0; if (pu1) out[n++] = pu1; break;                         /* mixed types */
  case 5: if (pu0) out[n++] = pu0; break;                                                                            /* a single object: invalid */
  case 6: if (pu0) out[n++] = pu0; out[n++] = NULL; if (pu1) out[n++] = pu1; break;                                 /* NULL entry: invalid */
  case 7: { unsigned k = hwloc_get_nbobjs_by_depth(t, HWLOC_TYPE_DEPTH_OS_DEVICE); for (unsigned i = 0; i < k && n < 4; i++) out[n++] = hwloc_get_obj_by_depth(t, HWLOC_TYPE_DEPTH_OS_DEVICE, i); if (n < 2) { n = 0; hwloc_obj_t r = hwloc_get_root_obj(t); if (r->first_child && r->first_child->next_sibling) { out[n++] = r->first_child; out[n++] = r->first_child->next_sibling; } } break; }
  }
  return n;
}
#define NSEL 8
static hwloc_uint64_t value_of(unsigned seed, unsigned i, unsigned j, unsigned n) { static const unsigned P[] = {2,3,5,7,11,13,17,19,23,29,31,37,41,43,47,53,59,61,67,71,73,79,83,89,97,101,103,107,109,113,127,131,137,139,149,151,157,163,167,173,179,181,191,193,197,199,211,223,227,229,233,239,241,251,257,263,269,271,277,281,283,293,307,311}; return (hwloc_uint64_t)P[(i * n + j) % 64] * 10 + seed; }

static hwloc_topology_t load_root(int r)
{
  struct usrc s; struct ucfg c; hwloc_topology_t t;
  ucfg_keepall(&c);
  if (ROOTS[r][0] == '!') { c.flags |= HWLOC_TOPOLOGY_FLAG_NO_DISTANCES | HWLOC_TOPOLOGY_FLAG_NO_MEMATTRS | HWLOC_TOPOLOGY_FLAG_NO_CPUKINDS; s.kind = USRC_SYNTHETIC; s.text = (char *)ROOTS[r] + 1; s.name = (char *)ROOTS[r]; s.len = 0; }
  else if (ROOTS[r][0] == '@') { static char path[512]; snprintf(path, sizeof(path), "%s/harness/fixtures/%s", univ_verif(), ROOTS[r] + 1); s.kind = USRC_XMLFILE; s.text = path; s.name = (char *)ROOTS[r]; s.len = 0; }
  else { s.kind = USRC_SYNTHETIC; s.text = (char *)ROOTS[r]; s.name = s.text; s.len = 0; }
  if (univ_load(&t, &s, &c) < 0) return NULL;
  return t;
}

/* the model of distances present right after load (annot.xml carries two) is read once through the API and trusted
 * only as a starting point: everything added later is modelled independently */
static void model_from_topology(hwloc_topology_t t, struct model *m)
{
  unsigned nr = 0; m->n = 0;
  hwloc_distances_get(t, &nr, NULL, 0, 0);
  if (!nr) return;
  struct hwloc_distances_s *d[24]; if (nr > 24) nr = 24;
  hwloc_distances_get(t, &nr, d, 0, 0);
  for (unsigned i = 0; i < nr; i++) {
    struct mdist *md = &m->d[m->n++]; memset(md, 0, sizeof(*md));
    const char *nm = hwloc_distances_get_name(t, d[i]); md->hasname = !!nm; if (nm) snprintf(md->name, sizeof(md->name), "%.31s", nm);
    md->kind = d[i]->kind; md->n = d[i]->nbobjs > MAXO ? MAXO : d[i]->nbobjs;
    for (unsigned k = 0; k < md->n; k++) { md->gp[k] = d[i]->objs[k]->gp_index; md->ty[k] = d[i]->objs[k]->type; for (unsigned l = 0; l < md->n; l++) md->v[k * md->n + l] = d[i]->values[k * d[i]->nbobjs + l]; }
    hwloc_distances_release(t, d[i]);
  }
}

static int mdist_hetero(const struct mdist *d) { for (unsigned i = 1; i < d->n; i++) if (d->ty[i] != d->ty[0]) return 1; return 0; }

/* applies op to the real topology (*tp may be replaced) and to the model; checks the op's own contract */
static void apply(hwloc_topology_t *tp, struct model *m, const struct dop *o, int check)
{
  hwloc_topology_t t = *tp;
  switch (o->kind) {
  case D_ADD: {
    hwloc_obj_t objs[MAXO]; unsigned n = select_objs(t, o->c, objs);
    hwloc_uint64_t vals[MAXO * MAXO]; for (unsigned i = 0; i < n; i++) for (unsigned j = 0; j < n; j++) vals[i * n + j] = value_of((unsigned)m->n, i, j, n);
    unsigned long aflags = o->d == 1 ? (1UL << 5) : 0;
    int has_null = 0; for (unsigned i = 0; i < n; i++) if (!objs[i]) has_null = 1;
    int valid = kind_valid(KINDS[o->b]) && n >= 2 && !has_null && !aflags;
    errno = 0;
    int rc = -1; hwloc_distances_add_handle_t h = hwloc_distances_add_create(t, NAMES[o->a], KINDS[o->b], 0);
    if (h) { if (hwloc_distances_add_values(t, h, n, objs, vals, 0) == 0) rc = hwloc_distances_add_commit(t, h, aflags); }
    int e = errno;
    if (check) {
      if (valid && rc != 0) mc_violation("c13.add.refused", "%s :: valid add refused (errno %d)", mc_case_text(), e);
      if (!valid && rc == 0) mc_violation("c13.add.accepted-invalid", "%s :: invalid add accepted (kind %#lx, %u objects, null=%d, flags %#lx)", mc_case_text(), KINDS[o->b], n, has_null, aflags);
      if (!valid && rc != 0 && e != EINVAL) mc_violation("c13.add.errno", "%s :: invalid add failed with errno %d", mc_case_text(), e);
    }
    if (rc == 0 && valid && m->n < 24) {
      struct mdist *md = &m->d[m->n++]; memset(md, 0, sizeof(*md));
      md->hasname = !!NAMES[o->a]; if (NAMES[o->a]) snprintf(md->name, sizeof(md->name), "%s", NAMES[o->a]);
      md->kind = KINDS[o->b]; md->n = n;
      for (unsigned i = 0; i < n; i++) { md->gp[i] = objs[i]->gp_index; md->ty[i] = objs[i]->type; }
      memcpy(md->v, vals, n * n * sizeof(vals[0]));
      if (mdist_hetero(md)) md->kind |= HWLOC_DISTANCES_KIND_HETEROGENEOUS_TYPES;
    }
    break; }
  case D_REMOVE_ALL: { int rc = hwloc_distances_remove(t); if (check && rc) mc_violation("c13.remove.rc", "%s :: remove returned %d", mc_case_text(), rc); m->n = 0; break; }
  case D_REMOVE_DEPTH: {
    int depth = o->a == 0 ? hwloc_get_type_depth(t, HWLOC_OBJ_PU) : o->a == 1 ? HWLOC_TYPE_DEPTH_NUMANODE : 1;
    hwloc_obj_type_t ty = hwloc_get_depth_type(t, depth);
    int rc = hwloc_distances_remove_by_depth(t, depth);
    if (check && rc) mc_violation("c13.remove_by_depth.rc", "%s :: returned %d", mc_case_text(), rc);
    int k = 0;
    for (int i = 0; i < m->n; i++) {
      int match = !mdist_hetero(&m->d[i]) && m->d[i].ty[0] == ty;
      if (match && ty == HWLOC_OBJ_GROUP) { hwloc_obj_t ob = ops_obj_by_gp(t, m->d[i].gp[0]); match = ob && ob->depth == depth; }
      if (!match) m->d[k++] = m->d[i];
    }
    m->n = k;
    break; }
  case D_RELEASE_REMOVE: {
    unsigned nr = 24; struct hwloc_distances_s *d[24];
    if (hwloc_distances_get(t, &nr, d, 0, 0) < 0) break;
    if (nr > 24) nr = 24;
    for (unsigned i = 0; i < nr; i++) {
      if ((int)i == o->a) { int rc = hwloc_distances_release_remove(t, d[i]); if (check && rc) mc_violation("c13.release_remove.rc", "%s :: returned %d", mc_case_text(), rc); }
      else hwloc_distances_release(t, d[i]);
    }
    if (o->a < m->n) { for (int i = o->a; i + 1 < m->n; i++) m->d[i] = m->d[i + 1]; m->n--; }
    break; }
  case D_RESTRICT: {
    hwloc_bitmap_t s = ops_mask_to_bitmap((uint64_t)o->a, 0);
    int rc = hwloc_topology_restrict(t, s, 0);
    hwloc_bitmap_free(s);
    if (rc == 0) {
      int k = 0;
      for (int i = 0; i < m->n; i++) {
        struct mdist nd = m->d[i]; unsigned keep[MAXO], nk = 0;
        for (unsigned j = 0; j < nd.n; j++) if (ops_obj_by_gp(t, nd.gp[j])) keep[nk++] = j;
        if (nk < 2) continue;
        struct mdist r = nd; r.n = nk;
        for (unsigned a = 0; a < nk; a++) { r.gp[a] = nd.gp[keep[a]]; r.ty[a] = nd.ty[keep[a]]; for (unsigned b2 = 0; b2 < nk; b2++) r.v[a * nk + b2] = nd.v[keep[a] * nd.n + keep[b2]]; }
        r.kind &= ~(unsigned long)HWLOC_DISTANCES_KIND_HETEROGENEOUS_TYPES; if (mdist_hetero(&r)) r.kind |= HWLOC_DISTANCES_KIND_HETEROGENEOUS_TYPES;
        m->d[k++] = r;
      }
      m->n = k;
    }
    break; }
  case D_DUP: {
    hwloc_topology_t d = NULL;
    if (hwloc_topology_dup(&d, t) == 0) { hwloc_topology_destroy(t); *tp = d; }
    else if (check) mc_violation("c13.dup.fails", "%s", mc_case_text());
    break; }
  case D_XML: {
    char *x = NULL; int l = 0;
    if (hwloc_topology_export_xmlbuffer(t, &x, &l, 0) == 0) {
      hwloc_topology_t r; hwloc_topology_init(&r); hwloc_topology_set_all_types_filter(r, HWLOC_TYPE_FILTER_KEEP_ALL);
      if (hwloc_topology_set_xmlbuffer(r, x, l) == 0 && hwloc_topology_load(r) == 0) {
        hwloc_free_xmlbuffer(t, x); hwloc_topology_destroy(t); *tp = r;
        /* the document lists homogeneous structures first, then heterogeneous ones (documented in the exporter): list order follows */
        struct model nm; nm.n = 0;
        for (int pass = 0; pass < 2; pass++) for (int i = 0; i < m->n; i++) if (mdist_hetero(&m->d[i]) == pass) nm.d[nm.n++] = m->d[i];
        *m = nm;
      }
      else { if (check) mc_violation("c13.xml.reload-fails", "%s", mc_case_text()); hwloc_free_xmlbuffer(t, x); hwloc_topology_destroy(r); }
    }
    break; }
  }
}

/* ---------------------------------------------------------------- queries against the model */
static int match_kind(const struct mdist *d, unsigned long kind)
{
  unsigned long from = kind & (HWLOC_DISTANCES_KIND_FROM_OS | HWLOC_DISTANCES_KIND_FROM_USER), val = kind & (HWLOC_DISTANCES_KIND_VALUE_LATENCY | HWLOC_DISTANCES_KIND_VALUE_BANDWIDTH | HWLOC_DISTANCES_KIND_VALUE_HOPS);
  if (from && !(d->kind & from)) return 0;
  if (val && !(d->kind & val)) return 0;
  return 1;
}

static void compare_struct(hwloc_topology_t t, struct hwloc_distances_s *got, const struct mdist *want, const char *q)
{
  char key[96];
  const char *nm = hwloc_distances_get_name(t, got);
  if (!!nm != want->hasname || (nm && strcmp(nm, want->name))) { snprintf(key, sizeof(key), "c13.get.name"); mc_violation(key, "%s :: %s: name %s, model %s", mc_case_text(), q, nm ? nm : "NULL", want->hasname ? want->name : "NULL"); }
  if (got->kind != want->kind) { snprintf(key, sizeof(key), "c13.get.kind"); mc_violation(key, "%s :: %s: kind %#lx, model %#lx", mc_case_text(), q, got->kind, want->kind); }
  if (got->nbobjs != want->n) { snprintf(key, sizeof(key), "c13.get.nbobjs"); mc_violation(key, "%s :: %s: %u objects, model %u", mc_case_text(), q, got->nbobjs, want->n); return; }
  for (unsigned i = 0; i < want->n; i++) {
    hwloc_obj_t o = got->objs[i];
    if (!o) { mc_violation("c13.get.obj-null", "%s :: %s: object #%u is NULL", mc_case_text(), q, i); continue; }
    /* the pointer must belong to THIS topology */
    if (ops_obj_by_gp(t, o->gp_index) != o) mc_violation("c13.get.obj-foreign", "%s :: %s: object #%u (gp %" PRIu64 ") is not an object of this topology", mc_case_text(), q, i, o->gp_index);
    if (o->gp_index != want->gp[i] || o->type != want->ty[i]) mc_violation("c13.get.objs", "%s :: %s: object #%u is %s gp=%" PRIu64 ", model %s gp=%" PRIu64, mc_case_text(), q, i, hwloc_obj_type_string(o->type), o->gp_index, hwloc_obj_type_string(want->ty[i]), want->gp[i]);
    for (unsigned j = 0; j < want->n; j++) if (got->values[i * want->n + j] != want->v[i * want->n + j]) { mc_violation("c13.get.values", "%s :: %s: value[%u][%u]=%" PRIu64 ", model %" PRIu64, mc_case_text(), q, i, j, got->values[i * want->n + j], want->v[i * want->n + j]); i = want->n; break; }
  }
}

static void transforms(hwloc_topology_t t, const struct mdist *want);

/* one query family: filter gives the expected sub-list in order */
static void query(hwloc_topology_t t, const struct model *m, int which, int arg, const char *sarg, unsigned long kind)
{
  const struct mdist *exp[24]; unsigned ne = 0;
  char q[96];
  hwloc_obj_type_t dty = (hwloc_obj_type_t)-1;
  if (which == 1) dty = hwloc_get_depth_type(t, arg);
  for (int i = 0; i < m->n; i++) {
    const struct mdist *d = &m->d[i];
    int ok = 1;
    if (which == 0) ok = match_kind(d, kind);
    else if (which == 1) { ok = match_kind(d, kind) && !mdist_hetero(d) && d->ty[0] == dty; if (ok && dty == HWLOC_OBJ_GROUP) { hwloc_obj_t ob = ops_obj_by_gp(t, d->gp[0]); ok = ob && ob->depth == arg; } }
    else if (which == 2) ok = match_kind(d, kind) && !mdist_hetero(d) && d->ty[0] == (hwloc_obj_type_t)arg && hwloc_get_type_depth(t, (hwloc_obj_type_t)arg) != HWLOC_TYPE_DEPTH_MULTIPLE;
    else ok = d->hasname && !strcmp(d->name, sarg);
    if (ok) exp[ne++] = d;
  }
  snprintf(q, sizeof(q), "%s(%d%s%s, kind=%#lx)", which == 0 ? "get" : which == 1 ? "get_by_depth" : which == 2 ? "get_by_type" : "get_by_name", arg, sarg ? " " : "", sarg ? sarg : "", kind);
  for (int mode = 0; mode < 3; mode++) {
    unsigned cap = mode == 0 ? 0 : mode == 1 ? 1 : 24, nr = cap; struct hwloc_distances_s *d[24]; memset(d, 0, sizeof(d));
    int rc;
    MC.transitions++;
    switch (which) {
    case 0: rc = hwloc_distances_get(t, &nr, cap ? d : NULL, kind, 0); break;
    case 1: rc = hwloc_distances_get_by_depth(t, arg, &nr, cap ? d : NULL, kind, 0); break;
    case 2: rc = hwloc_distances_get_by_type(t, (hwloc_obj_type_t)arg, &nr, cap ? d : NULL, kind, 0); break;
    default: rc = hwloc_distances_get_by_name(t, sarg, &nr, cap ? d : NULL, 0); break;
    }
    if (rc != 0) { mc_violation("c13.get.rc", "%s :: %s returned %d", mc_case_text(), q, rc); continue; }
    if (nr != ne) mc_violation("c13.get.nr", "%s :: %s with room for %u: *nr=%u, model has %u matches", mc_case_text(), q, cap, nr, ne);
    unsigned stored = nr < cap ? nr : cap;
    for (unsigned i = 0; i < stored; i++) {
      if (!d[i]) { mc_violation("c13.get.missing", "%s :: %s: slot %u not filled", mc_case_text(), q, i); continue; }
      if (i < ne) compare_struct(t, d[i], exp[i], q);
      hwloc_distances_release(t, d[i]);
    }
    for (unsigned i = stored; i < cap && i < 24; i++) if (d[i]) mc_violation("c13.get.overflow", "%s :: %s: slot %u beyond the reported count was written", mc_case_text(), q, i);
  }
}

static void battery(hwloc_topology_t t, const struct model *m)
{
  static const unsigned long KF[] = { 0, HWLOC_DISTANCES_KIND_FROM_OS, HWLOC_DISTANCES_KIND_FROM_USER, HWLOC_DISTANCES_KIND_VALUE_LATENCY, HWLOC_DISTANCES_KIND_VALUE_BANDWIDTH, HWLOC_DISTANCES_KIND_VALUE_HOPS,
                                      HWLOC_DISTANCES_KIND_VALUE_LATENCY | HWLOC_DISTANCES_KIND_VALUE_BANDWIDTH, HWLOC_DISTANCES_KIND_FROM_USER | HWLOC_DISTANCES_KIND_VALUE_LATENCY, HWLOC_DISTANCES_KIND_FROM_OS | HWLOC_DISTANCES_KIND_FROM_USER };
  for (unsigned k = 0; k < sizeof(KF) / sizeof(KF[0]); k++) {
    query(t, m, 0, 0, NULL, KF[k]);
    if (k < 4) {
      int depth = hwloc_topology_get_depth(t);
      for (int d = 0; d < depth; d++) query(t, m, 1, d, NULL, KF[k]);
      query(t, m, 1, HWLOC_TYPE_DEPTH_NUMANODE, NULL, KF[k]); query(t, m, 1, HWLOC_TYPE_DEPTH_OS_DEVICE, NULL, KF[k]);
      static const hwloc_obj_type_t TY[] = { HWLOC_OBJ_PU, HWLOC_OBJ_NUMANODE, HWLOC_OBJ_CORE, HWLOC_OBJ_PACKAGE, HWLOC_OBJ_OS_DEVICE, HWLOC_OBJ_GROUP };
      for (unsigned i = 0; i < 6; i++) query(t, m, 2, (int)TY[i], NULL, KF[k]);
    }
  }
  query(t, m, 3, 0, "a", 0); query(t, m, 3, 0, "b", 0); query(t, m, 3, 0, "zz", 0); query(t, m, 3, 0, "NUMALatency", 0);
  for (int i = 0; i < m->n; i++) if (m->d[i].n <= 4) transforms(t, &m->d[i]);
  /* observer: the same structures must be seen through a duplicate of this state (the duplicate refreshes every
   * structure once more, which brings what a later dup/refresh would do into the current depth) */
  { hwloc_topology_t d = NULL; if (hwloc_topology_dup(&d, t) == 0) { query(d, m, 0, 0, NULL, 0); query(d, m, 3, 0, "a", 0); query(d, m, 3, 0, "b", 0); hwloc_topology_destroy(d); } else mc_violation("c13.dup.fails", "%s :: observer dup fails", mc_case_text()); }
}

/* transforms on fresh copies of one stored structure */
static struct hwloc_distances_s *fetch(hwloc_topology_t t, const struct mdist *want)
{
  unsigned nr = 24; struct hwloc_distances_s *d[24], *r = NULL;
  if (hwloc_distances_get(t, &nr, d, 0, 0) < 0) return NULL;
  if (nr > 24) nr = 24;
  for (unsigned i = 0; i < nr; i++) {
    /* kind and name are part of the identity: two structures over the same objects can carry the same values */
    const char *dn = hwloc_distances_get_name(t, d[i]);
    int same = !r && d[i]->nbobjs == want->n && d[i]->kind == want->kind && (!!dn == !!want->hasname) && (!dn || !strcmp(dn, want->name));
    for (unsigned k = 0; same && k < want->n; k++) if (!d[i]->objs[k] || d[i]->objs[k]->gp_index != want->gp[k] || d[i]->values[k] != want->v[k]) same = 0;
    if (same) r = d[i]; else hwloc_distances_release(t, d[i]);
  }
  return r;
}

static void transforms(hwloc_topology_t t, const struct mdist *want)
{
  unsigned n = want->n;
  /* REMOVE_NULL: every subset of positions replaced by NULL */
  for (unsigned mask = 0; mask < (1u << n); mask++) {
    struct hwloc_distances_s *d = fetch(t, want); if (!d) return;
    unsigned left = 0; for (unsigned i = 0; i < n; i++) if (mask & (1u << i)) d->objs[i] = NULL; else left++;
    errno = 0;
    int rc = hwloc_distances_transform(t, d, HWLOC_DISTANCES_TRANSFORM_REMOVE_NULL, NULL, 0), e = errno;
    MC.transitions++;
    if (left < 2) { if (rc != -1 || e != EINVAL) mc_violation("c13.transform.remove_null.too-few", "%s :: mask %#x leaves %u objects but rc=%d errno=%d", mc_case_text(), mask, left, rc, e); }
    else if (rc != 0) mc_violation("c13.transform.remove_null.rc", "%s :: mask %#x rc=%d errno=%d", mc_case_text(), mask, rc, e);
    else {
      if (d->nbobjs != left) mc_violation("c13.transform.remove_null.count", "%s :: mask %#x: %u objects left, expected %u", mc_case_text(), mask, d->nbobjs, left);
      else { unsigned a = 0; int het = 0;
        for (unsigned i = 0; i < n; i++) { if (mask & (1u << i)) continue; unsigned b2 = 0;
          if (!d->objs[a] || d->objs[a]->gp_index != want->gp[i]) { mc_violation("c13.transform.remove_null.objs", "%s :: mask %#x: object #%u wrong", mc_case_text(), mask, a); break; }
          if (d->objs[a]->type != d->objs[0]->type) het = 1;
          for (unsigned j = 0; j < n; j++) { if (mask & (1u << j)) continue; if (d->values[a * left + b2] != want->v[i * n + j]) { mc_violation("c13.transform.remove_null.values", "%s :: mask %#x: value[%u][%u] wrong", mc_case_text(), mask, a, b2); i = n; break; } b2++; }
          a++; }
        if (!!(d->kind & HWLOC_DISTANCES_KIND_HETEROGENEOUS_TYPES) != het) mc_violation("c13.transform.remove_null.kind", "%s :: mask %#x: HETEROGENEOUS_TYPES=%d but types differ=%d", mc_case_text(), mask, !!(d->kind & HWLOC_DISTANCES_KIND_HETEROGENEOUS_TYPES), het);
      }
    }
    hwloc_distances_release(t, d);
  }
  /* switch ports at every subset of positions: MERGE_SWITCH_PORTS and TRANSITIVE_CLOSURE keep every non-switch object
   * and (MERGE) the values between them */
  for (unsigned mask = 0; mask < (1u << n); mask++) {
    hwloc_obj_t objs[MAXO]; char *saved[MAXO];
    for (unsigned i = 0; i < n; i++) { objs[i] = ops_obj_by_gp(t, want->gp[i]); saved[i] = objs[i] && objs[i]->subtype ? strdup(objs[i]->subtype) : NULL; }
    for (unsigned i = 0; i < n; i++) if (objs[i]) hwloc_obj_set_subtype(t, objs[i], (mask & (1u << i)) ? "NVSwitch" : "NotASwitch");
    for (int tr = 2; tr <= 3; tr++) {
      struct hwloc_distances_s *d = fetch(t, want); if (!d) break;
      errno = 0;
      int rc = hwloc_distances_transform(t, d, (enum hwloc_distances_transform_e)tr, NULL, 0), e = errno;
      MC.transitions++;
      unsigned nonsw = n - (unsigned)__builtin_popcount(mask);
      const char *tn = tr == 2 ? "merge_switch_ports" : "transitive_closure"; char key[96];
      if (rc == 0) {
        /* every non-switch object is still there, in order, and (merge) the values between them are unchanged */
        unsigned pos[MAXO], np = 0;
        for (unsigned i = 0; i < n; i++) { if (mask & (1u << i)) continue; unsigned f = d->nbobjs; for (unsigned k = 0; k < d->nbobjs; k++) if (d->objs[k] && d->objs[k]->gp_index == want->gp[i]) { f = k; break; } if (f == d->nbobjs) { snprintf(key, sizeof(key), "c13.transform.%s.lost-object", tn); mc_violation(key, "%s :: ports %#x: non-switch object #%u (gp %" PRIu64 ") was dropped", mc_case_text(), mask, i, want->gp[i]); } pos[np++] = f; }
        if (tr == 2 && np == nonsw) { unsigned a = 0; for (unsigned i = 0; i < n; i++) { if (mask & (1u << i)) continue; unsigned b2 = 0; for (unsigned j = 0; j < n; j++) { if (mask & (1u << j)) continue;
              if (pos[a] < d->nbobjs && pos[b2] < d->nbobjs && d->values[pos[a] * d->nbobjs + pos[b2]] != want->v[i * n + j]) { snprintf(key, sizeof(key), "c13.transform.%s.values", tn); mc_violation(key, "%s :: ports %#x: value between non-switch objects #%u and #%u changed", mc_case_text(), mask, i, j); i = n; break; } b2++; } a++; } }
      } else {
        /* refusals: EINVAL only; legitimate when the kind is not bandwidth (closure) or when fewer than 2 objects would remain */
        if (e != EINVAL && e != ENOENT) { snprintf(key, sizeof(key), "c13.transform.%s.errno", tn); mc_violation(key, "%s :: ports %#x: errno %d", mc_case_text(), mask, e); }
        /* without any port there is nothing to merge (ENOENT) */
        if (tr == 2 && mask && nonsw + 1 >= 2) { snprintf(key, sizeof(key), "c13.transform.%s.refused", tn); mc_violation(key, "%s :: ports %#x: refused although %u objects would remain", mc_case_text(), mask, nonsw + (mask ? 1 : 0)); }
      }
      hwloc_distances_release(t, d);
    }
    for (unsigned i = 0; i < n; i++) if (objs[i]) { hwloc_obj_set_subtype(t, objs[i], saved[i]); free(saved[i]); }
  }
  /* LINKS: bandwidth matrices only */
  { struct hwloc_distances_s *d = fetch(t, want); if (d) { errno = 0; int rc = hwloc_distances_transform(t, d, HWLOC_DISTANCES_TRANSFORM_LINKS, NULL, 0); MC.transitions++;
      int bw = !!(want->kind & HWLOC_DISTANCES_KIND_VALUE_BANDWIDTH);
      /* values that the smallest one does not divide are refused with ENOENT (documented limitation in the code) */
      if (bw && rc != 0 && errno != ENOENT) mc_violation("c13.transform.links.rc", "%s :: refused on a bandwidth matrix (errno %d)", mc_case_text(), errno);
      if (!bw && rc == 0) mc_violation("c13.transform.links.accepted", "%s :: accepted on a non-bandwidth matrix", mc_case_text());
      if (bw && rc == 0) for (unsigned i = 0; i < d->nbobjs; i++) if (d->values[i * d->nbobjs + i] != 0) { mc_violation("c13.transform.links.diagonal", "%s :: diagonal not zero", mc_case_text()); break; }
      /* invalid transform / flags */
      if (hwloc_distances_transform(t, d, (enum hwloc_distances_transform_e)9, NULL, 0) == 0) mc_violation("c13.transform.invalid", "%s :: unknown transform accepted", mc_case_text());
      if (hwloc_distances_transform(t, d, HWLOC_DISTANCES_TRANSFORM_REMOVE_NULL, NULL, 1) == 0) mc_violation("c13.transform.invalid", "%s :: non-zero flags accepted", mc_case_text());
      hwloc_distances_release(t, d); } }
}

/* ---------------------------------------------------------------- exploration */
static int alphabet(hwloc_topology_t t, const struct model *m, struct dop *out, int lean)
{
  int n = 0; struct dop o;
  for (int sel = 0; sel < NSEL; sel++) for (int nk = 0; nk < (lean ? 3 : 6); nk++) {
    memset(&o, 0, sizeof(o)); o.kind = D_ADD; o.c = sel;
    /* (name, kind) pairs */
    static const int NM[] = {0, 1, 2, 1, 0, 2}, KD[] = {0, 1, 2, 3, 4, 6};
    o.a = NM[nk]; o.b = lean ? nk : KD[nk];
    out[n++] = o;
  }
  memset(&o, 0, sizeof(o)); o.kind = D_ADD; o.c = 0; o.a = 1; o.b = 0; o.d = 1; out[n++] = o;   /* invalid add flags */
  o.d = 0; o.b = 5; out[n++] = o;                                                               /* two FROM kinds */
  memset(&o, 0, sizeof(o)); o.kind = D_REMOVE_ALL; out[n++] = o;
  for (int d = 0; d < 3; d++) { memset(&o, 0, sizeof(o)); o.kind = D_REMOVE_DEPTH; o.a = d; out[n++] = o; }
  for (int k = 0; k < m->n && k < 3; k++) { memset(&o, 0, sizeof(o)); o.kind = D_RELEASE_REMOVE; o.a = k; out[n++] = o; }
  uint64_t pu = ops_bitmap_to_mask(hwloc_get_root_obj(t)->cpuset);
  static const unsigned RS[] = { 0x3, 0x5, 0xe, 0x1, 0xc };
  for (int i = 0; i < 5; i++) if ((RS[i] & pu) && (RS[i] & pu) != pu) { memset(&o, 0, sizeof(o)); o.kind = D_RESTRICT; o.a = (int)RS[i]; out[n++] = o; }
  memset(&o, 0, sizeof(o)); o.kind = D_DUP; out[n++] = o;
  o.kind = D_XML; out[n++] = o;
  return n;
}

static hwloc_topology_t build(const struct dhist *h, struct model *m, int check_last)
{
  hwloc_topology_t t = load_root(h->root);
  if (!t) return NULL;
  model_from_topology(t, m);
  for (int i = 0; i < h->n; i++) apply(&t, m, &h->ops[i], check_last && i == h->n - 1);
  return t;
}

static void model_key(hwloc_topology_t t, const struct model *m, struct sb *b)
{
  sb_reset(b);
  char *c = canon_str(t, CANON_STRUCT | CANON_GP); sb_puts(b, c); free(c);
  for (int i = 0; i < m->n; i++) { sb_printf(b, "|%s:%lx:", m->d[i].hasname ? m->d[i].name : "-", m->d[i].kind); for (unsigned k = 0; k < m->d[i].n; k++) sb_printf(b, "%" PRIu64 ",", m->d[i].gp[k]); sb_printf(b, "v%" PRIu64, m->d[i].v[1]); }
}

int main(int argc, char **argv)
{
  mc_init(argc, argv, "C13");
  int maxdepth = MC.thorough ? 3 : 2;
  mc_note("%d roots, depth %d, add alphabet: %d object selections x (name, kind) pairs incl. invalid kinds", NROOTS, maxdepth, NSEL);
  uint64_t idx = 0;
  for (int r = 0; r < NROOTS; r++) {
    /* BFS; the first-level branches are the partition units */
    struct dhist *F = malloc(sizeof(*F) * 400000); size_t nF = 0;
    struct strset seen; strset_init(&seen);
    struct dhist h0; memset(&h0, 0, sizeof(h0)); h0.root = r; F[nF++] = h0;
    static struct sb kb; if (!kb.s) sb_init(&kb);
    for (size_t fi = 0; fi < nF && !mc_deadline(); fi++) {
      struct dhist h = F[fi];
      struct model m; hwloc_topology_t t = NULL;
      if (MC_TRY(30000)) { t = build(&h, &m, 0); mc_try_end(); }
      if (mc_fault[0] || !t) { mc_fault[0] = 0; mc_clear_san(); continue; }
      if (h.n == 0 && mc_mine(idx++)) { if (mc_case("%s", dhist_text(&h))) { if (MC_TRY(60000)) { battery(t, &m); mc_try_end(); } mc_report_faults("battery"); MC.states++; } }
      struct dop ops[128]; int nops = h.n < maxdepth ? alphabet(t, &m, ops, !MC.thorough && h.n >= 1) : 0;
      hwloc_topology_destroy(t);
      for (int oi = 0; oi < nops; oi++) {
        if (h.n == 0 && !mc_mine(idx++)) continue;        /* partition on the first op */
        struct dhist hn = h; hn.ops[hn.n++] = ops[oi];
        if (!mc_case("%s", dhist_text(&hn))) continue;
        struct model mn; hwloc_topology_t tn = NULL;
        if (MC_TRY(30000)) { tn = build(&hn, &mn, 1); mc_try_end(); }
        MC.transitions++;
        if (mc_report_faults("op") || !tn) continue;
        if (MC_TRY(120000)) { battery(tn, &mn); mc_try_end(); }
        mc_report_faults("battery");
        /* every entry point refreshes the structures lazily, and the battery starts with hwloc_distances_get(): each of the
         * other entry points is also called FIRST, alone, on a freshly rebuilt state (a getter that forgets to refresh is
         * hidden by whichever getter ran before it; same lesson as C14's first-query passes) */
        if (mn.n) for (int fq = 1; fq <= 4; fq++) {
          struct model m2; hwloc_topology_t t2 = NULL;
          if (MC_TRY(30000)) { t2 = build(&hn, &m2, 0); mc_try_end(); }
          if (mc_fault[0] || !t2) { mc_fault[0] = 0; mc_clear_san(); continue; }
          if (MC_TRY(60000)) {
            if (fq == 1) { int depth = hwloc_topology_get_depth(t2); for (int d = 0; d < depth; d++) query(t2, &m2, 1, d, NULL, 0); query(t2, &m2, 1, HWLOC_TYPE_DEPTH_NUMANODE, NULL, 0); }
            else if (fq == 2) { query(t2, &m2, 2, (int)HWLOC_OBJ_PU, NULL, 0); query(t2, &m2, 2, (int)HWLOC_OBJ_NUMANODE, NULL, 0); query(t2, &m2, 2, (int)HWLOC_OBJ_CORE, NULL, 0); }
            else if (fq == 3) { query(t2, &m2, 3, 0, "a", 0); query(t2, &m2, 3, 0, "b", 0); }
            else { for (int i = 0; i < m2.n && i < 2; i++) if (m2.d[i].n <= 4) transforms(t2, &m2.d[i]); }
            mc_try_end();
          }
          mc_report_faults(fq == 1 ? "first-by_depth" : fq == 2 ? "first-by_type" : fq == 3 ? "first-by_name" : "first-transform");
          if (MC_TRY(30000)) { hwloc_topology_destroy(t2); mc_try_end(); }
          mc_report_faults("destroy");
          mc_count("first_query_passes", 1);
        }
        model_key(tn, &mn, &kb);
        if (strset_add(&seen, kb.s, kb.len)) { MC.states++; if (hn.n < maxdepth && nF < 400000) F[nF++] = hn; if (MC.states % 2000 == 1) mc_sample("%s", dhist_text(&hn)); }
        if (MC_TRY(30000)) { hwloc_topology_destroy(tn); mc_try_end(); }
        mc_report_faults("destroy");
      }
    }
    free(F); strset_free(&seen);
  }
  return mc_finish(1);
}
