/* C16 - topology diffs: build/apply/reverse are inverse, failures roll back.
 *
 * (1) Pairs: A in a set of roots; B = A after every sequence of <= 2 edits of the edit
 *     alphabet (representable and non-representable ones); for each pair the build / apply /
 *     re-build / reverse / XML round trip chain is checked on canonical dumps.
 * (2) Hand-built lists: every sequence of <= 3 entries over the entry alphabet, applied
 *     forward and reverse: a failing N-th entry returns -N and leaves the dump unchanged.
 */
#include "hwmc.h"
#include "univ.h"
#include "canon.h"
#include "ops.h"
#include "hwloc/diff.h"
#include <inttypes.h>

/* fields a diff may carry */
#define DIFF_FIELDS (CANON_ATTRS | CANON_INFOS | CANON_LEVELS)

enum { E_RENAME = 1, E_UNSETNAME, E_SETNAME, E_INFOVALUE, E_ADDINFO, E_REMOVEINFO, E_DUPINFO, E_MEMORY, E_MISC, E_RESTRICT, E_SUBTYPE, E_INFOVALUE2, E_NEDITS };
static const char *ENAME[] = { "?", "rename", "unset-name", "set-name", "change-info-value", "add-info", "remove-info", "duplicate-info", "change-local-memory", "insert-misc", "restrict", "change-subtype", "change-second-info-value" };
static int representable(int e) { return e == E_RENAME || e == E_INFOVALUE || e == E_MEMORY || e == E_INFOVALUE2; }

static const char *ROOTS[] = { "@annot.xml", "@misc.xml", "@io.xml", "node:2 core:2 pu:2", "@memcache.xml" };
#define NROOTS 5

static hwloc_topology_t load_root(int r)
{
  struct usrc s; struct ucfg c; hwloc_topology_t t; static char path[512];
  ucfg_keepall(&c);
  if (ROOTS[r][0] == '@') { snprintf(path, sizeof(path), "%s/harness/fixtures/%s", univ_verif(), ROOTS[r] + 1); s.kind = USRC_XMLFILE; s.text = path; }
  else { s.kind = USRC_SYNTHETIC; s.text = (char *)ROOTS[r]; }
  s.name = (char *)ROOTS[r]; s.len = 0;
  if (univ_load(&t, &s, &c) < 0) return NULL;
  /* a few infos and names so that every edit finds a site */
  hwloc_obj_t root = hwloc_get_root_obj(t);
  hwloc_obj_add_info(root, "DiffA", "one"); hwloc_obj_add_info(root, "DiffB", "two");
  hwloc_obj_t pu = hwloc_get_obj_by_type(t, HWLOC_OBJ_PU, 0); if (pu) hwloc_obj_add_info(pu, "DiffA", "one");
  return t;
}

static hwloc_topology_t from_xml(const char *x)
{
  hwloc_topology_t t; hwloc_topology_init(&t); hwloc_topology_set_all_types_filter(t, HWLOC_TYPE_FILTER_KEEP_ALL);
  if (hwloc_topology_set_xmlbuffer(t, x, (int)strlen(x) + 1) < 0 || hwloc_topology_load(t) < 0) { hwloc_topology_destroy(t); return NULL; }
  return t;
}

/* text edit helpers on a v3 export */
static char *replace_range(const char *x, size_t from, size_t to, const char *ins)
{
  size_t n = strlen(x), il = strlen(ins); char *r = malloc(n - (to - from) + il + 1);
  memcpy(r, x, from); memcpy(r + from, ins, il); memcpy(r + from + il, x + to, n - to + 1);
  return r;
}
/* k-th <object ...> start tag: returns offsets of the tag [s,e) */
static int nth_object_tag(const char *x, int k, size_t *s, size_t *e, const char *must_contain, const char *must_not_contain)
{
  const char *p = x; int i = 0;
  while ((p = strstr(p, "<object ")) != NULL) {
    const char *q = strchr(p, '>'); if (!q) return -1;
    size_t len = (size_t)(q - p);
    char *tag = strndup(p, len);
    int ok = (!must_contain || strstr(tag, must_contain)) && (!must_not_contain || !strstr(tag, must_not_contain));
    free(tag);
    if (ok && i++ == k) { *s = (size_t)(p - x); *e = (size_t)(q - x); return 0; }
    p = q;
  }
  return -1;
}

/* applies edit e (variant v) to the XML text; returns new text or NULL when the edit has no site */
static char *edit_xml(const char *x, int e, int v)
{
  size_t s, t2;
  switch (e) {
  case E_RENAME: {
    if (nth_object_tag(x, v, &s, &t2, " name=\"", NULL) < 0) return NULL;
    const char *p = strstr(x + s, " name=\""); size_t vs = (size_t)(p - x) + 7; size_t ve = vs; while (x[ve] != '"') ve++;
    return replace_range(x, vs, ve, v ? "renamed&amp;2" : "renamed"); }
  case E_UNSETNAME: {
    if (nth_object_tag(x, v, &s, &t2, " name=\"", NULL) < 0) return NULL;
    const char *p = strstr(x + s, " name=\""); size_t vs = (size_t)(p - x); size_t ve = vs + 7; while (x[ve] != '"') ve++;
    return replace_range(x, vs, ve + 1, ""); }
  case E_SETNAME: {
    if (nth_object_tag(x, v + 1, &s, &t2, NULL, " name=\"") < 0) return NULL;
    size_t at = t2; if (x[at - 1] == '/') at--;
    return replace_range(x, at, at, " name=\"newname\""); }
  case E_INFOVALUE: case E_INFOVALUE2: {
    const char *p = x; int k = e == E_INFOVALUE ? v : v + 1;
    for (int i = 0; i <= k; i++) { p = strstr(p, "<info name=\"DiffA\" value=\""); if (!p) { if (e == E_INFOVALUE2) { p = strstr(x, "<info name=\"DiffB\" value=\""); if (!p) return NULL; break; } return NULL; } if (i < k) p++; }
    const char *q = strstr(p, " value=\""); size_t vs = (size_t)(q - x) + 8, ve = vs; while (x[ve] != '"') ve++;
    return replace_range(x, vs, ve, e == E_INFOVALUE ? "changed" : "other"); }
  case E_ADDINFO: {
    const char *p = strstr(x, "<info name=\"DiffA\""); if (!p) return NULL;
    return replace_range(x, (size_t)(p - x), (size_t)(p - x), v ? "<info name=\"Zadded\" value=\"z\"/>\n" : "<info name=\"DiffA\" value=\"extra\"/>\n"); }
  case E_REMOVEINFO: {
    const char *p = strstr(x, v ? "<info name=\"DiffB\"" : "<info name=\"DiffA\""); if (!p) return NULL;
    const char *q = strstr(p, "/>"); return replace_range(x, (size_t)(p - x), (size_t)(q - x) + 2, ""); }
  case E_DUPINFO: {
    const char *p = strstr(x, "<info name=\"DiffB\""); if (!p) return NULL;
    const char *q = strstr(p, "/>"); char *pair = strndup(p, (size_t)(q - p) + 2); char *r = replace_range(x, (size_t)(p - x), (size_t)(p - x), pair); free(pair); return r; }
  case E_MEMORY: {
    const char *p = x; for (int i = 0; i <= v; i++) { p = strstr(p, " local_memory=\""); if (!p) return NULL; if (i < v) p++; }
    size_t vs = (size_t)(p - x) + 15, ve = vs; while (x[ve] != '"') ve++;
    return replace_range(x, vs, ve, v ? "4096" : "123456789"); }
  default: return NULL;
  }
}

/* API edits on a loaded B */
static int edit_api(hwloc_topology_t b, int e, int v)
{
  switch (e) {
  case E_MISC: { hwloc_obj_t p = v ? hwloc_get_obj_by_type(b, HWLOC_OBJ_PU, 0) : hwloc_get_root_obj(b); return hwloc_topology_insert_misc_object(b, p, "diffmisc") ? 0 : -1; }
  case E_RESTRICT: { hwloc_bitmap_t s = hwloc_bitmap_dup(hwloc_get_root_obj(b)->cpuset); hwloc_bitmap_clr(s, (unsigned)hwloc_bitmap_last(s)); int rc = hwloc_bitmap_iszero(s) ? -1 : hwloc_topology_restrict(b, s, 0); hwloc_bitmap_free(s); return rc; }
  case E_SUBTYPE: { hwloc_obj_t p = v ? hwloc_get_obj_by_type(b, HWLOC_OBJ_PU, 0) : hwloc_get_root_obj(b); return hwloc_obj_set_subtype(b, p, "DiffSub"); }
  default: return -1;
  }
}

static int is_api_edit(int e) { return e == E_MISC || e == E_RESTRICT || e == E_SUBTYPE; }

static int diff_len(hwloc_topology_diff_t d) { int n = 0; for (; d; d = d->generic.next) n++; return n; }
static int diff_has_complex(hwloc_topology_diff_t d) { for (; d; d = d->generic.next) if (d->generic.type == HWLOC_TOPOLOGY_DIFF_TOO_COMPLEX) return 1; return 0; }

static int diff_equal(hwloc_topology_diff_t a, hwloc_topology_diff_t b)
{
  for (; a && b; a = a->generic.next, b = b->generic.next) {
    if (a->generic.type != b->generic.type) return 0;
    if (a->generic.type == HWLOC_TOPOLOGY_DIFF_TOO_COMPLEX) { if (a->too_complex.obj_depth != b->too_complex.obj_depth || a->too_complex.obj_index != b->too_complex.obj_index) return 0; continue; }
    if (a->obj_attr.obj_depth != b->obj_attr.obj_depth || a->obj_attr.obj_index != b->obj_attr.obj_index || a->obj_attr.diff.generic.type != b->obj_attr.diff.generic.type) return 0;
    if (a->obj_attr.diff.generic.type == HWLOC_TOPOLOGY_DIFF_OBJ_ATTR_SIZE) { if (a->obj_attr.diff.uint64.oldvalue != b->obj_attr.diff.uint64.oldvalue || a->obj_attr.diff.uint64.newvalue != b->obj_attr.diff.uint64.newvalue) return 0; }
    else {
#define SEQ(x, y) ((!(x) && !(y)) || ((x) && (y) && !strcmp((x), (y))))
      if (a->obj_attr.diff.generic.type == HWLOC_TOPOLOGY_DIFF_OBJ_ATTR_INFO && !SEQ(a->obj_attr.diff.string.name, b->obj_attr.diff.string.name)) return 0;
      if (!SEQ(a->obj_attr.diff.string.oldvalue, b->obj_attr.diff.string.oldvalue) || !SEQ(a->obj_attr.diff.string.newvalue, b->obj_attr.diff.string.newvalue)) return 0;
    }
  }
  return !a && !b;
}

static void check_pair(hwloc_topology_t A, hwloc_topology_t B, int all_representable, int nedits)
{
  hwloc_topology_diff_t diff = NULL;
  char *cA = canon_str(A, CANON_XML), *cB = canon_str(B, CANON_XML);
  char *fB = canon_str(B, DIFF_FIELDS);
  int identical = !strcmp(cA, cB);
  int rc = hwloc_topology_diff_build(A, B, 0, &diff);
  MC.transitions++;
  mc_outcome("build_outcomes", "rc=%d entries=%d representable=%d identical=%d", rc, diff_len(diff) > 3 ? 3 : diff_len(diff), all_representable, identical);
  if (rc != 0 && rc != 1) { mc_violation("c16.build.rc", "%s :: diff_build returned %d", mc_case_text(), rc); goto out; }
  if (rc == 1 && !diff_has_complex(diff)) mc_violation("c16.build.complex-entry", "%s :: returned 1 without a TOO_COMPLEX entry", mc_case_text());
  if (rc == 0 && diff_has_complex(diff)) mc_violation("c16.build.complex-entry", "%s :: returned 0 with a TOO_COMPLEX entry", mc_case_text());
  if (identical && (rc != 0 || diff)) mc_violation("c16.build.identical", "%s :: identical topologies give rc=%d with %d entries", mc_case_text(), rc, diff_len(diff));
  if (!identical && rc == 0 && !diff) mc_violation("c16.build.missed", "%s :: the topologies differ (%s) but the diff is empty", mc_case_text(), canon_diff(cA, cB));
  if (!identical && all_representable && rc == 1) mc_violation("c16.build.too-complex-for-representable", "%s :: only representable edits but TOO_COMPLEX", mc_case_text());
  if (!identical && !all_representable && rc == 0) {
    /* a non-representable edit must not yield a "complete" diff: decided by the apply chain below (the patched copy will not equal B) */
  }
  if (rc == 0 && diff) {
    hwloc_topology_t P = NULL; hwloc_topology_dup(&P, A);
    int ar = -99;
    if (MC_TRY(20000)) { ar = hwloc_topology_diff_apply(P, diff, 0); mc_try_end(); }
    MC.transitions++;
    if (mc_report_faults("apply")) { mc_leak_disable(); goto out; }
    if (ar != 0) mc_violation("c16.apply.fails", "%s :: applying the built diff returns %d", mc_case_text(), ar);
    else {
      hwloc_topology_diff_t d2 = NULL; int r2 = hwloc_topology_diff_build(P, B, 0, &d2);
      if (r2 != 0 || d2) mc_violation("c16.apply.rebuild-not-empty", "%s :: after apply, diff_build(patched, B) = %d with %d entries", mc_case_text(), r2, diff_len(d2));
      hwloc_topology_diff_destroy(d2);
      char *fP = canon_str(P, DIFF_FIELDS);
      if (strcmp(fP, fB)) mc_violation("c16.apply.fields", "%s :: patched copy differs from B: %s", mc_case_text(), canon_diff(fP, fB));
      free(fP);
      int rr = -99;
      if (MC_TRY(20000)) { rr = hwloc_topology_diff_apply(P, diff, HWLOC_TOPOLOGY_DIFF_APPLY_REVERSE); mc_try_end(); }
      MC.transitions++;
      if (!mc_report_faults("apply-reverse")) {
        if (rr != 0) mc_violation("c16.reverse.fails", "%s :: reverse apply returns %d", mc_case_text(), rr);
        else { char *cP = canon_str(P, CANON_XML); if (strcmp(cP, cA)) mc_violation("c16.reverse.not-restored", "%s :: %s", mc_case_text(), canon_diff(cA, cP)); free(cP); }
      }
    }
    hwloc_topology_destroy(P);
    /* diff XML round trip */
    char *xb = NULL; int xl = 0; int er = -99;
    if (MC_TRY(20000)) { er = hwloc_topology_diff_export_xmlbuffer(diff, "refname.xml", &xb, &xl); mc_try_end(); }
    if (!mc_report_faults("diff-export")) {
      if (er != 0) mc_violation("c16.xml.export-fails", "%s :: diff export returns %d", mc_case_text(), er);
      else {
        hwloc_topology_diff_t d3 = NULL; char *ref = NULL; int lr = hwloc_topology_diff_load_xmlbuffer(xb, xl, &d3, &ref);
        if (lr != 0) mc_violation("c16.xml.load-fails", "%s :: exported diff does not load", mc_case_text());
        else { if (!ref || strcmp(ref, "refname.xml")) mc_violation("c16.xml.refname", "%s :: refname %s", mc_case_text(), ref ? ref : "NULL");
               if (!diff_equal(diff, d3)) mc_violation("c16.xml.entries", "%s :: diff entries changed through XML (%d vs %d entries)", mc_case_text(), diff_len(diff), diff_len(d3));
               hwloc_topology_diff_destroy(d3); free(ref); }
        free(xb);
      }
    }
  }
  (void)nedits;
out:
  hwloc_topology_diff_destroy(diff);
  free(cA); free(cB); free(fB);
}

/* ---------------------------------------------------------------- hand-built lists */
enum { H_VALID_INFO = 0, H_VALID_NAME, H_WRONG_DEPTH, H_WRONG_INDEX, H_WRONG_OLD, H_UNKNOWN_TYPE, H_CHAIN1, H_CHAIN2, H_COMPLEX, H_VALID_MEM, H_NENTRIES };
static const char *HNAME[] = { "valid-info", "valid-name", "wrong-depth", "wrong-index", "wrong-old-value", "unknown-type", "chain a->b", "chain b->c", "too-complex", "valid-memory" };

static hwloc_uint64_t MK_MEM0; static int MK_MEM0_SET;   /* the memory entry always goes from the base topology's value to 4096*7, whatever t holds when the entry is built */
static hwloc_topology_diff_t mk_entry(hwloc_topology_t t, int k)
{
  hwloc_topology_diff_t d = calloc(1, sizeof(*d));
  hwloc_obj_t nu = hwloc_get_obj_by_type(t, HWLOC_OBJ_NUMANODE, 0);
  d->obj_attr.type = HWLOC_TOPOLOGY_DIFF_OBJ_ATTR; d->obj_attr.obj_depth = 0; d->obj_attr.obj_index = 0;
  d->obj_attr.diff.string.type = HWLOC_TOPOLOGY_DIFF_OBJ_ATTR_INFO;
  switch (k) {
  case H_VALID_INFO: d->obj_attr.diff.string.name = strdup("DiffB"); d->obj_attr.diff.string.oldvalue = strdup("two"); d->obj_attr.diff.string.newvalue = strdup("2"); break;
  case H_VALID_NAME: d->obj_attr.diff.string.type = HWLOC_TOPOLOGY_DIFF_OBJ_ATTR_NAME; d->obj_attr.diff.string.oldvalue = strdup("rootname"); d->obj_attr.diff.string.newvalue = strdup("newroot"); break;
  case H_WRONG_DEPTH: d->obj_attr.obj_depth = 57; d->obj_attr.diff.string.name = strdup("DiffB"); d->obj_attr.diff.string.oldvalue = strdup("two"); d->obj_attr.diff.string.newvalue = strdup("x"); break;
  case H_WRONG_INDEX: d->obj_attr.obj_index = 99; d->obj_attr.diff.string.name = strdup("DiffB"); d->obj_attr.diff.string.oldvalue = strdup("two"); d->obj_attr.diff.string.newvalue = strdup("x"); break;
  case H_WRONG_OLD: d->obj_attr.diff.string.name = strdup("DiffB"); d->obj_attr.diff.string.oldvalue = strdup("not-the-value"); d->obj_attr.diff.string.newvalue = strdup("x"); break;
  case H_UNKNOWN_TYPE: d->obj_attr.diff.generic.type = (hwloc_topology_diff_obj_attr_type_t)7; break;
  case H_CHAIN1: d->obj_attr.diff.string.name = strdup("DiffA"); d->obj_attr.diff.string.oldvalue = strdup("one"); d->obj_attr.diff.string.newvalue = strdup("b"); break;
  case H_CHAIN2: d->obj_attr.diff.string.name = strdup("DiffA"); d->obj_attr.diff.string.oldvalue = strdup("b"); d->obj_attr.diff.string.newvalue = strdup("c"); break;
  case H_COMPLEX: d->too_complex.type = HWLOC_TOPOLOGY_DIFF_TOO_COMPLEX; d->too_complex.obj_depth = 0; d->too_complex.obj_index = 0; break;
  case H_VALID_MEM: d->obj_attr.obj_depth = HWLOC_TYPE_DEPTH_NUMANODE; d->obj_attr.diff.uint64.type = HWLOC_TOPOLOGY_DIFF_OBJ_ATTR_SIZE; d->obj_attr.diff.uint64.oldvalue = MK_MEM0_SET ? MK_MEM0 : (nu ? nu->attr->numanode.local_memory : 0); d->obj_attr.diff.uint64.newvalue = 4096 * 7; break;
  }
  return d;
}

/* sequential model of one entry on the (root infos DiffA/DiffB, root name, node0 memory) state; returns 0 ok / -1 fail */
struct hstate { char a[16], b[16], name[16]; hwloc_uint64_t mem; };
static int model_entry(struct hstate *s, int k, int reverse, hwloc_uint64_t mem0)
{
  switch (k) {
  case H_VALID_INFO: if (strcmp(s->b, reverse ? "2" : "two")) return -1; strcpy(s->b, reverse ? "two" : "2"); return 0;
  case H_VALID_NAME: if (strcmp(s->name, reverse ? "newroot" : "rootname")) return -1; strcpy(s->name, reverse ? "rootname" : "newroot"); return 0;
  case H_CHAIN1: if (strcmp(s->a, reverse ? "b" : "one")) return -1; strcpy(s->a, reverse ? "one" : "b"); return 0;
  case H_CHAIN2: if (strcmp(s->a, reverse ? "c" : "b")) return -1; strcpy(s->a, reverse ? "b" : "c"); return 0;
  case H_VALID_MEM: { hwloc_uint64_t o = reverse ? 4096 * 7 : mem0, n = reverse ? mem0 : 4096 * 7; if (s->mem != o) return -1; s->mem = n; return 0; }
  default: return -1;
  }
}

static void handbuilt(hwloc_topology_t base)
{
  int maxlen = 3;
  hwloc_obj_t nu = hwloc_get_obj_by_type(base, HWLOC_OBJ_NUMANODE, 0); hwloc_uint64_t mem0 = nu ? nu->attr->numanode.local_memory : 0;
  MK_MEM0 = mem0; MK_MEM0_SET = 1;
  uint64_t idx = 0;
  for (int len = 1; len <= maxlen; len++) {
    uint64_t total = 1; for (int i = 0; i < len; i++) total *= H_NENTRIES;
    for (uint64_t code = 0; code < total; code++) for (int reverse = 0; reverse < 2; reverse++, idx++) {
      if (!mc_mine(idx) || mc_deadline()) continue;
      int ks[3]; uint64_t q = code; for (int i = 0; i < len; i++) { ks[i] = (int)(q % H_NENTRIES); q /= H_NENTRIES; }
      struct sb nm; sb_init(&nm); for (int i = 0; i < len; i++) sb_printf(&nm, "%s%s", i ? ", " : "", HNAME[ks[i]]);
      int go = mc_case("hand-built [%s] %s", nm.s, reverse ? "reverse" : "forward");
      sb_free(&nm);
      if (!go) continue;
      hwloc_topology_t t = NULL; hwloc_topology_dup(&t, base);
      /* expected: first failing entry in application order (forward: list order) */
      struct hstate st; strcpy(st.a, "one"); strcpy(st.b, "two"); strcpy(st.name, "rootname"); st.mem = mem0;
      if (reverse) {
        /* reverse application starts from the state the forward entries lead to (DiffB=2, name=newroot, DiffA=b, memory changed):
         * from the initial state every reversed entry fails at once and the rollback of a reverse application would never
         * have anything to undo (seeded change C16-rollback-reverse) */
        static const int PRE[] = { H_VALID_INFO, H_VALID_NAME, H_CHAIN1, H_VALID_MEM };
        hwloc_topology_diff_t pf = NULL, pl = NULL;
        for (unsigned i = 0; i < sizeof(PRE) / sizeof(PRE[0]); i++) { if (PRE[i] == H_VALID_MEM && !nu) continue; hwloc_topology_diff_t e = mk_entry(t, PRE[i]); if (pl) pl->generic.next = e; else pf = e; pl = e; }
        int prc = hwloc_topology_diff_apply(t, pf, 0);
        hwloc_topology_diff_destroy(pf);
        if (prc != 0) { mc_violation("c16.handbuilt.prepare", "%s :: the forward list that prepares the reverse run returns %d", mc_case_text(), prc); hwloc_topology_destroy(t); continue; }
        strcpy(st.a, "b"); strcpy(st.b, "2"); strcpy(st.name, "newroot"); if (nu) st.mem = 4096 * 7;
      }
      int expect = 0; for (int i = 0; i < len; i++) if (model_entry(&st, ks[i], reverse, mem0) < 0) { expect = -(i + 1); break; }
      hwloc_topology_diff_t first = NULL, last = NULL;
      for (int i = 0; i < len; i++) { hwloc_topology_diff_t e = mk_entry(t, ks[i]); if (last) last->generic.next = e; else first = e; last = e; }
      char *before = canon_str(t, CANON_XML);
      int rc = -99;
      if (MC_TRY(20000)) { rc = hwloc_topology_diff_apply(t, first, reverse ? HWLOC_TOPOLOGY_DIFF_APPLY_REVERSE : 0); mc_try_end(); }
      MC.transitions++;
      if (!mc_report_faults("apply-handbuilt")) {
        if (rc != expect) mc_violation("c16.handbuilt.rc", "%s :: apply returned %d, the sequential model says %d", mc_case_text(), rc, expect);
        char *after = canon_str(t, CANON_XML);
        if (rc < 0 && strcmp(before, after)) mc_violation("c16.handbuilt.rollback", "%s :: failed apply (%d) left the topology modified: %s", mc_case_text(), rc, canon_diff(before, after));
        if (rc == 0) {
          hwloc_obj_t root = hwloc_get_root_obj(t); const char *a = hwloc_obj_get_info_by_name(root, "DiffA"), *b = hwloc_obj_get_info_by_name(root, "DiffB"); hwloc_obj_t n0 = hwloc_get_obj_by_type(t, HWLOC_OBJ_NUMANODE, 0);
          if (!a || strcmp(a, st.a) || !b || strcmp(b, st.b) || !root->name || strcmp(root->name, st.name) || (n0 && n0->attr->numanode.local_memory != st.mem))
            mc_violation("c16.handbuilt.result", "%s :: after a successful apply the fields are DiffA=%s DiffB=%s name=%s, model %s %s %s", mc_case_text(), a ? a : "NULL", b ? b : "NULL", root->name ? root->name : "NULL", st.a, st.b, st.name);
        }
        free(after);
        MC.states++;
      } else mc_leak_disable();
      free(before);
      hwloc_topology_diff_destroy(first);
      hwloc_topology_destroy(t);
    }
  }
}

int main(int argc, char **argv)
{
  mc_init(argc, argv, "C16");
  uint64_t idx = 0;
  mc_note("%d roots x every sequence of <= 2 edits of %d edit kinds x 2 site variants; hand-built lists: every sequence of <= 3 of %d entry kinds, forward and reverse", NROOTS, E_NEDITS - 1, H_NENTRIES);
  for (int r = 0; r < NROOTS; r++) {
    hwloc_topology_t A = load_root(r);
    if (!A) continue;
    char *xa = NULL; { char *xb; int l; hwloc_topology_export_xmlbuffer(A, &xb, &l, 0); xa = strdup(xb); hwloc_free_xmlbuffer(A, xb); }
    /* A itself is reloaded from its XML so that A and B went through the same pipeline */
    hwloc_topology_t A2 = from_xml(xa);
    if (!A2) { mc_note("root %s does not reload from its own XML", ROOTS[r]); hwloc_topology_destroy(A); free(xa); continue; }
    /* 0 edits */
    if (mc_mine(idx++) && mc_case("A=%s B=A", ROOTS[r])) { hwloc_topology_t B = from_xml(xa); check_pair(A2, B, 1, 0); hwloc_topology_destroy(B); MC.states++; }
    for (int e1 = 1; e1 < E_NEDITS; e1++) for (int v1 = 0; v1 < 2; v1++) for (int e2 = 0; e2 < E_NEDITS; e2++) for (int v2 = 0; v2 < (e2 ? 2 : 1); v2++, idx++) {
      if (!mc_mine(idx) || mc_deadline()) continue;
      /* XML edits first (in order), then API edits */
      int es[2] = { e1, e2 }, vs[2] = { v1, v2 };
      char *xb = strdup(xa); int applicable = 1;
      for (int k = 0; k < 2 && applicable; k++) if (es[k] && !is_api_edit(es[k])) { char *nx = edit_xml(xb, es[k], vs[k]); if (!nx) applicable = 0; else { free(xb); xb = nx; } }
      if (!applicable) { free(xb); continue; }
      if (!mc_case("A=%s B=A + %s#%d%s%s%s", ROOTS[r], ENAME[e1], v1, e2 ? " + " : "", e2 ? ENAME[e2] : "", e2 ? (v2 ? "#1" : "#0") : "")) { free(xb); continue; }
      hwloc_topology_t B = from_xml(xb);
      free(xb);
      if (!B) { mc_count("edited_documents_not_loadable", 1); continue; }
      for (int k = 0; k < 2 && applicable; k++) if (es[k] && is_api_edit(es[k])) if (edit_api(B, es[k], vs[k]) < 0) applicable = 0;
      if (applicable) {
        int allrep = representable(e1) && (!e2 || representable(e2));
        if (MC_TRY(60000)) { check_pair(A2, B, allrep, e2 ? 2 : 1); mc_try_end(); }
        mc_report_faults("pair");
        MC.states++;
        if (MC.states % 97 == 1) mc_sample("%s", mc_case_text());
      }
      hwloc_topology_destroy(B);
    }
    if (r == 0) {
      /* hand-built lists on annot.xml with a named root */
      /* hand-built lists on annot.xml with a named root: the name is added to the root tag of the document */
      char *xn = NULL; hwloc_topology_t base = NULL;
      { size_t s, e; if (nth_object_tag(xa, 0, &s, &e, NULL, NULL) == 0) { size_t at = e; xn = replace_range(xa, at, at, " name=\"rootname\""); } }
      if (xn) base = from_xml(xn);
      free(xn);
      if (base) { handbuilt(base); hwloc_topology_destroy(base); } else mc_note("hand-built stage: base document did not load");
    }
    hwloc_topology_destroy(A2); hwloc_topology_destroy(A); free(xa);
  }
  /* diffs of every length 1..N (N = 320, 640 thorough): B = A with the info value of the first k PUs replaced.  The exported
   * document crosses every size boundary of the exporters on the way (seeded change C16-nolibxml-bigdiff: a stale length
   * after the built-in exporter had to enlarge its buffer, 16 kB = about 100 entries) */
  {
    int N = MC.thorough ? 640 : 320; char desc[32]; snprintf(desc, sizeof(desc), "pu:%d", N);
    hwloc_topology_t A = NULL; hwloc_topology_init(&A); hwloc_topology_set_synthetic(A, desc);
    if (hwloc_topology_load(A) == 0) {
      for (int i = 0; i < N; i++) hwloc_obj_add_info(hwloc_get_obj_by_type(A, HWLOC_OBJ_PU, (unsigned)i), "bulk", "old-value");
      for (int k = 1; k <= N; k++, idx++) {
        if (!mc_mine(idx) || mc_deadline()) continue;
        if (!mc_case("A=%s with an info on every PU, B=A with the info value of the first %d PUs replaced", desc, k)) continue;
        hwloc_topology_t B = NULL;
        if (hwloc_topology_dup(&B, A) < 0) continue;
        for (int i = 0; i < k; i++) { char v[48]; snprintf(v, sizeof(v), "new-value-of-pu-%d-<&>", i); hwloc_modify_infos(&hwloc_get_obj_by_type(B, HWLOC_OBJ_PU, (unsigned)i)->infos, HWLOC_MODIFY_INFOS_OP_REPLACE, "bulk", v); }
        if (MC_TRY(120000)) { check_pair(A, B, 1, k); mc_try_end(); }
        mc_report_faults("bulk-pair");
        mc_count("bulk_diffs", 1); MC.states++;
        hwloc_topology_destroy(B);
      }
    }
    hwloc_topology_destroy(A);
  }
  if (mc_leak_check()) mc_violation("c16.leak", "leak at the end of part %d", MC.part);
  return mc_finish(1);
}
