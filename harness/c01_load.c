/* C01 - every successfully loaded topology is a well-formed object tree.
 *
 * Depth-1 explicit-state exploration: the product  source x configuration  is enumerated
 * (configurations deviation-bounded, see DESIGN.md section 4), every element is loaded by
 * the real library and the resulting state is checked by the independent checker wf.c,
 * then by hwloc_topology_check() as secondary oracle.
 */
#include "hwmc.h"
#include "univ.h"
#include "canon.h"
#include "wf.h"

static struct strset distinct;
static struct ucfg *CFG; static int NCFG;

static void add_cfg(const struct ucfg *c)
{
  static int cap;
  if (NCFG == cap) { cap = cap ? cap * 2 : 256; CFG = realloc(CFG, (size_t)cap * sizeof(*CFG)); }
  CFG[NCFG++] = *c;
}

/* deviation-bounded configuration list.
 * bound 1: default; every single flag; the 4 uniform filter assignments; the 12 group
 *          setters; every (type, filter) single deviation.
 * bound 2: additionally every pair {filter deviation, flag} and every pair of type deviations
 *          and all flag subsets of size 2. */
static void build_cfgs(int bound, int allflags)
{
  struct ucfg c;
  NCFG = 0;
  ucfg_default(&c); add_cfg(&c);
  for (int f = 1; f < UNIV_NFLAGS; f++) {
    int pc = __builtin_popcountl(UNIV_FLAGS[f]);
    if (!allflags && pc > bound) break;
    ucfg_default(&c); c.flags = UNIV_FLAGS[f]; add_cfg(&c);
  }
  for (int v = 0; v < 4; v++) { ucfg_default(&c); c.all_filter = v; add_cfg(&c);
    if (bound >= 2) for (int f = 1; f < 9; f++) { c.flags = UNIV_FLAGS[f]; add_cfg(&c); } }
  for (int g = 1; g <= 3; g++) for (int v = 0; v < 4; v++) { ucfg_default(&c); c.group_setter = g; c.group_filter = v; add_cfg(&c); }
  for (int ty = 0; ty < HWLOC_OBJ_TYPE_MAX; ty++) for (int v = 0; v < 4; v++) {
    ucfg_default(&c); c.filt[ty] = v; add_cfg(&c);
    if (bound >= 2) {
      for (int f = 1; f < 9; f++) { c.flags = UNIV_FLAGS[f]; add_cfg(&c); }
      c.flags = 0;
      for (int ty2 = ty + 1; ty2 < HWLOC_OBJ_TYPE_MAX; ty2++) for (int v2 = 0; v2 < 4; v2++) { c.filt[ty2] = v2; add_cfg(&c); c.filt[ty2] = -1; }
    }
  }
}

static void one_load(const struct usrc *s, const struct ucfg *c)
{
  hwloc_topology_t t = NULL; int rc = -9, e = 0;
  struct sb cs; sb_init(&cs); ucfg_print(&cs, c);
  int go = mc_case("%s %s | %s", s->kind == USRC_SYNTHETIC ? "synthetic" : "xml", s->name, cs.s);
  sb_free(&cs);
  if (!go) return;
  MC.transitions++;
  if (MC_TRY(60000)) { rc = univ_load(&t, s, c); e = errno; mc_try_end(); }
  if (mc_report_faults("load")) return;
  if (rc == -2) {
    mc_count("config_rejected", 1);
    if (e != EINVAL) mc_violation("c01.config.errno", "%s: configuration rejected with errno %d", mc_case_text(), e);
    return;
  }
  if (rc == -1) { mc_count("load_failed", 1); mc_outcome("load_errno", "%d", e); return; }
  mc_count("load_ok", 1);
  if (MC_TRY(60000)) {
    wf_check_mc(t, "load");
    mc_try_end();
  }
  mc_report_faults("wf");
  wf_builtin_check_mc(t, "topology_check");
  /* distinct resulting states */
  {
    char *k = NULL;
    if (MC_TRY(60000)) { k = canon_str(t, CANON_ALL & ~CANON_USERDATA); mc_try_end(); }
    mc_report_faults("canon");
    if (k) { if (strset_add(&distinct, k, strlen(k))) MC.states++; free(k); }
  }
  if (MC_TRY(60000)) { hwloc_topology_destroy(t); mc_try_end(); }
  mc_report_faults("destroy");
}

struct synctx { int bound; };
static void syn_one(const struct syn_desc *d, uint64_t index, void *ctx)
{
  (void)ctx;
  if (!mc_mine(index) || mc_deadline()) return;
  struct usrc s = { USRC_SYNTHETIC, (char *)d->text, 0, (char *)d->text };
  /* the large family 2 (deeper product) is crossed with the 6 coarse configurations only
   * (default, INCLUDE_DISALLOWED, the 4 uniform filters); the other families with all of them */
  for (int i = 0; i < NCFG; i++) {
    if (d->family == 2 && !MC.thorough) {
      const struct ucfg *c = &CFG[i]; int coarse = c->group_setter == 0;
      for (int k = 0; k < HWLOC_OBJ_TYPE_MAX; k++) if (c->filt[k] >= 0) coarse = 0;
      if (c->flags & ~(unsigned long)HWLOC_TOPOLOGY_FLAG_INCLUDE_DISALLOWED) coarse = 0;
      if (!coarse) continue;
    }
    one_load(&s, &CFG[i]);
  }
  if (mc_opt("leak-each") && mc_leak_check()) mc_violation("c01.leak", "synthetic \"%s\"", d->text);
  if (index % 997 == 0) mc_sample("synthetic \"%s\" x %d configurations", d->text, NCFG);
}

int main(int argc, char **argv)
{
  mc_init(argc, argv, "C01");
  strset_init(&distinct);
  const char *stage = mc_opt("stage"); if (!stage) stage = "syn";
  if (!strcmp(stage, "syn")) {
    build_cfgs(1, 0);
    mc_note("synthetic universe x %d configurations (deviation bound 1)", NCFG);
    uint64_t n = univ_syn_enumerate(MC.thorough, syn_one, NULL);
    mc_count_max("synthetic_descriptions", n);
  } else if (!strcmp(stage, "xml")) {
    /* fixtures and corpus XML: bound 1 quick, bound 2 + all flag subsets thorough on fixtures */
    int nf = univ_fix_count(), nc = univ_corpus_count();
    uint64_t idx = 0;
    build_cfgs(1, 0);
    mc_note("%d fixtures + %d corpus XML files x %d configurations", nf, nc, NCFG);
    for (int i = 0; i < nf + nc; i++) {
      const struct usrc *s = i < nf ? univ_fix(i) : univ_corpus(i - nf);
      for (int k = 0; k < NCFG; k++, idx++) { if (!mc_mine(idx) || mc_deadline()) continue; one_load(s, &CFG[k]); }
    }
    /* fixtures: every single (normal type, filter) deviation once more with the special objects kept (Misc and I/O KEEP_ALL):
     * merging or dropping a normal level has to move the special children of the objects it removes (seeded change
     * C01-keepstructure-misc-arity needs Package=KEEP_STRUCTURE together with Misc=KEEP_ALL, a pair the bound-1 list lacks) */
    for (int i = 0; i < nf; i++) for (int ty = 0; ty < HWLOC_OBJ_TYPE_MAX; ty++) for (int v = 0; v < 4; v++, idx++) {
      if (!mc_mine(idx) || mc_deadline()) continue;
      if (!hwloc_obj_type_is_normal((hwloc_obj_type_t)ty)) continue;
      struct ucfg c; ucfg_default(&c); c.filt[HWLOC_OBJ_MISC] = HWLOC_TYPE_FILTER_KEEP_ALL; c.group_setter = 3; c.group_filter = HWLOC_TYPE_FILTER_KEEP_ALL; c.filt[ty] = v;
      one_load(univ_fix(i), &c);
      mc_count("loads_with_special_objects_kept", 1);
    }
    mc_sample("xml %s x %d configurations", univ_fix(0)->name, NCFG);
  } else if (!strcmp(stage, "small2")) {
    /* U_small x deviation bound 2 x all 256 flag words */
    build_cfgs(2, 1);
    int ns = univ_small_count(); uint64_t idx = 0;
    mc_note("%d small roots x %d configurations (deviation bound 2, all flag subsets)", ns, NCFG);
    for (int i = 0; i < ns; i++) for (int k = 0; k < NCFG; k++, idx++) { if (!mc_mine(idx) || mc_deadline()) continue; one_load(univ_small(i), &CFG[k]); }
    mc_sample("small root %s x %d configurations", univ_small(0)->name, NCFG);
  }
  if (mc_leak_check()) mc_violation("c01.leak", "leak reported at the end of stage %s part %d", stage, MC.part);
  return mc_finish(1);
}
