/* C18 - discovery from Linux/x86 snapshots is robust, deterministic and self-consistent.
 *
 * stage base   : every bundled snapshot x applicable HWLOC_COMPONENTS selection x configuration
 *                (default, uniform filters, single flags): well-formedness, determinism (two
 *                loads give the same dump), INCLUDE_DISALLOWED view vs default view, XML
 *                round trip.
 * stage faults : fault sequences enumerated exhaustively within bounds instead of sampled:
 *                pass 0 records the set P of distinct paths the loader asks for (file-system
 *                seam, env_fs.c); bound 1 = every single removable path of P answered with
 *                ENOENT (and hidden from listings, a directory hides its subtree); bound 2
 *                (thorough, small snapshots) = every pair under sys/devices/system.
 *                Only paths in P can change the behaviour, so this is complete for removals
 *                from the whole snapshot.
 */
#define _GNU_SOURCE
#include "hwmc.h"
#include "univ.h"
#include "canon.h"
#include "wf.h"
#include "env_fs.h"
#include <unistd.h>
#include <sys/stat.h>
#include <sys/syscall.h>
#include <fcntl.h>
#include <ctype.h>

struct snap { char kind[16], name[128], fsroot[600], cpuid[600]; };
static struct snap *S; static int NS;

static void read_index(void)
{
  char path[700]; snprintf(path, sizeof(path), "%s/build/snap/index.txt", univ_verif());
  FILE *f = fopen(path, "r"); if (!f) { fprintf(stderr, "c18: %s missing (prepare step not run)\n", path); exit(2); }
  char line[2000]; int cap = 0;
  while (fgets(line, sizeof(line), f)) {
    if (NS == cap) { cap = cap ? cap * 2 : 128; S = realloc(S, (size_t)cap * sizeof(*S)); }
    struct snap *s = &S[NS]; memset(s, 0, sizeof(*s));
    if (sscanf(line, "%15s %127s %599s %599s", s->kind, s->name, s->fsroot, s->cpuid) >= 3) NS++;
  }
  fclose(f);
}

/* component selections: 0 linux, 1 x86, 2 linux+x86 */
static const char *COMPS[] = { "linux,stop", "x86,stop", "linux,x86,stop", "x86,linux,stop" };
#define NCOMPS 4

static int load_snapshot(hwloc_topology_t *tp, const struct snap *s, int comp, const struct ucfg *c)
{
  hwloc_topology_t t; int rc = 0;
  *tp = NULL;
  setenv("HWLOC_COMPONENTS", COMPS[comp], 1);
  if (strcmp(s->fsroot, "-")) { setenv("HWLOC_FSROOT", s->fsroot, 1); envfs_watch_root(s->fsroot); } else unsetenv("HWLOC_FSROOT");
  if (s->cpuid[0] && strcmp(s->cpuid, "-")) setenv("HWLOC_CPUID_PATH", s->cpuid, 1); else unsetenv("HWLOC_CPUID_PATH");
  setenv("HWLOC_DUMPED_HWDATA_DIR", "/nonexistent/hwdata", 1);
  if (hwloc_topology_init(&t) < 0) return -1;
  if (c) {
    if (c->all_filter >= 0) hwloc_topology_set_all_types_filter(t, (enum hwloc_type_filter_e)c->all_filter);
    for (int i = 0; i < HWLOC_OBJ_TYPE_MAX; i++) if (c->filt[i] >= 0) hwloc_topology_set_type_filter(t, (hwloc_obj_type_t)i, (enum hwloc_type_filter_e)c->filt[i]);
    if (hwloc_topology_set_flags(t, c->flags) < 0) rc = -2;
  }
  if (!rc && hwloc_topology_load(t) < 0) rc = -1;
  if (rc) { hwloc_topology_destroy(t); return rc; }
  *tp = t;
  return 0;
}

static int comp_applies(const struct snap *s, int comp)
{
  if (!strcmp(s->kind, "linux")) return comp == 0;
  if (!strcmp(s->kind, "x86")) return comp == 1;
  return 1;   /* x86+linux: each backend alone and both orders */
}

static struct ucfg CFG[64]; static int NCFG;
static void build_cfgs(int rich)
{
  struct ucfg c; NCFG = 0;
  ucfg_default(&c); CFG[NCFG++] = c;
  for (int v = 0; v < 4; v++) { ucfg_default(&c); c.all_filter = v; CFG[NCFG++] = c; }
  static const unsigned long FL[] = { HWLOC_TOPOLOGY_FLAG_INCLUDE_DISALLOWED, HWLOC_TOPOLOGY_FLAG_NO_DISTANCES, HWLOC_TOPOLOGY_FLAG_NO_MEMATTRS, HWLOC_TOPOLOGY_FLAG_NO_CPUKINDS, HWLOC_TOPOLOGY_FLAG_IMPORT_SUPPORT, HWLOC_TOPOLOGY_FLAG_DONT_CHANGE_BINDING };
  for (unsigned i = 0; i < 6; i++) { ucfg_default(&c); c.flags = FL[i]; CFG[NCFG++] = c; }
  /* single (type, KEEP_NONE) deviations: a backend must obey the filter of exactly the type it is about to create */
  { static const hwloc_obj_type_t TY[] = { HWLOC_OBJ_PACKAGE, HWLOC_OBJ_DIE, HWLOC_OBJ_CORE, HWLOC_OBJ_L1CACHE, HWLOC_OBJ_L2CACHE, HWLOC_OBJ_L3CACHE, HWLOC_OBJ_L1ICACHE, HWLOC_OBJ_GROUP, HWLOC_OBJ_MEMCACHE };
    for (unsigned i = 0; i < sizeof(TY) / sizeof(TY[0]); i++) { ucfg_default(&c); c.filt[TY[i]] = HWLOC_TYPE_FILTER_KEEP_NONE; CFG[NCFG++] = c; } }
  if (rich) {
    for (unsigned i = 0; i < 6; i++) for (unsigned j = i + 1; j < 6; j++) { ucfg_default(&c); c.flags = FL[i] | FL[j]; CFG[NCFG++] = c; }
    ucfg_default(&c); c.all_filter = HWLOC_TYPE_FILTER_KEEP_ALL; c.flags = HWLOC_TOPOLOGY_FLAG_INCLUDE_DISALLOWED; CFG[NCFG++] = c;
    ucfg_default(&c); c.all_filter = HWLOC_TYPE_FILTER_KEEP_STRUCTURE; c.flags = HWLOC_TOPOLOGY_FLAG_INCLUDE_DISALLOWED; CFG[NCFG++] = c;
  }
}

static void cfg_text(const struct ucfg *c, char *buf, size_t n) { struct sb b; sb_init(&b); ucfg_print(&b, c); snprintf(buf, n, "%s", b.s); sb_free(&b); }

static void roundtrip(hwloc_topology_t t)
{
  char *x = NULL; int l = 0;
  if (hwloc_topology_export_xmlbuffer(t, &x, &l, 0) < 0) { mc_violation("c18.xml.export", "%s :: XML export fails", mc_case_text()); return; }
  hwloc_topology_t r; hwloc_topology_init(&r); hwloc_topology_set_all_types_filter(r, HWLOC_TYPE_FILTER_KEEP_ALL);
  hwloc_topology_set_flags(r, (hwloc_topology_get_flags(t) & ~(unsigned long)(HWLOC_TOPOLOGY_FLAG_IS_THISSYSTEM | HWLOC_TOPOLOGY_FLAG_THISSYSTEM_ALLOWED_RESOURCES)) | HWLOC_TOPOLOGY_FLAG_IMPORT_SUPPORT);
  unsetenv("HWLOC_COMPONENTS");
  if (hwloc_topology_set_xmlbuffer(r, x, l) < 0 || hwloc_topology_load(r) < 0) mc_violation("c18.xml.reload", "%s :: the XML export does not load", mc_case_text());
  else {
    char *a = canon_str(t, CANON_XML), *b = canon_str(r, CANON_XML);
    if (strcmp(a, b)) {
      /* classify: does the difference vanish once the complete_cpuset of memory objects of the reloaded
       * topology is replaced by the original's (matched by gp_index)?  That specific difference has its own key. */
      int patched = 0;
      for (int d = HWLOC_TYPE_DEPTH_NUMANODE; d >= HWLOC_TYPE_DEPTH_MEMCACHE; d--) {
        if (d != HWLOC_TYPE_DEPTH_NUMANODE && d != HWLOC_TYPE_DEPTH_MEMCACHE) continue;
        hwloc_obj_t o = NULL, q;
        while ((o = hwloc_get_next_obj_by_depth(r, d, o)) != NULL)
          for (q = hwloc_get_next_obj_by_depth(t, d, NULL); q; q = hwloc_get_next_obj_by_depth(t, d, q))
            if (q->gp_index == o->gp_index && !hwloc_bitmap_isequal(q->complete_cpuset, o->complete_cpuset)) { hwloc_bitmap_copy(o->complete_cpuset, q->complete_cpuset); patched++; }
      }
      char *b2 = canon_str(r, CANON_XML);
      if (patched && !strcmp(a, b2)) mc_violation("c18.xml.roundtrip.memobj-complete_cpuset", "%s :: %d memory object(s) come back with another complete_cpuset; %s", mc_case_text(), patched, canon_diff(a, b));
      else mc_violation("c18.xml.roundtrip", "%s :: %s", mc_case_text(), canon_diff(a, b));
      free(b2);
    }
    free(a); free(b);
  }
  hwloc_topology_destroy(r);
  hwloc_free_xmlbuffer(t, x);
}

static void base_one(const struct snap *s, int comp, int ci)
{
  char ct[200]; cfg_text(&CFG[ci], ct, sizeof(ct));
  if (!mc_case("%s %s components=%s | %s", s->kind, s->name, COMPS[comp], ct)) return;
  hwloc_topology_t t = NULL, t2 = NULL; int rc = -9;
  MC.transitions++;
  if (MC_TRY(120000)) { rc = load_snapshot(&t, s, comp, &CFG[ci]); mc_try_end(); }
  if (mc_report_faults("load")) return;
  if (rc != 0) { mc_count("loads_failed", 1); mc_outcome("load_failures", "%s rc=%d", s->name, rc); return; }
  mc_count("loads_ok", 1); MC.states++;
  if (MC_TRY(120000)) {
    wf_check_mc(t, "snapshot");
    char *c1 = canon_str(t, CANON_ALL & ~CANON_USERDATA);
    /* determinism */
    if (load_snapshot(&t2, s, comp, &CFG[ci]) == 0) { char *c2 = canon_str(t2, CANON_ALL & ~CANON_USERDATA); if (strcmp(c1, c2)) mc_violation("c18.determinism", "%s :: %s", mc_case_text(), canon_diff(c1, c2)); free(c2); MC.transitions++; }
    else mc_violation("c18.determinism.second-load-fails", "%s", mc_case_text());
    free(c1);
    roundtrip(t);
    /* INCLUDE_DISALLOWED view: contains every PU and NUMA node of the default view, its allowed sets are the default view's root sets */
    if (CFG[ci].flags == 0 && CFG[ci].all_filter < 0) {
      struct ucfg d = CFG[ci]; d.flags = HWLOC_TOPOLOGY_FLAG_INCLUDE_DISALLOWED; hwloc_topology_t td = NULL;
      if (load_snapshot(&td, s, comp, &d) == 0) {
        MC.transitions++;
        if (!hwloc_bitmap_isincluded(hwloc_topology_get_topology_cpuset(t), hwloc_topology_get_topology_cpuset(td)) || !hwloc_bitmap_isincluded(hwloc_topology_get_topology_nodeset(t), hwloc_topology_get_topology_nodeset(td)))
          mc_violation("c18.disallowed.superset", "%s :: the INCLUDE_DISALLOWED view lacks PUs or NUMA nodes of the default view", mc_case_text());
        if (!hwloc_bitmap_isequal(hwloc_topology_get_allowed_cpuset(td), hwloc_topology_get_topology_cpuset(t)) || !hwloc_bitmap_isequal(hwloc_topology_get_allowed_nodeset(td), hwloc_topology_get_topology_nodeset(t))) {
          char *a1, *a2; hwloc_bitmap_list_asprintf(&a1, hwloc_topology_get_allowed_cpuset(td)); hwloc_bitmap_list_asprintf(&a2, hwloc_topology_get_topology_cpuset(t));
          mc_violation("c18.disallowed.allowed-sets", "%s :: allowed cpuset of the disallowed view %s, root cpuset of the default view %s (nodesets %s)", mc_case_text(), a1, a2, hwloc_bitmap_isequal(hwloc_topology_get_allowed_nodeset(td), hwloc_topology_get_topology_nodeset(t)) ? "equal" : "differ"); free(a1); free(a2); }
        hwloc_topology_destroy(td);
      } else mc_violation("c18.disallowed.load-fails", "%s :: loading with INCLUDE_DISALLOWED fails", mc_case_text());
    }
    mc_try_end();
  }
  mc_report_faults("oracle");
  wf_builtin_check_mc(t, "snapshot-topology_check");
  if (t2) hwloc_topology_destroy(t2);
  hwloc_topology_destroy(t);
}

/* ---------------------------------------------------------------- faults */
static int removable(const struct snap *s, const char *rel)
{
  /* regular files, symlinks, and directories whose name does not end in a digit */
  char full[1400]; snprintf(full, sizeof(full), "%s/%s", s->fsroot, rel);
  struct stat st; if (syscall(SYS_newfstatat, AT_FDCWD, full, &st, AT_SYMLINK_NOFOLLOW) < 0) return 0;   /* the loader asked for something that does not exist: nothing to remove */
  if (S_ISDIR(st.st_mode)) { size_t l = strlen(rel); if (l && isdigit((unsigned char)rel[l - 1])) return 0; }
  return 1;
}

static int class_pair_limit;   /* pairs of classes are enumerated for snapshots with at most that many classes */
static int FCOMP;  /* component selection of the fault stage: linux alone, and for x86+linux snapshots also both orders of the two backends */
static int FCFG;   /* configuration of the fault stage: 0 default, 1 every type kept (I/O and Misc discovery paths join P) */
static const char *ftag(void) { static char b[96]; if (!FCOMP) return FCFG ? "keepall" : "default"; snprintf(b, sizeof(b), "%s components=%s", FCFG ? "keepall" : "default", COMPS[FCOMP]); return b; }
static void fault_cfg(struct ucfg *c) { if (FCFG) ucfg_keepall(c); else ucfg_default(c); }
/* class of a removed path: digits runs replaced by N (cpu12 -> cpuN), used in violation keys so that a known
 * finding names the kind of file whose absence triggers it */
static void path_class(struct sb *b, const char *p)
{
  for (; *p; p++) { if (isdigit((unsigned char)*p)) { sb_putc(b, 'N'); while (isdigit((unsigned char)p[1])) p++; } else sb_putc(b, *p); }
}
static void fault_load(const struct snap *s, const char **hide, int nh, const char *label, int by_class)
{
  struct sb wb; sb_init(&wb); sb_printf(&wb, "%s:", label);
  for (int i = 0; i < nh; i++) { if (i) sb_putc(&wb, '+'); path_class(&wb, hide[i]); }
  char where_load[600], where_wf[600], where_chk[600];
  snprintf(where_load, sizeof(where_load), "%s", wb.s);
  snprintf(where_wf, sizeof(where_wf), "faulted-snapshot:%s", strchr(wb.s, ':') + 1);
  snprintf(where_chk, sizeof(where_chk), "faulted-topology_check:%s", strchr(wb.s, ':') + 1);
  sb_free(&wb);
  hwloc_topology_t t = NULL; int rc = -9;
  struct ucfg c; fault_cfg(&c);
  if (by_class) envfs_hide_classes(hide, nh); else envfs_hide(hide, nh);
  envfs_mode(2); envfs_hits = 0;
  MC.transitions++;
  if (MC_TRY(120000)) { rc = load_snapshot(&t, s, FCOMP, &c); mc_try_end(); }
  envfs_mode(0);
  if (mc_report_faults(where_load)) return;
  if (!envfs_hits) mc_count("removals_never_consulted", 1);
  if (rc != 0) { mc_count("faulted_loads_failed_cleanly", 1); return; }
  mc_count("faulted_loads_ok", 1);
  char *k = NULL;
  if (MC_TRY(120000)) { wf_check_mc(t, where_wf); k = canon_str(t, CANON_STRUCT); mc_try_end(); }
  mc_report_faults(where_wf);
  wf_builtin_check_mc(t, where_chk);
  if (k) { static struct strset distinct; if (!distinct.cap) strset_init(&distinct); if (strset_add(&distinct, k, strlen(k))) MC.states++; free(k); }
  if (MC_TRY(60000)) { hwloc_topology_destroy(t); mc_try_end(); }
  mc_report_faults("destroy");
}

static void faults_of(const struct snap *s, uint64_t *idx, int pairs, int singles)
{
  /* pass 0: record */
  hwloc_topology_t t = NULL; struct ucfg c; fault_cfg(&c);
  envfs_reset_record(); envfs_mode(1);
  int rc = load_snapshot(&t, s, FCOMP, &c);
  envfs_mode(0);
  if (rc == 0) hwloc_topology_destroy(t);
  char **P; size_t np = envfs_recorded(&P);
  /* copy: the record buffer is reused */
  char **Q = malloc(np * sizeof(char *)); size_t nq = 0;
  for (size_t i = 0; i < np; i++) if (removable(s, P[i])) Q[nq++] = strdup(P[i]);
  if (MC.part == 0) { mc_count("paths_consulted", np); mc_count("paths_removable", nq); mc_count("snapshots_fault_enumerated", 1); mc_outcome("path_sets", "%s %s consulted=%zu removable=%zu", s->name, ftag(), np, nq); }
  mc_count_max("largest_removable_path_set", nq);
  for (size_t i = 0; singles && i < nq; i++, (*idx)++) {
    if (!mc_mine(*idx) || mc_deadline()) continue;
    if (!mc_case("linux %s %s without %s", s->name, ftag(), Q[i])) continue;
    const char *h[1] = { Q[i] };
    fault_load(s, h, 1, "faulted-load", 0);
  }
  if (pairs) {
    /* bound 2: pairs under sys/devices/system */
    size_t *sysidx = malloc(nq * sizeof(size_t)), ns = 0;
    for (size_t i = 0; i < nq; i++) if (!strncmp(Q[i], "sys/devices/system", 18)) sysidx[ns++] = i;
    if (ns <= 200) for (size_t a = 0; a < ns; a++) for (size_t b = a + 1; b < ns; b++, (*idx)++) {
      if (!mc_mine(*idx) || mc_deadline()) continue;
      if (!mc_case("linux %s %s without %s and %s", s->name, ftag(), Q[sysidx[a]], Q[sysidx[b]])) continue;
      const char *h[2] = { Q[sysidx[a]], Q[sysidx[b]] };
      fault_load(s, h, 2, "faulted-load-2", 0);
    }
    else mc_count("snapshots_too_large_for_pairs", 1);
    free(sysidx);
  }
  /* path classes (every run of digits written N): what a kernel without that attribute, an architecture without
   * that directory or a restricted mount really produces is the absence of EVERY instance.  Bound 1 = every class,
   * bound 2 = every pair of classes (all snapshots whose class set is small enough, see the evidence).  A class is
   * left out when one of its consulted instances is a numbered directory (never removed on its own). */
  {
    char **C = malloc((nq + 1) * sizeof(char *)); size_t nc = 0; char cls[4096], cls2[4096];
    for (size_t i = 0; i < nq; i++) {
      envfs_path_class(Q[i], cls, sizeof(cls));
      size_t k; for (k = 0; k < nc; k++) if (!strcmp(C[k], cls)) break;
      if (k < nc) continue;
      int bad = 0;
      for (size_t j = 0; j < np && !bad; j++) { envfs_path_class(P[j], cls2, sizeof(cls2)); if (!strcmp(cls, cls2)) { char full[1400]; struct stat st; snprintf(full, sizeof(full), "%s/%s", s->fsroot, P[j]); if (syscall(SYS_newfstatat, AT_FDCWD, full, &st, AT_SYMLINK_NOFOLLOW) == 0 && !removable(s, P[j])) bad = 1; } }
      if (bad) { if (MC.part == 0) mc_count("classes_left_out_numbered_directory", 1); continue; }
      C[nc++] = strdup(cls);
    }
    if (MC.part == 0) { mc_count("path_classes", nc); mc_outcome("class_sets", "%s %s classes=%zu", s->name, ftag(), nc); }
    mc_count_max("largest_class_set", nc);
    for (size_t i = 0; i < nc; i++, (*idx)++) {
      if (!mc_mine(*idx) || mc_deadline()) continue;
      if (!mc_case("linux %s %s without class %s", s->name, ftag(), C[i])) continue;
      const char *h[1] = { C[i] };
      fault_load(s, h, 1, "faulted-load", 1);
      mc_count("class_removals_bound1", 1);
    }
    if (nc <= (size_t)class_pair_limit) {
      for (size_t a = 0; a < nc; a++) for (size_t b = a + 1; b < nc; b++, (*idx)++) {
        if (!mc_mine(*idx) || mc_deadline()) continue;
        /* a class below another one adds nothing to it */
        size_t la = strlen(C[a]), lb = strlen(C[b]);
        if ((la < lb && !strncmp(C[a], C[b], la) && C[b][la] == '/') || (lb < la && !strncmp(C[a], C[b], lb) && C[a][lb] == '/')) continue;
        if (!mc_case("linux %s %s without classes %s and %s", s->name, ftag(), C[a], C[b])) continue;
        const char *h[2] = { C[a], C[b] };
        fault_load(s, h, 2, "faulted-load-2", 1);
        mc_count("class_removals_bound2", 1);
      }
      if (MC.part == 0) mc_count("snapshots_class_pairs_enumerated", 1);
    } else if (MC.part == 0) { mc_count("snapshots_class_pairs_deferred", 1); mc_outcome("class_pairs_deferred", "%s %s classes=%zu", s->name, ftag(), nc); }
    /* bound 3 (thorough): every triple of classes none of which lies below another, for small class sets */
    if (MC.thorough && nc <= 40) {
      for (size_t a = 0; a < nc; a++) for (size_t b = a + 1; b < nc; b++) for (size_t c = b + 1; c < nc; c++, (*idx)++) {
        if (!mc_mine(*idx) || mc_deadline()) continue;
        const char *h[3] = { C[a], C[b], C[c] }; int nested = 0;
        for (int x = 0; x < 3 && !nested; x++) for (int y = 0; y < 3; y++) { size_t lx = strlen(h[x]); if (x != y && strlen(h[y]) > lx && !strncmp(h[x], h[y], lx) && h[y][lx] == '/') nested = 1; }
        if (nested) continue;
        if (!mc_case("linux %s %s without classes %s and %s and %s", s->name, ftag(), C[a], C[b], C[c])) continue;
        fault_load(s, h, 3, "faulted-load-3", 1);
        mc_count("class_removals_bound3", 1);
      }
      if (MC.part == 0) mc_count("snapshots_class_triples_enumerated", 1);
    }
    if (nc) mc_sample("linux %s %s without class %s (one of %zu classes)", s->name, ftag(), C[nc / 2], nc);
    for (size_t i = 0; i < nc; i++) free(C[i]);
    free(C);
  }
  if (nq) mc_sample("linux %s %s without %s (one of %zu removable paths out of %zu consulted)", s->name, ftag(), Q[nq / 2], nq, np);
  for (size_t i = 0; i < nq; i++) free(Q[i]);
  free(Q);
}

int main(int argc, char **argv)
{
  mc_init(argc, argv, "C18");
  read_index();
  const char *stage = mc_opt("stage"); if (!stage) stage = "base";
  setenv("HWLOC_HIDE_ERRORS", "2", 1);
  if (!strcmp(stage, "base")) {
    build_cfgs(MC.thorough);
    mc_note("%d snapshots x applicable component selections x %d configurations", NS, NCFG);
    uint64_t idx = 0;
    for (int i = 0; i < NS; i++) for (int comp = 0; comp < NCOMPS; comp++) {
      if (!comp_applies(&S[i], comp)) continue;
      for (int ci = 0; ci < NCFG; ci++, idx++) { if (!mc_mine(idx) || mc_deadline()) continue; base_one(&S[i], comp, ci); }
    }
    mc_sample("linux %s components=linux,stop | flags=0", S[0].name);
  } else {
    /* quick: snapshots whose removable path set is below a size bound; thorough: all */
    uint64_t idx = 0; size_t limit = MC.thorough ? 1000000 : (size_t)atoi(mc_opt("maxpaths") ? mc_opt("maxpaths") : "2500");
    class_pair_limit = atoi(mc_opt("classpairs") ? mc_opt("classpairs") : (MC.thorough ? "400" : "60"));
    mc_note("fault enumeration: bound 1 on every Linux snapshot%s", MC.thorough ? ", bound 2 under sys/devices/system when <= 200 such paths" : " whose consulted path set has at most the quick limit");
    static const int FC[] = { 0, 2, 3 };
    for (FCFG = 0; FCFG < 2; FCFG++) for (int i = 0; i < NS; i++) for (int fc = 0; fc < 3; fc++) {
      if (strcmp(S[i].kind, "linux") && strcmp(S[i].kind, "x86+linux")) continue;
      if (fc && strcmp(S[i].kind, "x86+linux")) continue;   /* both backends, in both orders: snapshots that have a CPUID dump too */
      FCOMP = FC[fc];
      if (mc_deadline()) break;
      /* size probe (cheap): count consulted paths */
      if (!MC.thorough) {
        hwloc_topology_t t = NULL; struct ucfg c; fault_cfg(&c); envfs_reset_record(); envfs_mode(1);
        int rc = load_snapshot(&t, &S[i], FCOMP, &c); envfs_mode(0); if (rc == 0) hwloc_topology_destroy(t);
        char **P; size_t np0 = envfs_recorded(&P); if (np0 > limit) { if (MC.part == 0) { mc_count("snapshots_single_paths_deferred_to_thorough", 1); mc_outcome("deferred", "%s consulted=%zu (classes are enumerated)", S[i].name, np0); } faults_of(&S[i], &idx, 0, 0); continue; }
      }
      faults_of(&S[i], &idx, MC.thorough, 1);
    }
  }
  return mc_finish(1);
}
