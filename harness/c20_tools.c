/* C20 - command-line tools compute what the library API defines.
 *
 * The tools of the working tree are compiled with ASan/UBSan against the instrumented static
 * library (engine/build.py build_tools) and run as child processes; this harness generates the
 * command lines, evaluates the same requests through the library with a reference evaluator
 * that works on the generated syntax tree (never on the text), and compares.
 *
 * stage calc    : topologies x option sets x every generated location expression
 *                 (prefix operators, all/root, type:range, nested type:range.type:range, set
 *                 literals; sequences of 1..2 (3 thorough) locations).  Expressions are fed in
 *                 batches on stdin (one process per topology x option set) and a subset again
 *                 on the command line; --largest and -H outputs are fed back.
 * stage other   : hwloc-distrib (every n, options) against hwloc_distrib(); lstopo XML /
 *                 synthetic output against the library exports and reload equivalence;
 *                 hwloc-diff + hwloc-patch on generated pairs; malformed command lines.
 */
#define _GNU_SOURCE
#include "hwmc.h"
#include "univ.h"
#include "canon.h"
#include <spawn.h>
#include <sys/wait.h>
#include <unistd.h>
#include <fcntl.h>
#include <ctype.h>
#include <limits.h>

extern char **environ;
static char TOOLDIR[600], TMPD[600];

/* ------------------------------------------------------------------ running a tool */
struct result { int status; /* exit code, or 1000+signal */ char *out, *err; int sanitizer; };
static void result_free(struct result *r) { free(r->out); free(r->err); r->out = r->err = NULL; }
static uint64_t nproc_spawned;
#define TOOL_TIMEOUT 20.0
#include <signal.h>
#include <time.h>

static void run_tool(const char *tool, char *const args[], const char *input, struct result *r)
{
  char exe[700], fin[700], fout[700], ferr[700];
  snprintf(exe, sizeof(exe), "%s/%s", TOOLDIR, tool);
  snprintf(fin, sizeof(fin), "%s/c20.%d.in", TMPD, getpid()); snprintf(fout, sizeof(fout), "%s/c20.%d.out", TMPD, getpid()); snprintf(ferr, sizeof(ferr), "%s/c20.%d.err", TMPD, getpid());
  FILE *f = fopen(fin, "w"); if (input) fputs(input, f); fclose(f);
  char *argv[64]; int n = 0; argv[n++] = exe; for (int i = 0; args[i] && n < 62; i++) argv[n++] = args[i]; argv[n] = NULL;
  posix_spawn_file_actions_t fa; posix_spawn_file_actions_init(&fa);
  posix_spawn_file_actions_addopen(&fa, 0, fin, O_RDONLY, 0);
  posix_spawn_file_actions_addopen(&fa, 1, fout, O_WRONLY | O_CREAT | O_TRUNC, 0600);
  posix_spawn_file_actions_addopen(&fa, 2, ferr, O_WRONLY | O_CREAT | O_TRUNC, 0600);
  pid_t pid; int st = 0;
  memset(r, 0, sizeof(*r));
  nproc_spawned++;
  if (posix_spawn(&pid, exe, &fa, NULL, argv, environ) != 0) { r->status = 2000; r->out = strdup(""); r->err = strdup("spawn failed"); posix_spawn_file_actions_destroy(&fa); return; }
  posix_spawn_file_actions_destroy(&fa);
  /* horizon: a tool that runs for more than TOOL_TIMEOUT seconds is killed and reported as a hang (status 3000) */
  double t0 = mc_now(); int hung = 0;
  for (;;) {
    pid_t w = waitpid(pid, &st, WNOHANG);
    if (w == pid) break;
    if (w < 0 && errno != EINTR) break;
    if (mc_now() - t0 > TOOL_TIMEOUT) { kill(pid, SIGKILL); while (waitpid(pid, &st, 0) < 0 && errno == EINTR) ; hung = 1; break; }
    struct timespec ts = { 0, (mc_now() - t0 < 0.05) ? 200000 : 5000000 }; nanosleep(&ts, NULL);
  }
  r->status = hung ? 3000 : WIFEXITED(st) ? WEXITSTATUS(st) : 1000 + WTERMSIG(st);
  r->out = univ_read_file(fout, NULL); r->err = univ_read_file(ferr, NULL);
  if (!r->out) r->out = strdup(""); if (!r->err) r->err = strdup("");
  r->sanitizer = strstr(r->err, "AddressSanitizer") || strstr(r->err, "runtime error:") || strstr(r->err, "LeakSanitizer") || r->status == 99;
}
static void argtext(struct sb *b, const char *tool, char *const args[]) { sb_puts(b, tool); for (int i = 0; args[i]; i++) { sb_puts(b, " '"); sb_puts(b, args[i]); sb_putc(b, '\''); } }
/* crash / sanitizer oracle common to every invocation; returns 1 if reported */
static int crashed(const char *tool, char *const args[], const struct result *r, const char *inputnote)
{
  if (r->status < 1000 && !r->sanitizer) return 0;
  struct sb b; sb_init(&b); argtext(&b, tool, args);
  char first[300]; snprintf(first, sizeof(first), "%.250s", r->err); for (char *p = first; *p; p++) if (*p == '\n') *p = ' ';
  mc_violation(r->status == 3000 ? "c20.hang" : r->status >= 1000 ? "c20.crash" : "c20.sanitizer", "%s :: %s %s: status %d, stderr: %s", mc_case_text(), b.s, inputnote ? inputnote : "", r->status, first);
  sb_free(&b); return 1;
}

/* ------------------------------------------------------------------ topologies */
struct topo { const struct usrc *src; hwloc_topology_t t; char input[700]; };
static struct topo TP[64]; static int NTP;
static void load_topos(void)
{
  for (int i = 0; i < univ_small_count(); i++) {
    const struct usrc *s = univ_small(i);
    if (s->kind != USRC_SYNTHETIC && s->kind != USRC_XMLFILE) continue;
    struct ucfg c; ucfg_default(&c); c.all_filter = HWLOC_TYPE_FILTER_KEEP_ALL; c.flags = HWLOC_TOPOLOGY_FLAG_IMPORT_SUPPORT;   /* what hwloc-calc and hwloc-distrib configure */
    hwloc_topology_t t; if (univ_load(&t, s, &c)) continue;
    TP[NTP].src = s; TP[NTP].t = t; snprintf(TP[NTP].input, sizeof(TP[NTP].input), "%s", s->text); NTP++;
    if (NTP == 64) break;
  }
}

/* ------------------------------------------------------------------ location syntax trees */
enum { R_ONE, R_RANGE, R_FROM, R_WRAP, R_ALL, R_ODD, R_EVEN };
struct range { int kind; int a, b; };
struct level { int depth; char name[32]; struct range r; };
enum { LK_ALL, LK_ROOT, LK_SET, LK_OBJ };
struct loc { char op; /* 0, '~', 'x', '^' */ int kind; hwloc_bitmap_t set; int nlev; struct level lv[3]; char text[1200]; };

static void range_text(struct sb *b, const struct range *r)
{
  switch (r->kind) {
  case R_ONE: sb_printf(b, "%d", r->a); break; case R_RANGE: sb_printf(b, "%d-%d", r->a, r->b); break; case R_FROM: sb_printf(b, "%d-", r->a); break;
  case R_WRAP: sb_printf(b, "%d:%d", r->a, r->b); break; case R_ALL: sb_puts(b, "all"); break; case R_ODD: sb_puts(b, "odd"); break; default: sb_puts(b, "even");
  }
}
static void loc_text(struct loc *l, int fmt /* 0 hwloc 1 list 2 taskset */)
{
  struct sb b; sb_init(&b);
  if (l->op) sb_putc(&b, l->op);
  if (l->kind == LK_ALL) sb_puts(&b, "all"); else if (l->kind == LK_ROOT) sb_puts(&b, "root");
  else if (l->kind == LK_SET) { char *s; if (fmt == 1) hwloc_bitmap_list_asprintf(&s, l->set); else if (fmt == 2) hwloc_bitmap_taskset_asprintf(&s, l->set); else hwloc_bitmap_asprintf(&s, l->set); sb_puts(&b, s); free(s); }
  else for (int i = 0; i < l->nlev; i++) { if (i) sb_putc(&b, '.'); sb_printf(&b, "%s:", l->lv[i].name); range_text(&b, &l->lv[i].r); }
  snprintf(l->text, sizeof(l->text), "%s", b.s); sb_free(&b);
}

/* ---- reference evaluation.  The documented meaning (hwloc(7), Location Specification):
 * type:N the N-th object of that type among those below the enclosing location (the whole machine first),
 * N-M a range, N- up to the last, N:M M objects starting at N wrapping around, all/odd/even; a dot narrows
 * the enclosing location to each object selected so far.  With physical input indexes N names the object
 * whose OS index is N. */
static int below(hwloc_obj_t o, hwloc_const_bitmap_t rc, hwloc_const_bitmap_t rn)
{
  if (hwloc_bitmap_iszero(o->cpuset) && hwloc_bitmap_iszero(o->nodeset)) return 0;
  if (!hwloc_bitmap_iszero(o->cpuset) && !hwloc_bitmap_intersects(o->cpuset, rc)) return 0;
  if (!hwloc_bitmap_iszero(o->nodeset) && !hwloc_bitmap_intersects(o->nodeset, rn)) return 0;
  return 1;
}
static void eval_levels(hwloc_topology_t t, const struct loc *l, int li, hwloc_const_bitmap_t rc, hwloc_const_bitmap_t rn, int physical, hwloc_bitmap_t oc, hwloc_bitmap_t on)
{
  const struct level *lv = &l->lv[li];
  hwloc_obj_t cand[1024]; int n = 0; hwloc_obj_t o = NULL;
  while ((o = hwloc_get_next_obj_by_depth(t, lv->depth, o)) != NULL) if (below(o, rc, rn) && n < 1024) cand[n++] = o;
  int first = 0, amount = 1, step = 1, wrap = 0;
  switch (lv->r.kind) {
  case R_ONE: first = lv->r.a; break; case R_RANGE: first = lv->r.a; amount = lv->r.b - lv->r.a + 1; break; case R_FROM: first = lv->r.a; amount = -1; break;
  case R_WRAP: first = lv->r.a; amount = lv->r.b; wrap = 1; break; case R_ALL: amount = -1; break; case R_ODD: first = 1; step = 2; amount = -1; break; default: step = 2; amount = -1;
  }
  if (amount == -1) amount = (n - first + step - 1) / step;
  int i = first;
  for (int j = 0; j < amount; j++, i += step) {
    if (wrap && i >= n) i = 0;
    hwloc_obj_t sel = NULL;
    if (!physical) { if (i >= 0 && i < n) sel = cand[i]; }
    else for (int k = 0; k < n; k++) if (cand[k]->os_index == (unsigned)i) { sel = cand[k]; break; }
    if (!sel) continue;
    if (li + 1 < l->nlev) eval_levels(t, l, li + 1, sel->cpuset, sel->nodeset, physical, oc, on);
    else { hwloc_bitmap_or(oc, oc, sel->cpuset); hwloc_bitmap_or(on, on, sel->nodeset); }
  }
}
static void apply(hwloc_bitmap_t acc, hwloc_const_bitmap_t v, char op)
{
  switch (op) { case '~': hwloc_bitmap_andnot(acc, acc, v); break; case 'x': hwloc_bitmap_and(acc, acc, v); break; case '^': hwloc_bitmap_xor(acc, acc, v); break; default: hwloc_bitmap_or(acc, acc, v); }
}
static void nodes_of_cpuset(hwloc_topology_t t, hwloc_const_bitmap_t c, hwloc_bitmap_t n)
{ hwloc_obj_t o = NULL; hwloc_bitmap_zero(n); while ((o = hwloc_get_next_obj_by_type(t, HWLOC_OBJ_NUMANODE, o)) != NULL) if (hwloc_bitmap_intersects(o->cpuset, c)) hwloc_bitmap_set(n, o->os_index); }
static void cpus_of_nodeset(hwloc_topology_t t, hwloc_const_bitmap_t n, hwloc_bitmap_t c)
{ hwloc_obj_t o = NULL; hwloc_bitmap_zero(c); while ((o = hwloc_get_next_obj_by_type(t, HWLOC_OBJ_NUMANODE, o)) != NULL) if (hwloc_bitmap_isset(n, o->os_index)) hwloc_bitmap_or(c, c, o->cpuset); }

struct optset { const char *name; char *args[8]; int fmt; /* output format */ int infmt; /* format of set literals on input */ int physical_in, physical_out, nodeset_in, nodeset_out; int mode; /* 0 set, 1 -N, 2 -I, 3 --largest, 4 --single, 5 -H */ int depth, depth2; };

static void eval_expr(hwloc_topology_t t, struct loc **ls, int nl, const struct optset *o, hwloc_bitmap_t rc, hwloc_bitmap_t rn)
{
  hwloc_bitmap_zero(rc); hwloc_bitmap_zero(rn);
  hwloc_bitmap_t c = hwloc_bitmap_alloc(), n = hwloc_bitmap_alloc();
  for (int i = 0; i < nl; i++) {
    struct loc *l = ls[i]; hwloc_bitmap_zero(c); hwloc_bitmap_zero(n);
    if (l->kind == LK_ALL || l->kind == LK_ROOT) { hwloc_bitmap_copy(c, hwloc_topology_get_topology_cpuset(t)); hwloc_bitmap_copy(n, hwloc_topology_get_topology_nodeset(t)); }
    else if (l->kind == LK_SET) { if (o->nodeset_in) { hwloc_bitmap_copy(n, l->set); cpus_of_nodeset(t, l->set, c); } else { hwloc_bitmap_copy(c, l->set); nodes_of_cpuset(t, l->set, n); } }
    else eval_levels(t, l, 0, hwloc_topology_get_complete_cpuset(t), hwloc_topology_get_complete_nodeset(t), o->physical_in, c, n);
    apply(rc, c, l->op); apply(rn, n, l->op);
  }
  hwloc_bitmap_free(c); hwloc_bitmap_free(n);
}

static char *fmt_set(hwloc_const_bitmap_t b, int fmt) { char *s; if (fmt == 1) hwloc_bitmap_list_asprintf(&s, b); else if (fmt == 2) hwloc_bitmap_taskset_asprintf(&s, b); else hwloc_bitmap_asprintf(&s, b); return s; }

/* objects of a level that the result set touches (memory objects by nodeset, the others by cpuset) */
static int touched(hwloc_topology_t t, int depth, hwloc_const_bitmap_t rc, hwloc_const_bitmap_t rn, hwloc_obj_t *out, int max)
{
  int n = 0; hwloc_obj_t o = NULL;
  while ((o = hwloc_get_next_obj_by_depth(t, depth, o)) != NULL) {
    int hit = hwloc_obj_type_is_memory(o->type) ? hwloc_bitmap_intersects(rn, o->nodeset) : hwloc_bitmap_intersects(rc, o->cpuset);
    if (hit && n < max) out[n++] = o;
  }
  return n;
}

/* ------------------------------------------------------------------ generation */
static struct loc *LOCS; static int NLOCS, CAPLOCS;
static struct loc *newloc(void) { if (NLOCS == CAPLOCS) { CAPLOCS = CAPLOCS ? CAPLOCS * 2 : 512; LOCS = realloc(LOCS, (size_t)CAPLOCS * sizeof(*LOCS)); } struct loc *l = &LOCS[NLOCS++]; memset(l, 0, sizeof(*l)); return l; }

struct lvl { int depth; char name[32]; int width; };
static int levels_of(hwloc_topology_t t, struct lvl *L)
{
  int n = 0;
  for (int d = 0; d < hwloc_topology_get_depth(t); d++) {
    hwloc_obj_t o = hwloc_get_obj_by_depth(t, d, 0);
    if (o->type == HWLOC_OBJ_GROUP) { snprintf(L[n].name, 32, "%d", d); }      /* groups are addressed by depth */
    else if (hwloc_get_type_depth(t, o->type) == HWLOC_TYPE_DEPTH_MULTIPLE) snprintf(L[n].name, 32, "%d", d);
    else { char tmp[32]; hwloc_obj_type_snprintf(tmp, sizeof(tmp), o, HWLOC_OBJ_SNPRINTF_FLAG_LONG_NAMES); snprintf(L[n].name, 32, "%s", tmp); }
    L[n].depth = d; L[n].width = (int)hwloc_get_nbobjs_by_depth(t, d); n++;
  }
  if (hwloc_get_nbobjs_by_depth(t, HWLOC_TYPE_DEPTH_NUMANODE)) { snprintf(L[n].name, 32, "NUMANode"); L[n].depth = HWLOC_TYPE_DEPTH_NUMANODE; L[n].width = (int)hwloc_get_nbobjs_by_depth(t, HWLOC_TYPE_DEPTH_NUMANODE); n++; }
  return n;
}

static int ranges_for(int w, struct range *R, int rich)
{
  int n = 0;
  R[n++] = (struct range){R_ONE, 0, 0}; R[n++] = (struct range){R_ALL, 0, 0};
  if (w > 1) { R[n++] = (struct range){R_ONE, w - 1, 0}; R[n++] = (struct range){R_RANGE, 0, 1}; R[n++] = (struct range){R_FROM, 1, 0}; R[n++] = (struct range){R_ODD, 0, 0}; R[n++] = (struct range){R_EVEN, 0, 0}; R[n++] = (struct range){R_WRAP, w - 1, 2}; }
  R[n++] = (struct range){R_ONE, w, 0};                 /* does not exist */
  if (rich) { R[n++] = (struct range){R_RANGE, 0, w}; R[n++] = (struct range){R_WRAP, 0, w + 1}; if (w > 2) { R[n++] = (struct range){R_ONE, 1, 0}; R[n++] = (struct range){R_RANGE, 1, w - 1}; R[n++] = (struct range){R_WRAP, 1, 2}; } R[n++] = (struct range){R_FROM, w, 0}; }   /* a range that ends before it starts is malformed (rejected since the repair of the range parser): it is in the malformed list, not here */
  return n;
}

static void gen_locs(hwloc_topology_t t, int rich)
{
  for (int i = 0; i < NLOCS; i++) hwloc_bitmap_free(LOCS[i].set);
  NLOCS = 0;
  struct lvl L[40]; int nl = levels_of(t, L);
  struct loc *l;
  l = newloc(); l->kind = LK_ALL; l = newloc(); l->kind = LK_ROOT;
  /* set literals */
  {
    hwloc_const_bitmap_t cs = hwloc_topology_get_complete_cpuset(t); int first = hwloc_bitmap_first(cs), last = hwloc_bitmap_last(cs);
    l = newloc(); l->kind = LK_SET; l->set = hwloc_bitmap_alloc(); hwloc_bitmap_set(l->set, first);
    l = newloc(); l->kind = LK_SET; l->set = hwloc_bitmap_alloc(); hwloc_bitmap_set(l->set, last);
    l = newloc(); l->kind = LK_SET; l->set = hwloc_bitmap_alloc(); hwloc_bitmap_set_range(l->set, first, first + 1);
    l = newloc(); l->kind = LK_SET; l->set = hwloc_bitmap_dup(hwloc_topology_get_topology_cpuset(t));
    l = newloc(); l->kind = LK_SET; l->set = hwloc_bitmap_alloc(); hwloc_bitmap_set(l->set, last + 1);       /* outside */
    l = newloc(); l->kind = LK_SET; l->set = hwloc_bitmap_alloc();                                            /* empty */
    if (rich) { l = newloc(); l->kind = LK_SET; l->set = hwloc_bitmap_alloc(); for (int i = first; i <= last; i += 2) hwloc_bitmap_set(l->set, i); }
  }
  struct range R[32], R2[32];
  for (int a = 0; a < nl; a++) {
    int nr = ranges_for(L[a].width, R, rich);
    for (int r = 0; r < nr; r++) { l = newloc(); l->kind = LK_OBJ; l->nlev = 1; l->lv[0].depth = L[a].depth; snprintf(l->lv[0].name, 32, "%s", L[a].name); l->lv[0].r = R[r]; }
    /* nested: a above b */
    for (int b = 0; b < nl; b++) {
      if (a == b) continue;
      if (L[a].depth >= 0 && L[b].depth >= 0 && L[b].depth <= L[a].depth) continue;
      if (L[a].depth < 0 && L[b].depth < 0) continue;
      hwloc_obj_t oa = hwloc_get_obj_by_depth(t, L[a].depth, 0); int wb = 0; hwloc_obj_t ob = NULL; while ((ob = hwloc_get_next_obj_by_depth(t, L[b].depth, ob)) != NULL) if (below(ob, oa->cpuset, oa->nodeset)) wb++;
      if (!wb) continue;
      static const struct range RA[] = { {R_ONE, 0, 0}, {R_ALL, 0, 0}, {R_ONE, 1, 0} };
      int nr2 = ranges_for(wb, R2, 0);
      for (int ra = 0; ra < (rich ? 3 : 2); ra++) for (int r2 = 0; r2 < nr2; r2++) {
        if (!rich && r2 % 2 && ra) continue;
        l = newloc(); l->kind = LK_OBJ; l->nlev = 2;
        l->lv[0].depth = L[a].depth; snprintf(l->lv[0].name, 32, "%s", L[a].name); l->lv[0].r = RA[ra];
        l->lv[1].depth = L[b].depth; snprintf(l->lv[1].name, 32, "%s", L[b].name); l->lv[1].r = R2[r2];
      }
      /* three levels (rich): a . b . PU */
      if (rich && L[b].depth >= 0 && L[b].depth < hwloc_topology_get_depth(t) - 1) {
        l = newloc(); l->kind = LK_OBJ; l->nlev = 3;
        l->lv[0].depth = L[a].depth; snprintf(l->lv[0].name, 32, "%s", L[a].name); l->lv[0].r = (struct range){R_ALL, 0, 0};
        l->lv[1].depth = L[b].depth; snprintf(l->lv[1].name, 32, "%s", L[b].name); l->lv[1].r = (struct range){R_ONE, 0, 0};
        l->lv[2].depth = hwloc_topology_get_depth(t) - 1; snprintf(l->lv[2].name, 32, "PU"); l->lv[2].r = (struct range){R_ONE, 0, 0};
      }
    }
  }
}

/* second/third operands: a reduced list (indexes into LOCS) */
static int reduced(int *idx, int max)
{
  int n = 0;
  for (int i = 0; i < NLOCS && n < max; i++) {
    struct loc *l = &LOCS[i];
    if (l->kind != LK_OBJ) { idx[n++] = i; continue; }
    if (l->nlev == 1 && (l->lv[0].r.kind == R_ONE || l->lv[0].r.kind == R_ODD || l->lv[0].r.kind == R_FROM)) idx[n++] = i;
    else if (l->nlev == 2 && l->lv[0].r.kind == R_ONE && l->lv[0].r.a == 0 && l->lv[1].r.kind == R_ONE && l->lv[1].r.a == 0) idx[n++] = i;
  }
  return n;
}

/* ------------------------------------------------------------------ stage calc */
struct expr { int n; int li[3]; char op[3]; };
static struct expr *EX; static int NEX, CAPEX;
static void addexpr(int n, int a, char oa, int b, char ob, int c, char oc)
{ if (NEX == CAPEX) { CAPEX = CAPEX ? CAPEX * 2 : 4096; EX = realloc(EX, (size_t)CAPEX * sizeof(*EX)); } EX[NEX] = (struct expr){ n, {a, b, c}, {oa, ob, oc} }; NEX++; }

static void gen_exprs(int rich)
{
  NEX = 0;
  static const char OPS[] = { 0, '~', 'x', '^' };
  int red[256]; int nred = reduced(red, rich ? 60 : 24);
  for (int a = 0; a < NLOCS; a++) {
    addexpr(1, a, 0, 0, 0, 0, 0);
    if (LOCS[a].kind != LK_OBJ || LOCS[a].nlev == 1) for (int o = 1; o < 4; o++) addexpr(1, a, OPS[o], 0, 0, 0, 0);   /* operator on an empty accumulator */
    for (int o = 0; o < 4; o++) for (int b = 0; b < nred; b++) {
      addexpr(2, a, 0, red[b], OPS[o], 0, 0);
      if (rich && b < 8) for (int o2 = 0; o2 < 4; o2++) for (int c = 0; c < 6 && c < nred; c++) addexpr(3, a, 0, red[b], OPS[o], red[c], OPS[o2]);
    }
  }
}

static void expr_line(struct sb *b, const struct expr *e, int fmt, struct loc **ls, struct loc *tmp)
{
  for (int i = 0; i < e->n; i++) { tmp[i] = LOCS[e->li[i]]; tmp[i].op = e->op[i]; loc_text(&tmp[i], fmt); ls[i] = &tmp[i]; if (i) sb_putc(b, ' '); sb_puts(b, tmp[i].text); }
}

static char **split_lines(char *s, int *n)
{
  int cap = 1024; char **L = malloc((size_t)cap * sizeof(char *)); *n = 0;
  char *p = s;
  while (*p) { char *e = strchr(p, '\n'); if (!e) { if (*n == cap) { cap *= 2; L = realloc(L, (size_t)cap * sizeof(char *)); } L[(*n)++] = p; break; } *e = 0; if (*n == cap) { cap *= 2; L = realloc(L, (size_t)cap * sizeof(char *)); } L[(*n)++] = p; p = e + 1; }
  return L;
}

/* parses "Type:idx" (as printed by --largest / -H leaf) */
static hwloc_obj_t obj_of_token(hwloc_topology_t t, const char *tok, int physical)
{
  char ty[64]; const char *c = strrchr(tok, ':'); if (!c) { /* root objects are printed without index */ hwloc_obj_type_t T; if (hwloc_type_sscanf(tok, &T, NULL, 0) == 0) { int d = hwloc_get_type_depth(t, T); if (d >= 0 || d == HWLOC_TYPE_DEPTH_NUMANODE) return hwloc_get_obj_by_depth(t, d, 0); } return NULL; }
  size_t l = (size_t)(c - tok); if (l >= sizeof(ty)) return NULL; memcpy(ty, tok, l); ty[l] = 0;
  hwloc_obj_type_t T; union hwloc_obj_attr_u at; if (hwloc_type_sscanf(ty, &T, &at, sizeof(at)) < 0) return NULL;
  int d = hwloc_get_type_depth_with_attr(t, T, &at, sizeof(at)); if (d == HWLOC_TYPE_DEPTH_UNKNOWN || d == HWLOC_TYPE_DEPTH_MULTIPLE) return NULL;
  unsigned idx = (unsigned)strtoul(c + 1, NULL, 10);
  if (!physical) return hwloc_get_obj_by_depth(t, d, idx);
  hwloc_obj_t o = NULL; while ((o = hwloc_get_next_obj_by_depth(t, d, o)) != NULL) if (o->os_index == idx) return o;
  return NULL;
}

static void check_line(const struct topo *tp, const struct optset *o, const struct expr *e, const char *line, const char *got, struct sb *feedback)
{
  hwloc_topology_t t = tp->t;
  struct loc tmp[3], *ls[3]; struct sb dummy; sb_init(&dummy); expr_line(&dummy, e, o->infmt, ls, tmp); sb_free(&dummy);
  hwloc_bitmap_t rc = hwloc_bitmap_alloc(), rn = hwloc_bitmap_alloc();
  eval_expr(t, ls, e->n, o, rc, rn);
  MC.transitions++;
  switch (o->mode) {
  case 0: {
    char *want = fmt_set(o->nodeset_out ? rn : rc, o->fmt);
    if (strcmp(want, got)) mc_violation("c20.calc.set", "%s :: hwloc-calc -i '%s' %s <<< '%s' prints '%s', the library gives '%s'", mc_case_text(), tp->input, o->name, line, got, want);
    free(want); break; }
  case 1: case 2: {
    hwloc_obj_t objs[1024]; int n = touched(t, o->depth, rc, rn, objs, 1024);
    if (o->mode == 1) { if (atoi(got) != n || !isdigit((unsigned char)got[0])) mc_violation("c20.calc.numberof", "%s :: hwloc-calc -i '%s' %s <<< '%s' prints '%s', %d objects intersect the set", mc_case_text(), tp->input, o->name, line, got, n); }
    else { struct sb w; sb_init(&w); for (int i = 0; i < n; i++) { unsigned ix = o->physical_out ? objs[i]->os_index : objs[i]->logical_index; if (ix == (unsigned)-1) sb_printf(&w, "%s-1", i ? "," : ""); else sb_printf(&w, "%s%u", i ? "," : "", ix); }
      if (strcmp(w.s ? w.s : "", got)) mc_violation("c20.calc.intersect", "%s :: hwloc-calc -i '%s' %s <<< '%s' prints '%s', expected '%s'", mc_case_text(), tp->input, o->name, line, got, w.s ? w.s : ""); sb_free(&w); }
    break; }
  case 3: {
    /* --largest: the objects listed are pairwise disjoint, inside the set, and their union is the set */
    if (!hwloc_bitmap_isincluded(rc, hwloc_topology_get_topology_cpuset(t))) break;   /* documented to fail for sets outside the topology */
    hwloc_bitmap_t u = hwloc_bitmap_alloc(); int bad = 0; char *copy = strdup(got), *save = NULL;
    int ambiguous = 0;
    for (const char *q = got; *q; ) { size_t n = strcspn(q, " "); if (!memchr(q, ':', n)) { char ty[64]; snprintf(ty, sizeof(ty), "%.*s", (int)(n < 63 ? n : 63), q); hwloc_obj_type_t T; union hwloc_obj_attr_u at; if (hwloc_type_sscanf(ty, &T, &at, sizeof(at)) == 0) { int dd = hwloc_get_type_depth_with_attr(t, T, &at, sizeof(at)); if (dd < 0 && dd != HWLOC_TYPE_DEPTH_NUMANODE) ambiguous = 1; else if (hwloc_get_nbobjs_by_depth(t, dd) > 1) ambiguous = 1; } } q += n; while (*q == ' ') q++; }
    if (ambiguous) { mc_count("largest_outputs_naming_objects_without_an_index", 1); hwloc_bitmap_free(u); free(copy); if (feedback) { char *w0 = fmt_set(rc, 0); sb_puts(feedback, w0); sb_putc(feedback, '\n'); free(w0); } hwloc_bitmap_free(rc); hwloc_bitmap_free(rn); return; }   /* objects without an OS index cannot be named physically: nothing to compare */
    for (char *tok = strtok_r(copy, " ", &save); tok; tok = strtok_r(NULL, " ", &save)) { hwloc_obj_t ob = obj_of_token(t, tok, o->physical_out); if (!ob || !ob->cpuset || hwloc_bitmap_intersects(u, ob->cpuset)) { bad = 1; break; } hwloc_bitmap_or(u, u, ob->cpuset); }
    if (bad || !hwloc_bitmap_isequal(u, rc)) { char *w = fmt_set(rc, 1), *g = fmt_set(u, 1); mc_violation("c20.calc.largest", "%s :: hwloc-calc -i '%s' %s <<< '%s' prints '%s' which denotes {%s}%s, the set is {%s}", mc_case_text(), tp->input, o->name, line, got, g, bad ? " (unknown or overlapping objects)" : "", w); free(w); free(g); }
    free(copy); hwloc_bitmap_free(u);
    if (feedback) { sb_puts(feedback, got); sb_putc(feedback, '\n'); }
    break; }
  case 4: {
    hwloc_bitmap_t g = hwloc_bitmap_alloc(); int ok = hwloc_bitmap_sscanf(g, got) == 0;
    if (!ok || hwloc_bitmap_weight(g) != (hwloc_bitmap_iszero(rc) ? 0 : 1) || !hwloc_bitmap_isincluded(g, rc)) { char *w = fmt_set(rc, 0); mc_violation("c20.calc.single", "%s :: hwloc-calc -i '%s' %s <<< '%s' prints '%s', not a single CPU of %s", mc_case_text(), tp->input, o->name, line, got, w); free(w); }
    hwloc_bitmap_free(g); break; }
  default: {
    /* -H a.b: the leaves listed are exactly the b-objects that the set touches */
    hwloc_obj_t objs[1024]; int n = touched(t, o->depth2, rc, rn, objs, 1024);
    /* only objects below an a-object that the set touches can be listed */
    int cnt = 0; for (const char *p = got; *p; ) { while (*p == ' ') p++; if (*p) { cnt++; while (*p && *p != ' ') p++; } }   /* a level without objects below a listed parent leaves a trailing separator */
    int expect = 0; for (int i = 0; i < n; i++) { hwloc_obj_t a = objs[i]; while (a && a->depth != o->depth) a = a->parent; if (a) expect++; }
    if (cnt != expect) mc_violation("c20.calc.hier.count", "%s :: hwloc-calc -i '%s' %s <<< '%s' lists %d leaves ('%.120s'), %d objects of the deepest type intersect the set", mc_case_text(), tp->input, o->name, line, cnt, got, expect);
    if (feedback) { sb_puts(feedback, got); sb_putc(feedback, '\n'); }
    }
  }
  hwloc_bitmap_free(rc); hwloc_bitmap_free(rn);
}

static int leaves_topology(const struct topo *tp, const struct optset *o, const struct expr *e)
{
  struct loc tmp[3], *ls[3]; struct sb d; sb_init(&d); expr_line(&d, e, o->infmt, ls, tmp); sb_free(&d);
  hwloc_bitmap_t rc = hwloc_bitmap_alloc(), rn = hwloc_bitmap_alloc(); eval_expr(tp->t, ls, e->n, o, rc, rn);
  int r = !hwloc_bitmap_isincluded(rc, hwloc_topology_get_topology_cpuset(tp->t));
  hwloc_bitmap_free(rc); hwloc_bitmap_free(rn); return r;
}
static void run_batch(const struct topo *tp, const struct optset *o, int from0, int to0)
{
  /* --largest is an error for a set that leaves the topology (partial line, failure status): those expressions
   * are not part of its batches; they are covered by the other option sets */
  static struct expr *saved; static int nsaved;
  struct expr *EXall = EX; int from = from0, to = to0;
  if (o->mode == 3) {
    saved = realloc(saved, (size_t)(to0 - from0) * sizeof(*saved)); nsaved = 0;
    for (int i = from0; i < to0; i++) if (!leaves_topology(tp, o, &EXall[i])) saved[nsaved++] = EXall[i];
    EX = saved; from = 0; to = nsaved;
    if (!nsaved) { EX = EXall; return; }
  }
  struct sb in; sb_init(&in);
  for (int i = from; i < to; i++) { struct loc tmp[3], *ls[3]; expr_line(&in, &EX[i], o->infmt, ls, tmp); sb_putc(&in, '\n'); }
  char *args[24]; int n = 0; args[n++] = (char *)"-i"; args[n++] = (char *)tp->input; args[n++] = (char *)"-q"; for (int i = 0; o->args[i]; i++) args[n++] = o->args[i]; args[n] = NULL;
  struct result r; run_tool("hwloc-calc", args, in.s ? in.s : "", &r);
  if (crashed("hwloc-calc", args, &r, "(batch on stdin)")) { /* locate the line: run each alone */
    for (int i = from; i < to; i++) { struct sb one; sb_init(&one); struct loc tmp[3], *ls[3]; expr_line(&one, &EX[i], o->infmt, ls, tmp); sb_putc(&one, '\n'); struct result r1; run_tool("hwloc-calc", args, one.s, &r1); if (crashed("hwloc-calc", args, &r1, one.s)) { result_free(&r1); sb_free(&one); break; } result_free(&r1); sb_free(&one); }
    result_free(&r); sb_free(&in); EX = EXall; return;
  }
  if (r.status != 0) { struct sb b; sb_init(&b); argtext(&b, "hwloc-calc", args); mc_violation("c20.calc.status", "%s :: %s exits with %d on valid input, stderr: %.200s", mc_case_text(), b.s, r.status, r.err); sb_free(&b); result_free(&r); sb_free(&in); EX = EXall; return; }
  int nl; char **L = split_lines(r.out, &nl); int nin; char *incopy = strdup(in.s ? in.s : ""); char **IL = split_lines(incopy, &nin);
  /* --largest prints nothing (and reports an error) for a set that leaves the topology: which lines are expected */
  char *printed = malloc((size_t)(to - from)); int expect_lines = 0;
  for (int i = from; i < to; i++) {
    printed[i - from] = 1;
    if (o->mode == 3) { struct loc tmp[3], *ls[3]; struct sb d; sb_init(&d); expr_line(&d, &EX[i], o->infmt, ls, tmp); sb_free(&d); hwloc_bitmap_t rc = hwloc_bitmap_alloc(), rn = hwloc_bitmap_alloc(); eval_expr(tp->t, ls, EX[i].n, o, rc, rn); if (!hwloc_bitmap_isincluded(rc, hwloc_topology_get_topology_cpuset(tp->t))) printed[i - from] = 0; hwloc_bitmap_free(rc); hwloc_bitmap_free(rn); }
    expect_lines += printed[i - from];
  }
  if (nl != expect_lines) mc_violation("c20.calc.lines", "%s :: hwloc-calc -i '%s' %s: %d input lines of which %d must print, %d output lines", mc_case_text(), tp->input, o->name, to - from, expect_lines, nl);
  else {
    struct sb fb; sb_init(&fb);
    for (int i = from, k0 = 0; i < to; i++) { if (!printed[i - from]) continue; check_line(tp, o, &EX[i], IL[i - from], L[k0], (o->mode == 3 || o->mode == 5) ? &fb : NULL); k0++; }
    /* feed --largest / -H output back: the same set (largest), the union of the listed leaves (-H) */
    if ((o->mode == 3 || o->mode == 5) && fb.s) {
      char *a2[24]; int m = 0; a2[m++] = (char *)"-i"; a2[m++] = (char *)tp->input; a2[m++] = (char *)"-q"; if (o->physical_out) a2[m++] = (char *)"-p"; a2[m] = NULL;
      struct result r2; run_tool("hwloc-calc", a2, fb.s, &r2);
      if (!crashed("hwloc-calc", a2, &r2, "(feedback batch)")) {
        int n2; char **L2 = split_lines(r2.out, &n2);
        int k = 0; struct optset plain = *o; plain.mode = 0;
        for (int i = from; i < to && k < n2; i++) {
          struct loc tmp[3], *ls[3]; struct sb d; sb_init(&d); expr_line(&d, &EX[i], o->infmt, ls, tmp); sb_free(&d);
          hwloc_bitmap_t rc = hwloc_bitmap_alloc(), rn = hwloc_bitmap_alloc(); eval_expr(tp->t, ls, EX[i].n, o, rc, rn);
          if (o->mode == 3 && !hwloc_bitmap_isincluded(rc, hwloc_topology_get_topology_cpuset(tp->t))) { hwloc_bitmap_free(rc); hwloc_bitmap_free(rn); continue; }   /* nothing was recorded for it */
          hwloc_bitmap_t want = hwloc_bitmap_alloc();
          if (o->mode == 3) hwloc_bitmap_copy(want, rc);
          else { hwloc_obj_t objs[1024]; int n = touched(tp->t, o->depth2, rc, rn, objs, 1024); for (int q = 0; q < n; q++) { hwloc_obj_t a = objs[q]; while (a && a->depth != o->depth) a = a->parent; if (a) hwloc_bitmap_or(want, want, objs[q]->cpuset); } }
          char *w = fmt_set(want, 0);
          if (strcmp(w, L2[k])) mc_violation(o->mode == 3 ? "c20.calc.largest.feedback" : "c20.calc.hier.feedback", "%s :: hwloc-calc -i '%s' %s <<< '%s' -> '%.150s'; feeding that back gives %s, expected %s", mc_case_text(), tp->input, o->name, IL[i - from], "(see the first run)", L2[k], w);
          free(w); hwloc_bitmap_free(want); hwloc_bitmap_free(rc); hwloc_bitmap_free(rn); k++;
        }
        free(L2);
      }
      result_free(&r2);
    }
    sb_free(&fb);
  }
  free(printed); free(L); free(IL); free(incopy); result_free(&r); sb_free(&in);
  EX = EXall;
}

static struct optset OPTS[96]; static int NOPTS;
static void build_opts(const struct topo *tp, int rich)
{
  for (int i = 0; i < NOPTS; i++) for (int k = 0; OPTS[i].args[k]; k++) free(OPTS[i].args[k]);
  NOPTS = 0; memset(OPTS, 0, sizeof(OPTS));
  struct optset *o;
#define NEWOPT(nm) (o = &OPTS[NOPTS++], memset(o, 0, sizeof(*o)), o->name = nm, o)
  NEWOPT("");
  NEWOPT("--cof list"); o->args[0] = strdup("--cof"); o->args[1] = strdup("list"); o->fmt = 1;
  NEWOPT("--cof taskset"); o->args[0] = strdup("--cof"); o->args[1] = strdup("taskset"); o->fmt = 2;
  NEWOPT("--taskset"); o->args[0] = strdup("--taskset"); o->fmt = 2;
  NEWOPT("--cif list --cof list"); o->args[0] = strdup("--cif"); o->args[1] = strdup("list"); o->args[2] = strdup("--cof"); o->args[3] = strdup("list"); o->fmt = 1; o->infmt = 1;
  NEWOPT("--cif taskset"); o->args[0] = strdup("--cif"); o->args[1] = strdup("taskset"); o->infmt = 2;
  NEWOPT("--cif hwloc"); o->args[0] = strdup("--cif"); o->args[1] = strdup("hwloc");
  NEWOPT("-p"); o->args[0] = strdup("-p"); o->physical_in = o->physical_out = 1;
  NEWOPT("--pi"); o->args[0] = strdup("--pi"); o->physical_in = 1;
  NEWOPT("--no"); o->args[0] = strdup("--no"); o->nodeset_out = 1;
  NEWOPT("-n"); o->args[0] = strdup("-n"); o->nodeset_in = o->nodeset_out = 1;
  NEWOPT("--ni"); o->args[0] = strdup("--ni"); o->nodeset_in = 1;
  NEWOPT("--largest"); o->args[0] = strdup("--largest"); o->mode = 3;
  NEWOPT("--largest -p"); o->args[0] = strdup("--largest"); o->args[1] = strdup("-p"); o->mode = 3; o->physical_in = o->physical_out = 1;
  NEWOPT("--single"); o->args[0] = strdup("--single"); o->mode = 4;
  struct lvl L[40]; int nl = levels_of(tp->t, L);
  static char names[200][64]; int nn = 0;
  for (int a = 0; a < nl && NOPTS < 90; a++) {
    snprintf(names[nn], 64, "-N %s", L[a].name); NEWOPT(names[nn++]); o->args[0] = strdup("-N"); o->args[1] = strdup(L[a].name); o->mode = 1; o->depth = L[a].depth;
    snprintf(names[nn], 64, "-I %s", L[a].name); NEWOPT(names[nn++]); o->args[0] = strdup("-I"); o->args[1] = strdup(L[a].name); o->mode = 2; o->depth = L[a].depth;
    if (rich || a % 2 == 0) { snprintf(names[nn], 64, "-I %s --po", L[a].name); NEWOPT(names[nn++]); o->args[0] = strdup("-I"); o->args[1] = strdup(L[a].name); o->args[2] = strdup("--po"); o->mode = 2; o->depth = L[a].depth; o->physical_out = 1; }
  }
  /* -H a.b for normal levels a above b */
  for (int a = 0; a < nl && NOPTS < 94; a++) for (int b = a + 1; b < nl && NOPTS < 94; b++) {
    if (L[a].depth < 0 || L[b].depth < 0 || L[a].depth == 0) continue;
    if (!rich && b != nl - 1 && !(L[b].depth == hwloc_topology_get_depth(tp->t) - 1)) continue;
    char hs[80]; snprintf(hs, sizeof(hs), "%s.%s", L[a].name, L[b].name);
    snprintf(names[nn], 64, "-H %s", hs); NEWOPT(names[nn++]); o->args[0] = strdup("-H"); o->args[1] = strdup(hs); o->mode = 5; o->depth = L[a].depth; o->depth2 = L[b].depth;
  }
}

static void stage_calc(void)
{
  uint64_t idx = 0; int ntop = NTP;
  for (int ti = 0; ti < ntop; ti++) {
    const struct topo *tp = &TP[ti];
    /* quick: every second synthetic description and every XML fixture (CPU-less nodes, asymmetric trees, disallowed PUs) */
    if (!MC.thorough && tp->src->kind == USRC_SYNTHETIC && (ti % 2)) continue;
    gen_locs(tp->t, MC.thorough); gen_exprs(MC.thorough); build_opts(tp, MC.thorough);
    if (MC.part == 0) { mc_count("locations_generated", (uint64_t)NLOCS); mc_count("expressions_generated", (uint64_t)NEX); mc_count("option_sets", (uint64_t)NOPTS); }
    MC.states++;
    const int B = 400;
    for (int oi = 0; oi < NOPTS; oi++) for (int from = 0; from < NEX; from += B, idx++) {
      if (!mc_mine(idx) || mc_deadline()) continue;
      int to = from + B > NEX ? NEX : from + B;
      if (!mc_case("calc %s | %s | expressions %d-%d", tp->input, OPTS[oi].name, from, to - 1)) continue;
      run_batch(tp, &OPTS[oi], from, to);
    }
    /* the same single locations on the command line (argv path), default options */
    for (int a = 0; a < NLOCS; a++, idx++) {
      if (!mc_mine(idx) || mc_deadline()) continue;
      struct loc l = LOCS[a]; loc_text(&l, 0);
      if (!mc_case("calc %s | argv '%s'", tp->input, l.text)) continue;
      char *args[] = { (char *)"-i", (char *)tp->input, (char *)"-q", l.text, NULL };
      struct result r; run_tool("hwloc-calc", args, "", &r); MC.transitions++;
      if (!crashed("hwloc-calc", args, &r, NULL)) {
        struct loc *ls[1] = { &l }; struct optset o0; memset(&o0, 0, sizeof(o0));
        hwloc_bitmap_t rc = hwloc_bitmap_alloc(), rn = hwloc_bitmap_alloc(); eval_expr(tp->t, ls, 1, &o0, rc, rn);
        char *want = fmt_set(rc, 0); size_t wl = strlen(want);
        if (r.status != 0 || strncmp(r.out, want, wl) || strcmp(r.out + wl, "\n")) mc_violation("c20.calc.argv", "%s :: hwloc-calc -i '%s' -q '%s' exits %d and prints '%.100s', expected '%s'", mc_case_text(), tp->input, l.text, r.status, r.out, want);
        free(want); hwloc_bitmap_free(rc); hwloc_bitmap_free(rn);
      }
      result_free(&r);
    }
    if (ti == 0) mc_sample("calc %s | --cof list | e.g. '%s' then '~%s'", tp->input, "core:all", "pu:0");
  }
}

/* the XML export drops bytes outside printable ASCII by design (hwloc__xml_export_safestrdup): infos named UTF8 of the
 * fixtures are not part of what must survive an export (same rule as in the C05 check) */
static void strip_nonascii_infos(hwloc_topology_t t)
{
  hwloc_obj_t *objs; unsigned n = canon_walk(t, &objs);
  for (unsigned i = 0; i < n; i++) hwloc_modify_infos(&objs[i]->infos, HWLOC_MODIFY_INFOS_OP_REMOVE, "UTF8", NULL);
  free(objs);
}

/* ------------------------------------------------------------------ stage other */
static hwloc_topology_t distrib_topology(const struct topo *tp);
static void distrib_checks(const struct topo *tp, uint64_t *idx)
{
  hwloc_topology_t t = distrib_topology(tp); if (!t) return; int pus = hwloc_bitmap_weight(hwloc_topology_get_topology_cpuset(t));
  static const char *VAR[] = { "", "--single", "--cof list", "--taskset", "--reverse" };
  for (int v = 0; v < 5; v++) for (int n = 1; n <= 2 * pus + 1; n++, (*idx)++) {
    if (!mc_mine(*idx) || mc_deadline()) continue;
    if (!mc_case("distrib %s | %s %d", tp->input, VAR[v], n)) continue;
    char ns[16]; snprintf(ns, sizeof(ns), "%d", n);
    char *args[8]; int m = 0; args[m++] = (char *)"-i"; args[m++] = (char *)tp->input;
    if (v == 1) args[m++] = (char *)"--single"; if (v == 2) { args[m++] = (char *)"--cof"; args[m++] = (char *)"list"; } if (v == 3) args[m++] = (char *)"--taskset"; if (v == 4) args[m++] = (char *)"--reverse";
    args[m++] = ns; args[m] = NULL;
    struct result r; run_tool("hwloc-distrib", args, "", &r); MC.transitions++;
    if (crashed("hwloc-distrib", args, &r, NULL)) { result_free(&r); continue; }
    if (r.status != 0) { mc_violation("c20.distrib.status", "%s :: exits %d, stderr %.200s", mc_case_text(), r.status, r.err); result_free(&r); continue; }
    int nl; char **L = split_lines(r.out, &nl);
    if (nl != n) mc_violation("c20.distrib.count", "%s :: %d lines printed", mc_case_text(), nl);
    else {
      hwloc_bitmap_t *ref = calloc((size_t)n, sizeof(*ref)); hwloc_obj_t root = hwloc_get_root_obj(t);
      hwloc_distrib(t, &root, 1, ref, (unsigned)n, INT_MAX, v == 4 ? HWLOC_DISTRIB_FLAG_REVERSE : 0);
      hwloc_bitmap_t u = hwloc_bitmap_alloc(), g = hwloc_bitmap_alloc(); int overlap = 0;
      for (int i = 0; i < n; i++) {
        int ok = (v == 2 ? hwloc_bitmap_list_sscanf(g, L[i]) : v == 3 ? hwloc_bitmap_taskset_sscanf(g, L[i]) : hwloc_bitmap_sscanf(g, L[i])) == 0;
        if (v == 1) hwloc_bitmap_singlify(ref[i]);
        char *w = fmt_set(ref[i], v == 2 ? 1 : v == 3 ? 2 : 0);
        if (!ok || strcmp(w, L[i])) mc_violation("c20.distrib.library", "%s :: line %d is '%s', hwloc_distrib gives '%s'", mc_case_text(), i, L[i], w);
        if (ok) { if (hwloc_bitmap_iszero(g) || !hwloc_bitmap_isincluded(g, hwloc_topology_get_topology_cpuset(t))) mc_violation("c20.distrib.set", "%s :: line %d '%s' is empty or leaves the topology", mc_case_text(), i, L[i]);
                  if (v == 1 && hwloc_bitmap_weight(g) != 1) mc_violation("c20.distrib.single", "%s :: line %d '%s' is not a single CPU", mc_case_text(), i, L[i]);
                  if (hwloc_bitmap_intersects(u, g)) overlap = 1; hwloc_bitmap_or(u, u, g); }
        free(w); hwloc_bitmap_free(ref[i]);
      }
      if (v != 1 && !hwloc_bitmap_isequal(u, hwloc_topology_get_topology_cpuset(t))) mc_violation("c20.distrib.cover", "%s :: the union of the sets is not the topology cpuset", mc_case_text());
      if (overlap && n <= pus) mc_violation("c20.distrib.disjoint", "%s :: overlapping sets although n <= %d PUs", mc_case_text(), pus);
      hwloc_bitmap_free(u); hwloc_bitmap_free(g); free(ref);
    }
    free(L); result_free(&r);
  }
}

extern char *program_invocation_name, *program_invocation_short_name;
/* hwloc-distrib with --from / --to / --at for every level, alone and after --restrict to the first half of the PUs
 * (the restriction may remove or merge levels: the depths must be looked up in the restricted topology) */
/* what hwloc-distrib configures: default type filters (no instruction caches, no I/O, Groups merged) and IMPORT_SUPPORT */
static hwloc_topology_t distrib_topology(const struct topo *tp)
{
  static hwloc_topology_t cache_t; static const struct topo *cache_tp;
  if (cache_tp != tp) { if (cache_t) hwloc_topology_destroy(cache_t); cache_t = NULL; cache_tp = tp;
    struct ucfg c; ucfg_default(&c); c.flags = HWLOC_TOPOLOGY_FLAG_IMPORT_SUPPORT; if (univ_load(&cache_t, tp->src, &c)) cache_t = NULL; }
  return cache_t;
}
static void distrib_levels_checks(const struct topo *tp, uint64_t *idx)
{
  hwloc_topology_t t0 = distrib_topology(tp); if (!t0) return;
  struct lvl L[40]; int nl = levels_of(t0, L);
  int pus = hwloc_bitmap_weight(hwloc_topology_get_topology_cpuset(t0));
  hwloc_bitmap_t half = hwloc_bitmap_alloc(); { int k = 0, i; hwloc_bitmap_foreach_begin(i, hwloc_topology_get_topology_cpuset(t0)) { if (k++ < (pus + 1) / 2) hwloc_bitmap_set(half, (unsigned)i); } hwloc_bitmap_foreach_end(); }
  char *halfs; hwloc_bitmap_asprintf(&halfs, half);
  static const char *MODE[] = { "--to", "--from", "--at" };
  for (int restricted = 0; restricted < 2; restricted++) for (int a = 0; a < nl; a++) for (int mode = 0; mode < 3; mode++) {
    if (L[a].depth < 0 || isdigit((unsigned char)L[a].name[0])) continue;     /* normal levels that have a type name */
    static const int NS[] = { 1, 2, 3, 0, -1 };      /* 0 = #PU, -1 = #PU + 1 */
    for (int ni = 0; ni < 5; ni++, (*idx)++) {
      if (!mc_mine(*idx) || mc_deadline()) continue;
      int n = NS[ni] > 0 ? NS[ni] : NS[ni] == 0 ? pus : pus + 1;
      if (!mc_case("distrib %s | %s%s %s %s %d", tp->input, restricted ? "--restrict " : "", restricted ? halfs : "", MODE[mode], L[a].name, n)) continue;
      char ns[16]; snprintf(ns, sizeof(ns), "%d", n);
      char *args[12]; int m = 0; args[m++] = (char *)"-i"; args[m++] = (char *)tp->input;
      if (restricted) { args[m++] = (char *)"--restrict"; args[m++] = halfs; }
      args[m++] = (char *)MODE[mode]; args[m++] = L[a].name; args[m++] = ns; args[m] = NULL;
      struct result r; run_tool("hwloc-distrib", args, "", &r); MC.transitions++;
      if (crashed("hwloc-distrib", args, &r, NULL)) { result_free(&r); continue; }
      /* reference: the library on a copy restricted the same way */
      hwloc_topology_t t; if (hwloc_topology_dup(&t, t0) < 0) { result_free(&r); continue; }
      if (restricted) hwloc_topology_restrict(t, half, 0);
      hwloc_obj_type_t ty; union hwloc_obj_attr_u at; int depth = HWLOC_TYPE_DEPTH_UNKNOWN;
      if (hwloc_type_sscanf(L[a].name, &ty, &at, sizeof(at)) == 0) depth = hwloc_get_type_depth_with_attr(t, ty, &at, sizeof(at));
      if (depth < 0) { if (r.status == 0) mc_violation("c20.distrib.level.status", "%s :: the type has no (single) level in the topology the tool works on, exit status 0", mc_case_text()); }
      else if (r.status != 0) mc_violation("c20.distrib.status", "%s :: exits %d, stderr %.200s", mc_case_text(), r.status, r.err);
      else {
        int from = mode == 0 ? 0 : depth, to = mode == 1 ? INT_MAX : depth;
        unsigned chunks = hwloc_get_nbobjs_by_depth(t, from); hwloc_obj_t *roots = malloc(chunks * sizeof(*roots)); for (unsigned i = 0; i < chunks; i++) roots[i] = hwloc_get_obj_by_depth(t, from, i);
        hwloc_bitmap_t *ref = calloc((size_t)n, sizeof(*ref)); hwloc_distrib(t, roots, chunks, ref, (unsigned)n, to, 0);
        int nlines; char **Ls = split_lines(r.out, &nlines);
        if (nlines != n) mc_violation("c20.distrib.count", "%s :: %d lines printed", mc_case_text(), nlines);
        else for (int i = 0; i < n; i++) { char *w = fmt_set(ref[i], 0); if (strcmp(w, Ls[i])) { mc_violation("c20.distrib.library", "%s :: line %d is '%s', hwloc_distrib gives '%s'", mc_case_text(), i, Ls[i], w); free(w); break; } free(w); }
        for (int i = 0; i < n; i++) hwloc_bitmap_free(ref[i]);
        free(ref); free(roots); free(Ls); MC.states++;
      }
      hwloc_topology_destroy(t); result_free(&r);
    }
  }
  free(halfs); hwloc_bitmap_free(half);
}

static void lstopo_checks(const struct topo *tp, uint64_t *idx)
{
  /* the library records the name of the process that loads a topology (ProcessName): be lstopo for these loads */
  char *pin = program_invocation_name, *pisn = program_invocation_short_name;
  program_invocation_name = (char *)"lstopo-no-graphics"; program_invocation_short_name = (char *)"lstopo-no-graphics";
  /* what lstopo configures: every type kept, I/O types KEEP_IMPORTANT, IMPORT_SUPPORT */
  struct ucfg c; ucfg_default(&c); c.all_filter = HWLOC_TYPE_FILTER_KEEP_ALL; c.group_setter = 3; c.group_filter = HWLOC_TYPE_FILTER_KEEP_IMPORTANT; c.flags = HWLOC_TOPOLOGY_FLAG_IMPORT_SUPPORT;
  for (int v = 0; v < 2; v++, (*idx)++) {
    if (!mc_mine(*idx) || mc_deadline()) continue;
    if (!mc_case("lstopo %s | --of xml%s", tp->input, v ? " --export-xml-flags v2" : "")) continue;
    hwloc_topology_t t; if (univ_load(&t, tp->src, &c)) continue;
    char *args[10]; int m = 0; args[m++] = (char *)"-i"; args[m++] = (char *)tp->input; args[m++] = (char *)"--of"; args[m++] = (char *)"xml"; if (v) { args[m++] = (char *)"--export-xml-flags"; args[m++] = (char *)"v2"; } args[m] = NULL;
    struct result r; run_tool("lstopo-no-graphics", args, "", &r); MC.transitions++;
    if (!crashed("lstopo-no-graphics", args, &r, NULL)) {
      if (r.status != 0) mc_violation("c20.lstopo.status", "%s :: exits %d, stderr %.200s", mc_case_text(), r.status, r.err);
      else {
        char *x = NULL; int xl = 0; hwloc_topology_export_xmlbuffer(t, &x, &xl, v ? HWLOC_TOPOLOGY_EXPORT_XML_FLAG_V2 : 0);
        if (!x || strcmp(x, r.out)) { size_t d = 0; while (x && x[d] && x[d] == r.out[d]) d++; mc_violation("c20.lstopo.xml.library", "%s :: the XML printed by lstopo differs from hwloc_topology_export_xmlbuffer() at byte %zu: lstopo '%.60s' library '%.60s'", mc_case_text(), d, r.out + d, x ? x + d : "(export failed)"); }
        /* reload what lstopo printed */
        hwloc_topology_t rl; hwloc_topology_init(&rl); hwloc_topology_set_all_types_filter(rl, HWLOC_TYPE_FILTER_KEEP_ALL); hwloc_topology_set_flags(rl, HWLOC_TOPOLOGY_FLAG_IMPORT_SUPPORT);
        if (hwloc_topology_set_xmlbuffer(rl, r.out, (int)strlen(r.out) + 1) < 0 || hwloc_topology_load(rl) < 0) mc_violation("c20.lstopo.xml.reload", "%s :: the XML printed by lstopo does not load", mc_case_text());
        else { strip_nonascii_infos(t); strip_nonascii_infos(rl); unsigned fl = v ? CANON_STRUCT : CANON_XML; char *a = canon_str(t, fl), *b = canon_str(rl, fl); if (strcmp(a, b)) mc_violation("c20.lstopo.xml.equivalent", "%s :: reloading lstopo's XML gives another topology: %s", mc_case_text(), canon_diff(a, b)); free(a); free(b); MC.states++; }
        hwloc_topology_destroy(rl);
        if (x) hwloc_free_xmlbuffer(t, x);
      }
    }
    result_free(&r); hwloc_topology_destroy(t);
  }
  static const char *SYNV[] = { "", "no_extended_types", "no_attrs", "v1", "ignore_memory" };
  for (int v = 0; v < 5; v++, (*idx)++) {
    if (!mc_mine(*idx) || mc_deadline()) continue;
    if (!mc_case("lstopo %s | --of synthetic %s", tp->input, SYNV[v])) continue;
    hwloc_topology_t t; if (univ_load(&t, tp->src, &c)) continue;
    static const unsigned long SF[] = { 0, HWLOC_TOPOLOGY_EXPORT_SYNTHETIC_FLAG_NO_EXTENDED_TYPES, HWLOC_TOPOLOGY_EXPORT_SYNTHETIC_FLAG_NO_ATTRS, HWLOC_TOPOLOGY_EXPORT_SYNTHETIC_FLAG_V1, HWLOC_TOPOLOGY_EXPORT_SYNTHETIC_FLAG_IGNORE_MEMORY };
    char *args[10]; int m = 0; args[m++] = (char *)"-i"; args[m++] = (char *)tp->input; args[m++] = (char *)"--of"; args[m++] = (char *)"synthetic"; if (v) { args[m++] = (char *)"--export-synthetic-flags"; args[m++] = (char *)SYNV[v]; } args[m] = NULL;
    struct result r; run_tool("lstopo-no-graphics", args, "", &r); MC.transitions++;
    if (!crashed("lstopo-no-graphics", args, &r, NULL)) {
      static char buf[65536]; int rc = hwloc_topology_export_synthetic(t, buf, sizeof(buf), SF[v]);
      if (rc < 0) { if (r.status == 0) mc_violation("c20.lstopo.synthetic.status", "%s :: the library refuses to export this topology, lstopo exits 0 and prints '%.100s'", mc_case_text(), r.out); }
      else {
        size_t bl = strlen(buf);
        if (r.status != 0 || strncmp(r.out, buf, bl) || strcmp(r.out + bl, "\n")) mc_violation("c20.lstopo.synthetic.library", "%s :: lstopo exits %d and prints '%.200s', hwloc_topology_export_synthetic() gives '%s'", mc_case_text(), r.status, r.out, buf);
        else if (v == 0) {
          /* reload */
          hwloc_topology_t rl; hwloc_topology_init(&rl); hwloc_topology_set_all_types_filter(rl, HWLOC_TYPE_FILTER_KEEP_ALL);
          if (hwloc_topology_set_synthetic(rl, buf) < 0 || hwloc_topology_load(rl) < 0) mc_violation("c20.lstopo.synthetic.reload", "%s :: '%s' does not load", mc_case_text(), buf);
          else MC.states++;   /* whether the reloaded topology exports the same string again is the library's business (C07: known findings on merged levels) */
          hwloc_topology_destroy(rl);
        }
      }
    }
    result_free(&r); hwloc_topology_destroy(t);
  }
  program_invocation_name = pin; program_invocation_short_name = pisn;
}

/* long synthetic descriptions: lstopo switches from a stack buffer to a heap buffer at 1024 bytes; sweep the export
 * length across that boundary with irregular PU numberings (explicit index lists) */
static void lstopo_long_checks(uint64_t *idx)
{
  for (int n = 150; n <= 330; n += (MC.thorough ? 1 : 3), (*idx)++) {
    if (!mc_mine(*idx) || mc_deadline()) continue;
    struct sb d; sb_init(&d); sb_printf(&d, "pack:2 core:%d pu:1(indexes=", n / 2); int tot = (n / 2) * 2; for (int i = 0; i < tot; i++) sb_printf(&d, "%s%d", i ? "," : "", (i * 7) % tot == 0 && i ? 0 : (i * 7) % tot);
    sb_puts(&d, ")");
    /* (i*7) mod tot is a permutation when tot is not a multiple of 7 */
    if (tot % 7 == 0) { sb_free(&d); continue; }
    if (!mc_case("lstopo long synthetic with %d PUs numbered i*7 mod %d", tot, tot)) { sb_free(&d); continue; }
    hwloc_topology_t t; hwloc_topology_init(&t); hwloc_topology_set_all_types_filter(t, HWLOC_TYPE_FILTER_KEEP_ALL); hwloc_topology_set_io_types_filter(t, HWLOC_TYPE_FILTER_KEEP_IMPORTANT); hwloc_topology_set_flags(t, HWLOC_TOPOLOGY_FLAG_IMPORT_SUPPORT);
    if (hwloc_topology_set_synthetic(t, d.s) < 0 || hwloc_topology_load(t) < 0) { hwloc_topology_destroy(t); sb_free(&d); continue; }
    static char buf[65536]; int rc = hwloc_topology_export_synthetic(t, buf, sizeof(buf), 0);
    char *args[] = { (char *)"-i", d.s, (char *)"--of", (char *)"synthetic", NULL };
    struct result r; run_tool("lstopo-no-graphics", args, "", &r); MC.transitions++;
    if (!crashed("lstopo-no-graphics", args, &r, NULL) && rc >= 0) {
      size_t bl = strlen(buf); mc_count_max("longest_synthetic_export_compared", bl);
      if (r.status != 0 || strncmp(r.out, buf, bl) || strcmp(r.out + bl, "\n")) mc_violation("c20.lstopo.synthetic.library", "%s :: the library export has %zu bytes, lstopo exits %d and prints %zu bytes ending in '%.20s'", mc_case_text(), bl, r.status, strlen(r.out), strlen(r.out) > 20 ? r.out + strlen(r.out) - 20 : r.out);
      else MC.states++;
    }
    result_free(&r); hwloc_topology_destroy(t); sb_free(&d);
  }
}

/* hwloc-diff + hwloc-patch on generated pairs */
static void diffpatch_checks(const struct topo *tp, uint64_t *idx)
{
  /* what hwloc-diff and hwloc-patch configure: every type kept, disallowed objects included, support imported
   * (the XML files given to the tools then contain the disallowed PUs of the fixture that has some) */
  static hwloc_topology_t cache_t; static const struct topo *cache_tp;
  if (cache_tp != tp) { if (cache_t) hwloc_topology_destroy(cache_t); cache_t = NULL; cache_tp = tp;
    struct ucfg c; ucfg_default(&c); c.all_filter = HWLOC_TYPE_FILTER_KEEP_ALL; c.flags = HWLOC_TOPOLOGY_FLAG_INCLUDE_DISALLOWED | HWLOC_TOPOLOGY_FLAG_IMPORT_SUPPORT;
    if (univ_load(&cache_t, tp->src, &c)) cache_t = NULL; }
  if (!cache_t) return;
  hwloc_topology_t t = cache_t;
  for (int edit = 0; edit < 4; edit++) for (int k = 0; k < 4; k++, (*idx)++) {
    if (!mc_mine(*idx) || mc_deadline()) continue;
    if (!mc_case("diff+patch %s | edit %d on object choice %d", tp->input, edit, k)) continue;
    hwloc_topology_t t2; if (hwloc_topology_dup(&t2, t) < 0) continue;
    /* choose the object: first PU, last object of the middle level, the first NUMA node */
    hwloc_obj_t o = k == 3 ? hwloc_get_obj_by_type(t2, HWLOC_OBJ_PU, hwloc_get_nbobjs_by_type(t2, HWLOC_OBJ_PU) - 1) : k == 0 ? hwloc_get_obj_by_type(t2, HWLOC_OBJ_PU, 0) : k == 1 ? hwloc_get_obj_by_depth(t2, hwloc_topology_get_depth(t2) / 2, hwloc_get_nbobjs_by_depth(t2, hwloc_topology_get_depth(t2) / 2) - 1) : hwloc_get_obj_by_type(t2, HWLOC_OBJ_NUMANODE, 0);
    if (!o) { hwloc_topology_destroy(t2); continue; }
    switch (edit) {
    case 0: hwloc_obj_add_info(o, "C20Key", "value one"); break;
    case 1: free(o->name); o->name = strdup("renamed by c20"); break;
    case 2: hwloc_obj_add_info(o, "A", "1"); hwloc_obj_add_info(o, "B", "<&>\"'"); break;
    default: if (o->type == HWLOC_OBJ_NUMANODE) { o->attr->numanode.local_memory += 4096; for (hwloc_obj_t a = o; a; a = a->parent) a->total_memory += 4096; } else hwloc_obj_add_info(o, "C20Key", ""); break;
    }
    char f1[700], f2[700], fd[700], fp[700]; snprintf(f1, sizeof(f1), "%s/c20.%d.t1.xml", TMPD, getpid()); snprintf(f2, sizeof(f2), "%s/c20.%d.t2.xml", TMPD, getpid()); snprintf(fd, sizeof(fd), "%s/c20.%d.diff.xml", TMPD, getpid()); snprintf(fp, sizeof(fp), "%s/c20.%d.patched.xml", TMPD, getpid());
    unlink(fd); unlink(fp);
    hwloc_topology_export_xml(t, f1, 0); hwloc_topology_export_xml(t2, f2, 0);
    /* what does the library say about this pair */
    hwloc_topology_diff_t d = NULL; int drc = hwloc_topology_diff_build(t, t2, 0, &d); int complex = 0; for (hwloc_topology_diff_t e = d; e; e = e->generic.next) if (e->generic.type == HWLOC_TOPOLOGY_DIFF_TOO_COMPLEX) complex = 1; hwloc_topology_diff_destroy(d);
    char *a1[] = { f1, f2, fd, NULL }; struct result r; run_tool("hwloc-diff", a1, "", &r); MC.transitions++;
    if (!crashed("hwloc-diff", a1, &r, NULL)) {
      if (drc == 0 && !complex) {
        if (r.status != 0) mc_violation("c20.diff.status", "%s :: hwloc-diff exits %d on a pair the library diffs, stderr %.200s", mc_case_text(), r.status, r.err);
        else {
          char *a2[] = { f1, fd, fp, NULL }; struct result r2; run_tool("hwloc-patch", a2, "", &r2); MC.transitions++;
          if (!crashed("hwloc-patch", a2, &r2, NULL)) {
            if (r2.status != 0) mc_violation("c20.patch.status", "%s :: hwloc-patch exits %d, stderr %.200s", mc_case_text(), r2.status, r2.err);
            else {
              hwloc_topology_t p; hwloc_topology_init(&p); hwloc_topology_set_all_types_filter(p, HWLOC_TYPE_FILTER_KEEP_ALL); hwloc_topology_set_flags(p, HWLOC_TOPOLOGY_FLAG_INCLUDE_DISALLOWED | HWLOC_TOPOLOGY_FLAG_IMPORT_SUPPORT);
              if (hwloc_topology_set_xml(p, fp) < 0 || hwloc_topology_load(p) < 0) mc_violation("c20.patch.reload", "%s :: the patched XML does not load", mc_case_text());
              else { strip_nonascii_infos(t2); strip_nonascii_infos(p); char *a = canon_str(t2, CANON_XML), *b = canon_str(p, CANON_XML); if (strcmp(a, b)) mc_violation("c20.patch.result", "%s :: diff then patch does not reproduce the second topology: %s", mc_case_text(), canon_diff(a, b)); else MC.states++; free(a); free(b); }
              hwloc_topology_destroy(p);
            }
          }
          result_free(&r2);
        }
      }
    }
    result_free(&r); hwloc_topology_destroy(t2);
    unlink(f1); unlink(f2); unlink(fd); unlink(fp);
  }
}

/* malformed command lines: non-zero exit status, no crash */
static void malformed_checks(const struct topo *tp, uint64_t *idx)
{
  static const struct { const char *tool; const char *args[6]; } BAD[] = {
    {"hwloc-calc", {"--foo", "all"}}, {"hwloc-calc", {"all", "-N"}}, {"hwloc-calc", {"--cof", "bar", "all"}}, {"hwloc-calc", {"--cif", "bar", "all"}}, {"hwloc-calc", {"all", "--sep"}},
    {"hwloc-calc", {"--best-memattr", "nosuchattr", "all"}}, {"hwloc-calc", {"--cif", "systemd-dbus-api", "all"}},
    {"hwloc-calc", {"-N", "nosuchtype", "all"}}, {"hwloc-calc", {"-I", "nosuchtype", "all"}}, {"hwloc-calc", {"-H", "nosuchtype.pu", "all"}}, {"hwloc-calc", {"-H", "pu.misc", "all"}},
    {"hwloc-calc", {"nosuchtype:0"}}, {"hwloc-calc", {"pu:"}}, {"hwloc-calc", {"pu:x"}}, {"hwloc-calc", {"pu:0-x"}}, {"hwloc-calc", {"pu:1-0"}}, {"hwloc-calc", {"pu:0:"}}, {"hwloc-calc", {"pu:0.core"}}, {"hwloc-calc", {"pu:0.nosuch:0"}}, {"hwloc-calc", {"0xzz"}}, {"hwloc-calc", {"pu[:0"}},
    {"hwloc-distrib", {NULL}}, {"hwloc-distrib", {"abc"}}, {"hwloc-distrib", {"1", "2"}}, {"hwloc-distrib", {"--foo", "2"}}, {"hwloc-distrib", {"--cof", "bar", "2"}}, {"hwloc-distrib", {"--from"}}, {"hwloc-distrib", {"2", "--restrict"}},
    {"lstopo-no-graphics", {"--of", "nosuchformat"}}, {"lstopo-no-graphics", {"--filter", "nosuchtype:all"}}, {"lstopo-no-graphics", {"--filter", "pu:nosuchkind"}}, {"lstopo-no-graphics", {"--export-xml-flags", "nosuchflag", "--of", "xml"}}, {"lstopo-no-graphics", {"--restrict", "zzz", "--of", "console"}},
    {"hwloc-diff", {NULL}}, {"hwloc-diff", {"/nonexistent/a.xml", "/nonexistent/b.xml"}}, {"hwloc-patch", {NULL}}, {"hwloc-patch", {"/nonexistent/a.xml", "/nonexistent/d.xml"}},
  };
  for (unsigned i = 0; i < sizeof(BAD) / sizeof(*BAD); i++, (*idx)++) {
    if (!mc_mine(*idx) || mc_deadline()) continue;
    char *args[12]; int m = 0; int takes_input = strncmp(BAD[i].tool, "hwloc-diff", 10) && strncmp(BAD[i].tool, "hwloc-patch", 11);
    if (takes_input) { args[m++] = (char *)"-i"; args[m++] = (char *)tp->input; }
    for (int k = 0; k < 6 && BAD[i].args[k]; k++) args[m++] = (char *)BAD[i].args[k]; args[m] = NULL;
    struct sb b; sb_init(&b); argtext(&b, BAD[i].tool, args);
    if (mc_case("malformed %s", b.s)) {
      struct result r; run_tool(BAD[i].tool, args, "", &r); MC.transitions++;
      if (!crashed(BAD[i].tool, args, &r, NULL) && r.status == 0) {
        /* key: tool + the shape of the bad argument, so that each lenient path is its own finding */
        char key[200]; snprintf(key, sizeof(key), "c20.malformed.exit0:%s:%s", BAD[i].tool, BAD[i].args[0] ? BAD[i].args[0] : "(none)");
        mc_violation(key, "%s :: exit status 0 (stdout '%.60s', stderr '%.120s')", mc_case_text(), r.out, r.err);
      }
      result_free(&r);
    }
    sb_free(&b);
  }
  /* also wrong inputs */
  static const char *BADIN[] = { "/nonexistent/file.xml", "pack:0 pu:2", "foo:2", "pu:2 core:2", "pu:2(" };
  for (unsigned i = 0; i < 5; i++, (*idx)++) {
    if (!mc_mine(*idx) || mc_deadline() || tp != &TP[0]) continue;
    static const char *TOOLS[] = { "hwloc-calc", "hwloc-distrib", "lstopo-no-graphics" };
    for (int tl = 0; tl < 3; tl++) {
      char *args[8] = { (char *)"-i", (char *)BADIN[i], (char *)(tl == 0 ? "all" : tl == 1 ? "2" : "--of"), tl == 2 ? (char *)"console" : NULL, NULL };
      struct sb b; sb_init(&b); argtext(&b, TOOLS[tl], args);
      if (mc_case("malformed %s", b.s)) { struct result r; run_tool(TOOLS[tl], args, "", &r); MC.transitions++; if (!crashed(TOOLS[tl], args, &r, NULL) && r.status == 0) { char key[200]; snprintf(key, sizeof(key), "c20.malformed.exit0:%s:-i", TOOLS[tl]); mc_violation(key, "%s :: exit status 0 on an unusable input (stdout '%.60s')", mc_case_text(), r.out); } result_free(&r); }
      sb_free(&b);
    }
  }
}

/* every single-character deletion / substitution of generated location strings: no crash, one output line each */
static void mutated_locations(const struct topo *tp, uint64_t *idx)
{
  gen_locs(tp->t, 0);
  static const char SUB[] = { ':', '.', '-', '0', '9', 'x', '~', '[', '=', ',' };
  for (int a = 0; a < NLOCS; a++, (*idx)++) {
    if (!mc_mine(*idx) || mc_deadline()) continue;
    struct loc l = LOCS[a]; loc_text(&l, 0);
    if (!mc_case("mutations of '%s' on %s", l.text, tp->input)) continue;
    struct sb in; sb_init(&in); int lines = 0; size_t L = strlen(l.text); char m[1300];
    for (size_t i = 0; i < L; i++) {
      memcpy(m, l.text, i); memcpy(m + i, l.text + i + 1, L - i); if (m[0]) { sb_puts(&in, m); sb_putc(&in, '\n'); lines++; }
      for (unsigned s = 0; s < sizeof(SUB); s++) { if (SUB[s] == l.text[i]) continue; memcpy(m, l.text, L + 1); m[i] = SUB[s]; sb_puts(&in, m); sb_putc(&in, '\n'); lines++; }
    }
    if (!lines) { sb_free(&in); continue; }
    char *args[] = { (char *)"-i", (char *)tp->input, (char *)"-q", NULL };
    struct result r; run_tool("hwloc-calc", args, in.s, &r); MC.transitions += (uint64_t)lines;
    if (crashed("hwloc-calc", args, &r, "(mutated locations on stdin)")) {
      /* locate */
      char *copy = strdup(in.s); int n; char **IL = split_lines(copy, &n);
      for (int i = 0; i < n; i++) { char one[1400]; snprintf(one, sizeof(one), "%s\n", IL[i]); struct result r1; run_tool("hwloc-calc", args, one, &r1); if (crashed("hwloc-calc", args, &r1, one)) { result_free(&r1); break; } result_free(&r1); }
      free(IL); free(copy);
    } else { int nl; char **OL = split_lines(r.out, &nl); if (nl != lines) mc_violation("c20.calc.lines", "%s :: %d input lines, %d output lines", mc_case_text(), lines, nl); free(OL); }
    result_free(&r); sb_free(&in);
  }
}

static void stage_other(void)
{
  uint64_t idx = 0; int ntop = NTP;
  for (int ti = 0; ti < ntop; ti++) {
    const struct topo *tp = &TP[ti];
    /* quick: every second synthetic description and every XML fixture */
    if (!MC.thorough && tp->src->kind == USRC_SYNTHETIC && (ti % 2)) continue;
    distrib_checks(tp, &idx);
    distrib_levels_checks(tp, &idx);
    lstopo_checks(tp, &idx);
    diffpatch_checks(tp, &idx);
    if (ti < 3) malformed_checks(tp, &idx);
    if (ti < (MC.thorough ? 8 : 3)) mutated_locations(tp, &idx);
  }
  lstopo_long_checks(&idx);
  mc_sample("distrib %s | --single 3", TP[0].input);
  mc_sample("lstopo %s | --of xml", TP[0].input);
}

int main(int argc, char **argv)
{
  mc_init(argc, argv, "C20");
  snprintf(TOOLDIR, sizeof(TOOLDIR), "%s/build/asan/tools", univ_verif());
  const char *td = getenv("TMPDIR"); snprintf(TMPD, sizeof(TMPD), "%s", td && *td ? td : "/tmp");
  setenv("ASAN_OPTIONS", "detect_leaks=0:exitcode=99:abort_on_error=0", 1);
  setenv("UBSAN_OPTIONS", "print_stacktrace=0", 1);
  unsetenv("HWLOC_HIDE_ERRORS");
  load_topos();
  mc_note("%d topologies (synthetic descriptions and XML fixtures with at most 8 PUs), tools in %s", NTP, TOOLDIR);
  const char *stage = mc_opt("stage"); if (!stage) stage = "calc";
  if (!strcmp(stage, "calc")) stage_calc(); else stage_other();
  mc_count("processes_spawned", nproc_spawned);
  char f[700]; snprintf(f, sizeof(f), "%s/c20.%d.in", TMPD, getpid()); unlink(f); snprintf(f, sizeof(f), "%s/c20.%d.out", TMPD, getpid()); unlink(f); snprintf(f, sizeof(f), "%s/c20.%d.err", TMPD, getpid()); unlink(f);
  return mc_finish(1);
}
