/* C08 - hwloc_topology_restrict removes exactly what the set excludes, or nothing.
 *
 * Reference model keyed by gp_index: the pre-state is dumped into records, the real
 * restrict is applied, and the post-state is compared record by record with what the
 * statement defines.  Enumerated: roots x configurations x {all subsets of the PU (NUMA)
 * set when small, object sets/complements/unions otherwise, supersets, infinite, disjoint,
 * empty} x all 32 flag words (+ an unknown bit), applied once, and again (all pairs) from
 * every distinct state reached by the first application.
 */
#include "hwmc.h"
#include "univ.h"
#include "canon.h"
#include "wf.h"
#include "ops.h"
#include "refset.h"
#include <inttypes.h>

struct rec {
  hwloc_uint64_t gp, parent_gp; hwloc_obj_type_t type; unsigned os; char list; /* N M I X R */
  int has_sets; refset cs, ccs, ns, cns;
  hwloc_uint64_t anchor_gp;      /* special objects: closest non-I/O non-Misc ancestor; others: own gp */
  hwloc_uint64_t top_special_gp; /* special objects: the ancestor-or-self special object directly attached to the anchor */
  hwloc_obj_type_t top_special_type;
  int filter;                    /* type filter of this object's type */
  int dont_merge;                /* Groups: attr->group.dont_merge */
  void *userdata;
};
struct snap { struct rec *r; unsigned n; refset root_cs, root_ccs, root_ns, root_cns, allowed_c, allowed_n; };

static int is_special(hwloc_obj_type_t t) { return t == HWLOC_OBJ_BRIDGE || t == HWLOC_OBJ_PCI_DEVICE || t == HWLOC_OBJ_OS_DEVICE || t == HWLOC_OBJ_MISC; }

static void take(hwloc_topology_t t, struct snap *s)
{
  hwloc_obj_t *objs; unsigned n = canon_walk(t, &objs);
  s->r = calloc(n, sizeof(*s->r)); s->n = n;
  for (unsigned i = 0; i < n; i++) {
    hwloc_obj_t o = objs[i]; struct rec *r = &s->r[i];
    r->gp = o->gp_index; r->parent_gp = o->parent ? o->parent->gp_index : 0; r->type = o->type; r->os = o->os_index; r->userdata = o->userdata;
    r->list = !o->parent ? 'R' : is_special(o->type) ? (o->type == HWLOC_OBJ_MISC ? 'X' : 'I') : (o->type == HWLOC_OBJ_NUMANODE || o->type == HWLOC_OBJ_MEMCACHE) ? 'M' : 'N';
    r->has_sets = !!o->cpuset;
    r->dont_merge = o->type == HWLOC_OBJ_GROUP && o->attr->group.dont_merge;
    if (r->has_sets) { rs_from_bitmap(&r->cs, o->cpuset); rs_from_bitmap(&r->ccs, o->complete_cpuset); rs_from_bitmap(&r->ns, o->nodeset); rs_from_bitmap(&r->cns, o->complete_nodeset); }
    enum hwloc_type_filter_e f = HWLOC_TYPE_FILTER_KEEP_ALL; hwloc_topology_get_type_filter(t, o->type, &f); r->filter = (int)f;
    r->anchor_gp = o->gp_index; r->top_special_gp = 0;
    if (is_special(o->type)) {
      hwloc_obj_t a = o, top = o;
      while (a->parent && is_special(a->type)) { top = a; a = a->parent; }
      r->anchor_gp = a->gp_index; r->top_special_gp = top->gp_index; r->top_special_type = top->type;
    }
  }
  hwloc_obj_t root = hwloc_get_root_obj(t);
  rs_from_bitmap(&s->root_cs, root->cpuset); rs_from_bitmap(&s->root_ccs, root->complete_cpuset);
  rs_from_bitmap(&s->root_ns, root->nodeset); rs_from_bitmap(&s->root_cns, root->complete_nodeset);
  rs_from_bitmap(&s->allowed_c, hwloc_topology_get_allowed_cpuset(t)); rs_from_bitmap(&s->allowed_n, hwloc_topology_get_allowed_nodeset(t));
  free(objs);
}
static void drop(struct snap *s) { free(s->r); s->r = NULL; }
static struct rec *find(struct snap *s, hwloc_uint64_t gp) { for (unsigned i = 0; i < s->n; i++) if (s->r[i].gp == gp) return &s->r[i]; return NULL; }

#define V(key, ...) do { char k_[128]; snprintf(k_, sizeof(k_), "c08.%s", key); mc_violation(k_, __VA_ARGS__); nviol++; } while (0)

/* compares post-state "after" with what the statement defines from "before" */
static int model_check(struct snap *b, struct snap *a, const refset *S, unsigned long flags)
{
  int nviol = 0;
  int bynode = !!(flags & HWLOC_RESTRICT_FLAG_BYNODESET);
  const char *ct = mc_case_text();
  refset pu_after, numa_after, pu_before, numa_before; rs_zero(&pu_after); rs_zero(&numa_after); rs_zero(&pu_before); rs_zero(&numa_before);
  for (unsigned i = 0; i < a->n; i++) { if (a->r[i].type == HWLOC_OBJ_PU) rs_set(&pu_after, a->r[i].os); if (a->r[i].type == HWLOC_OBJ_NUMANODE) rs_set(&numa_after, a->r[i].os); }
  for (unsigned i = 0; i < b->n; i++) { if (b->r[i].type == HWLOC_OBJ_PU) rs_set(&pu_before, b->r[i].os); if (b->r[i].type == HWLOC_OBJ_NUMANODE) rs_set(&numa_before, b->r[i].os); }
  refset dropped_pu, dropped_numa; rs_andnot(&dropped_pu, &pu_before, &pu_after); rs_andnot(&dropped_numa, &numa_before, &numa_after);
  refset x;
  /* (1) topology-level sets */
  if (!bynode) {
    rs_and(&x, &b->root_cs, S); if (!rs_isequal(&x, &a->root_cs)) V("root.cpuset", "%s :: topology cpuset %s, expected old %s & S", ct, rs_str(&a->root_cs), rs_str(&b->root_cs));
    rs_and(&x, &b->root_ccs, S); if (!rs_isequal(&x, &a->root_ccs)) V("root.complete_cpuset", "%s :: complete cpuset %s, expected old %s & S", ct, rs_str(&a->root_ccs), rs_str(&b->root_ccs));
    rs_and(&x, &b->allowed_c, S); if (!rs_isequal(&x, &a->allowed_c)) V("allowed.cpuset", "%s :: allowed cpuset %s, expected old %s & S", ct, rs_str(&a->allowed_c), rs_str(&b->allowed_c));
    /* (2) PUs are exactly the old PUs inside S */
    rs_and(&x, &pu_before, S); if (!rs_isequal(&x, &pu_after)) V("pus", "%s :: PUs after %s, expected %s", ct, rs_str(&pu_after), rs_str(&x));
    /* allowed nodeset: old minus dropped nodes */
    rs_andnot(&x, &b->allowed_n, &dropped_numa); if (!rs_isequal(&x, &a->allowed_n)) V("allowed.nodeset", "%s :: allowed nodeset %s, expected %s", ct, rs_str(&a->allowed_n), rs_str(&x));
  } else {
    rs_and(&x, &b->root_ns, S); if (!rs_isequal(&x, &a->root_ns)) V("root.nodeset", "%s :: topology nodeset %s, expected old %s & S", ct, rs_str(&a->root_ns), rs_str(&b->root_ns));
    rs_and(&x, &b->root_cns, S); if (!rs_isequal(&x, &a->root_cns)) V("root.complete_nodeset", "%s :: complete nodeset %s, expected old %s & S", ct, rs_str(&a->root_cns), rs_str(&b->root_cns));
    rs_and(&x, &b->allowed_n, S); if (!rs_isequal(&x, &a->allowed_n)) V("allowed.nodeset", "%s :: allowed nodeset %s, expected old %s & S", ct, rs_str(&a->allowed_n), rs_str(&b->allowed_n));
    rs_and(&x, &numa_before, S); if (!rs_isequal(&x, &numa_after)) V("numas", "%s :: NUMA nodes after %s, expected %s", ct, rs_str(&numa_after), rs_str(&x));
    rs_andnot(&x, &b->allowed_c, &dropped_pu); if (!rs_isequal(&x, &a->allowed_c)) V("allowed.cpuset", "%s :: allowed cpuset %s, expected %s", ct, rs_str(&a->allowed_c), rs_str(&x));
    if (!(flags & HWLOC_RESTRICT_FLAG_REMOVE_MEMLESS) && !rs_isequal(&pu_before, &pu_after)) V("pus", "%s :: PUs changed %s -> %s without REMOVE_MEMLESS", ct, rs_str(&pu_before), rs_str(&pu_after));
  }
  /* (3) survivors are old objects with the old sets minus the dropped resources */
  for (unsigned i = 0; i < a->n; i++) {
    struct rec *r = &a->r[i], *o = find(b, r->gp);
    if (!o) { V("survivor.new", "%s :: object %s gp=%" PRIu64 " did not exist before", ct, hwloc_obj_type_string(r->type), r->gp); continue; }
    if (o->type != r->type) V("survivor.type", "%s :: gp=%" PRIu64 " changed type %s -> %s", ct, r->gp, hwloc_obj_type_string(o->type), hwloc_obj_type_string(r->type));
    if (o->userdata != r->userdata) V("survivor.userdata", "%s :: gp=%" PRIu64 " userdata changed", ct, r->gp);
    if (r->has_sets && o->has_sets) {
      refset e;
      if (!bynode) { rs_and(&e, &o->cs, S); if (!rs_isequal(&e, &r->cs)) V("survivor.cpuset", "%s :: %s gp=%" PRIu64 " cpuset %s, expected old %s & S", ct, hwloc_obj_type_string(r->type), r->gp, rs_str(&r->cs), rs_str(&o->cs));
                     rs_and(&e, &o->ccs, S); if (!rs_isequal(&e, &r->ccs)) V("survivor.complete_cpuset", "%s :: %s gp=%" PRIu64 " complete_cpuset %s, expected old %s & S", ct, hwloc_obj_type_string(r->type), r->gp, rs_str(&r->ccs), rs_str(&o->ccs));
                     rs_andnot(&e, &o->ns, &dropped_numa); if (!rs_isequal(&e, &r->ns)) V("survivor.nodeset", "%s :: %s gp=%" PRIu64 " nodeset %s, expected old %s minus dropped %s", ct, hwloc_obj_type_string(r->type), r->gp, rs_str(&r->ns), rs_str(&o->ns), rs_str(&dropped_numa));
                     rs_andnot(&e, &o->cns, &dropped_numa); if (!rs_isequal(&e, &r->cns)) V("survivor.complete_nodeset", "%s :: %s gp=%" PRIu64 " complete_nodeset %s, expected old %s minus dropped %s", ct, hwloc_obj_type_string(r->type), r->gp, rs_str(&r->cns), rs_str(&o->cns), rs_str(&dropped_numa)); }
      else { rs_and(&e, &o->ns, S); if (!rs_isequal(&e, &r->ns)) V("survivor.nodeset", "%s :: %s gp=%" PRIu64 " nodeset %s, expected old %s & S", ct, hwloc_obj_type_string(r->type), r->gp, rs_str(&r->ns), rs_str(&o->ns));
             rs_and(&e, &o->cns, S); if (!rs_isequal(&e, &r->cns)) V("survivor.complete_nodeset", "%s :: %s gp=%" PRIu64 " complete_nodeset %s, expected old %s & S", ct, hwloc_obj_type_string(r->type), r->gp, rs_str(&r->cns), rs_str(&o->cns));
             rs_andnot(&e, &o->cs, &dropped_pu); if (!rs_isequal(&e, &r->cs)) V("survivor.cpuset", "%s :: %s gp=%" PRIu64 " cpuset %s, expected old %s minus dropped %s", ct, hwloc_obj_type_string(r->type), r->gp, rs_str(&r->cs), rs_str(&o->cs), rs_str(&dropped_pu));
             rs_andnot(&e, &o->ccs, &dropped_pu); if (!rs_isequal(&e, &r->ccs)) V("survivor.complete_cpuset", "%s :: %s gp=%" PRIu64 " complete_cpuset %s, expected old %s minus dropped %s", ct, hwloc_obj_type_string(r->type), r->gp, rs_str(&r->ccs), rs_str(&o->ccs), rs_str(&dropped_pu)); }
    }
  }
  /* (4)-(6) what may disappear.
   * An old non-special object is "restriction-removed" when no surviving PU and no surviving NUMA node is left
   * at or below it (survivors of these two leaf kinds are decided by clauses (2)/(4)); an object that is gone
   * without being restriction-removed was merged structurally, which only some types allow. */
  int *rrem = calloc(b->n, sizeof(int));
  for (unsigned i = 0; i < b->n; i++) {
    struct rec *o = &b->r[i];
    if (o->list == 'I' || o->list == 'X' || o->list == 'R') continue;
    int left = 0;
    for (unsigned j = 0; j < b->n && !left; j++) {
      struct rec *q = &b->r[j];
      if (!((q->type == HWLOC_OBJ_PU && rs_isset(&pu_after, q->os)) || (q->type == HWLOC_OBJ_NUMANODE && rs_isset(&numa_after, q->os)))) continue;
      struct rec *p = q; while (p && p->gp != o->gp) p = p->parent_gp ? find(b, p->parent_gp) : NULL;
      if (p) left = 1;
    }
    rrem[i] = !left;
  }
  for (unsigned i = 0; i < b->n; i++) {
    struct rec *o = &b->r[i]; struct rec *r = find(a, o->gp);
    if (o->type == HWLOC_OBJ_NUMANODE && !bynode) {
      refset e; rs_and(&e, &o->cs, S);
      if (!r && !((flags & HWLOC_RESTRICT_FLAG_REMOVE_CPULESS) && rs_iszero(&e))) V("numa.lost", "%s :: NUMA node P#%u disappeared (REMOVE_CPULESS=%d, cpuset after %s)", ct, o->os, !!(flags & HWLOC_RESTRICT_FLAG_REMOVE_CPULESS), rs_str(&e));
    } else if (o->type == HWLOC_OBJ_PU && bynode) {
      refset e; rs_and(&e, &o->ns, S);
      if (!r && !((flags & HWLOC_RESTRICT_FLAG_REMOVE_MEMLESS) && rs_iszero(&e))) V("pu.lost", "%s :: PU P#%u disappeared (REMOVE_MEMLESS=%d, nodeset after %s)", ct, o->os, !!(flags & HWLOC_RESTRICT_FLAG_REMOVE_MEMLESS), rs_str(&e));
    } else if ((o->list == 'N' || o->list == 'M') && o->type != HWLOC_OBJ_PU && o->type != HWLOC_OBJ_NUMANODE) {
      /* the load-time rules: Groups are merged when redundant unless they carry dont_merge ("never merged with identical
       * parent or children"), Dies are merged into identical Packages, other types only under KEEP_STRUCTURE */
      int mergeable = o->type == HWLOC_OBJ_GROUP ? !o->dont_merge : (o->type == HWLOC_OBJ_DIE || o->filter == HWLOC_TYPE_FILTER_KEEP_STRUCTURE);
      if (!r && !rrem[i] && !mergeable) V(o->dont_merge ? "normal.lost.dont_merge" : "normal.lost", "%s :: %s gp=%" PRIu64 " disappeared although PUs or NUMA nodes remain below it and %s", ct, hwloc_obj_type_string(o->type), o->gp, o->dont_merge ? "it is a dont_merge Group" : "its type is not subject to structural merging");
      /* (the converse - an emptied object must go - is not demanded: a CPU-less, memory-less Package whose nodeset still holds
       * a machine-level NUMA node legitimately stays after a BYNODESET restrict) */
      if (r && rrem[i]) mc_count("emptied_normal_objects_kept", 1);
    } else if (o->list == 'I' || o->list == 'X') {
      struct rec *anchor_after = find(a, o->anchor_gp), *anchor = find(b, o->anchor_gp);
      int adapt = o->top_special_type == HWLOC_OBJ_MISC ? !!(flags & HWLOC_RESTRICT_FLAG_ADAPT_MISC) : !!(flags & HWLOC_RESTRICT_FLAG_ADAPT_IO);
      /* a Misc below an I/O object follows that I/O object */
      int anchor_rrem = anchor && anchor->list != 'R' ? rrem[anchor - b->r] : 0;
      if (anchor_after) {
        if (!r) V("special.lost", "%s :: %s gp=%" PRIu64 " was lost although the object it is attached to (gp=%" PRIu64 ") survives", ct, hwloc_obj_type_string(o->type), o->gp, o->anchor_gp);
        else if (r->parent_gp != o->parent_gp) V("special.moved", "%s :: %s gp=%" PRIu64 " moved from parent gp=%" PRIu64 " to gp=%" PRIu64 " although its attach point survives", ct, hwloc_obj_type_string(o->type), o->gp, o->parent_gp, r->parent_gp);
      } else if (!anchor_rrem) {
        /* the attach point was merged away structurally: its Misc and I/O children are never lost */
        if (!r) V("special.lost.merge", "%s :: %s gp=%" PRIu64 " was lost although its attach point (gp=%" PRIu64 ") was only merged structurally", ct, hwloc_obj_type_string(o->type), o->gp, o->anchor_gp);
      } else if (!adapt) {
        if (r) V("special.kept", "%s :: %s gp=%" PRIu64 " survives although its attach point was removed and no ADAPT flag covers it", ct, hwloc_obj_type_string(o->type), o->gp);
      } else {
        if (!r) V("special.adapt.lost", "%s :: %s gp=%" PRIu64 " was dropped although the ADAPT flag is set", ct, hwloc_obj_type_string(o->type), o->gp);
        else if (o->gp == o->top_special_gp) {
          /* closest ancestor of the removed attach point that the restriction itself keeps */
          struct rec *p = anchor;
          while (p && p->list != 'R' && rrem[p - b->r]) p = p->parent_gp ? find(b, p->parent_gp) : NULL;
          /* if that ancestor still exists the object must hang there; if it was merged structurally any surviving parent is accepted */
          if (p && find(a, p->gp) && r->parent_gp != p->gp) V("special.adapt.where", "%s :: %s gp=%" PRIu64 " re-attached to gp=%" PRIu64 ", closest surviving ancestor is gp=%" PRIu64, ct, hwloc_obj_type_string(o->type), o->gp, r->parent_gp, p->gp);
        }
      }
    }
  }
  free(rrem);
  return nviol;
}

static uint64_t nstates_checked;

/* one restrict from state h (history), returns canon key of the result through *keyp (malloc'ed) or NULL */
static void try_restrict(const struct hist *h, const char *before_canon, const struct op *op, struct strset *seen, struct hist *newstates, size_t *nnew, size_t maxnew)
{
  struct hist hn = *h; hn.ops[hn.n++] = *op;
  static struct sb tb; if (!tb.s) sb_init(&tb);
  sb_reset(&tb); hist_print(&tb, &hn);
  if (!mc_case("%s", tb.s)) return;
  hwloc_topology_t t = NULL;
  if (MC_TRY(30000)) { t = hist_build(h); mc_try_end(); }
  if (mc_report_faults("replay") || !t) return;
  struct snap b, a; take(t, &b);
  refset S; hwloc_bitmap_t sb_ = ops_mask_to_bitmap(op->set, op->tail); rs_from_bitmap(&S, sb_);
  int rc = -9, e = 0;
  if (MC_TRY(30000)) { errno = 0; rc = hwloc_topology_restrict(t, sb_, op->flags); e = errno; mc_try_end(); }
  hwloc_bitmap_free(sb_);
  MC.transitions++;
  if (mc_report_faults("restrict")) { drop(&b); return; }
  /* expected outcome */
  unsigned long fl = op->flags;
  int bynode = !!(fl & HWLOC_RESTRICT_FLAG_BYNODESET);
  int invalid = (fl & ~0x1fUL) || (bynode && (fl & HWLOC_RESTRICT_FLAG_REMOVE_CPULESS)) || (!bynode && (fl & HWLOC_RESTRICT_FLAG_REMOVE_MEMLESS));
  int disjoint = !rs_intersects(&S, bynode ? &b.allowed_n : &b.allowed_c);
  mc_outcome("restrict_outcomes", "rc=%d errno=%d invalid=%d disjoint=%d", rc, rc ? e : 0, invalid, disjoint);
  if (rc != 0 && rc != -1) mc_violation("c08.rc", "%s :: restrict returned %d", mc_case_text(), rc);
  if ((invalid || disjoint) && !(rc == -1 && e == EINVAL)) mc_violation("c08.rc.must-fail", "%s :: invalid=%d disjoint=%d but rc=%d errno=%d", mc_case_text(), invalid, disjoint, rc, e);
  if (rc == -1) {
    if (e != EINVAL) mc_violation("c08.rc.errno", "%s :: failed with errno %d", mc_case_text(), e);
    if (!invalid && !disjoint) {
      /* only legitimate when the flags would remove every allowed NUMA node (REMOVE_CPULESS) / every allowed PU (REMOVE_MEMLESS) */
      int wipe = 0;
      if (!bynode && (fl & HWLOC_RESTRICT_FLAG_REMOVE_CPULESS)) { wipe = 1; for (unsigned i = 0; i < b.n; i++) if (b.r[i].type == HWLOC_OBJ_NUMANODE && rs_isset(&b.allowed_n, b.r[i].os)) { refset x; rs_and(&x, &b.r[i].cs, &S); if (!rs_iszero(&x)) wipe = 0; } }
      if (bynode && (fl & HWLOC_RESTRICT_FLAG_REMOVE_MEMLESS)) { wipe = 1; for (unsigned i = 0; i < b.n; i++) if (b.r[i].type == HWLOC_OBJ_PU && rs_isset(&b.allowed_c, b.r[i].os)) { refset x; rs_and(&x, &b.r[i].ns, &S); if (!rs_iszero(&x)) wipe = 0; } }
      if (!wipe) mc_violation("c08.rc.must-succeed", "%s :: valid request refused (errno %d)", mc_case_text(), e);
    }
    char *after = canon_str(t, CANON_ALL);
    if (strcmp(after, before_canon)) mc_violation("c08.failed-call-modified", "%s :: %s", mc_case_text(), canon_diff(before_canon, after));
    free(after);
  } else if (rc == 0) {
    take(t, &a);
    mc_count("model_checks", 1);
    int bad = model_check(&b, &a, &S, fl);
    if (MC_TRY(30000)) { bad += wf_check_mc(t, "restrict"); mc_try_end(); }
    mc_report_faults("wf");
    if (hist_retag(t, NULL, 0)) { mc_violation("c08.survivor.userdata", "%s :: userdata/gp pairing changed", mc_case_text()); bad++; }
    char *after = canon_str(t, CANON_ALL);
    if (!bad && strset_add(seen, after, strlen(after))) { MC.states++; nstates_checked++; if (newstates && *nnew < maxnew) newstates[(*nnew)++] = hn; }
    free(after);
    drop(&a);
  }
  drop(&b);
  if (MC_TRY(30000)) { hwloc_topology_destroy(t); mc_try_end(); }
  mc_report_faults("destroy");
}

int main(int argc, char **argv)
{
  mc_init(argc, argv, "C08");
  int nroots = univ_small_count(), ncfg = hist_ncfg();
  struct opscope sc; memset(&sc, 0, sizeof(sc));
  sc.classes = OPC_RESTRICT; sc.all_restrict_flags = 1; sc.max_subset_bits = MC.thorough ? 6 : 4;
  uint64_t idx = 0;
  size_t maxnew = MC.thorough ? 4000 : 30;
  struct hist *news = malloc(maxnew * sizeof(*news));
  mc_note("%d roots x %d configurations; restrict alphabet: all 32 flag words + invalid ones; subsets enumerated when the PU/NUMA set has <= %d elements", nroots, ncfg, sc.max_subset_bits);
  for (int r = 0; r < nroots; r++) for (int c = 0; c < ncfg; c++, idx++) {
    if (!mc_mine(idx) || mc_deadline()) continue;
    struct hist h0; memset(&h0, 0, sizeof(h0)); h0.root = r; h0.cfg = c;
    /* the root state carries Misc objects everywhere so that ADAPT_MISC matters: insert one Misc below
     * every normal/memory object first (a fixed prefix of the history) -- only with configuration 1/3 (Misc kept) */
    hwloc_topology_t t = NULL;
    if (MC_TRY(30000)) { t = hist_build(&h0); mc_try_end(); }
    if (mc_report_faults("load") || !t) continue;
    if (c == 1 || c == 3) {
      hwloc_obj_t *objs; unsigned n = canon_walk(t, &objs);
      /* Misc under the first PU's parent and under the last NUMA node: 2 ops keep histories short */
      hwloc_obj_t pu = hwloc_get_obj_by_type(t, HWLOC_OBJ_PU, 0), nu = hwloc_get_obj_by_type(t, HWLOC_OBJ_NUMANODE, hwloc_get_nbobjs_by_type(t, HWLOC_OBJ_NUMANODE) - 1);
      if (pu && pu->parent && h0.n < HIST_MAX - 3) { struct op o; memset(&o, 0, sizeof(o)); o.kind = OP_MISC; o.a = (int)pu->parent->gp_index; o.b = 1; h0.ops[h0.n++] = o; }
      if (nu && h0.n < HIST_MAX - 3) { struct op o; memset(&o, 0, sizeof(o)); o.kind = OP_MISC; o.a = (int)nu->gp_index; o.b = 1; h0.ops[h0.n++] = o; }
      free(objs); (void)n;
      hwloc_topology_destroy(t);
      t = hist_build(&h0);
      if (!t) continue;
    }
    char *before = canon_str(t, CANON_ALL);
    struct op *ops; int nops = ops_enumerate(t, &sc, &ops);
    hwloc_topology_destroy(t);
    struct strset seen; strset_init(&seen); strset_add(&seen, before, strlen(before));
    size_t nnew = 0;
    mc_count_max("restrict_alphabet_max", (uint64_t)nops);
    for (int i = 0; i < nops; i++) try_restrict(&h0, before, &ops[i], &seen, news, &nnew, maxnew);
    free(ops); free(before);
    if (r % 5 == 0) { static struct sb tb; if (!tb.s) sb_init(&tb); sb_reset(&tb); if (nnew) hist_print(&tb, &news[nnew / 2]); mc_sample("%s", tb.s); }
    /* second application from every distinct state reached (quick: capped) */
    for (size_t k = 0; k < nnew && !mc_deadline(); k++) {
      hwloc_topology_t t2 = hist_build(&news[k]); if (!t2) continue;
      char *b2 = canon_str(t2, CANON_ALL);
      struct op *ops2; int nops2 = ops_enumerate(t2, &sc, &ops2);
      hwloc_topology_destroy(t2);
      for (int i = 0; i < nops2; i++) {
        if (!MC.thorough && (ops2[i].flags & ~0x1fUL)) continue;
        try_restrict(&news[k], b2, &ops2[i], &seen, NULL, NULL, 0);
      }
      free(ops2); free(b2);
    }
    strset_free(&seen);
  }
  mc_count("distinct_restricted_states", nstates_checked);
  return mc_finish(1);
}
