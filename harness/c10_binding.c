/* C10 - binding calls validate arguments, hand only legal sets to the OS, and round-trip.
 *
 * Seam: the harness executable defines sched_setaffinity / pthread_setaffinity_np / syscall
 * (the statically linked library binds to them), logs what reaches the operating system and
 * either forwards (live machine) or stubs the call (synthetic/XML topologies that claim to be
 * this system: native hooks run, nothing is really bound).
 *
 * stage args : topologies x entry points x sets (all subsets of a small universe that has
 *              legal, disallowed-but-complete and out-of-range bits, plus infinite variants)
 *              x flag words x policies, against a reference model of hwloc_fix_cpubind /
 *              hwloc_fix_membind / hwloc_fix_membind_cpuset and of the hook table.
 * stage live : every non-empty subset of the allowed CPUs: bind this thread, read back,
 *              last CPU location, raw kernel mask; process/thread/pid variants on a family;
 *              membind round trip; load (linux / x86 / both) preserves the caller's binding.
 */
#define _GNU_SOURCE
#include "hwmc.h"
#include "univ.h"
#include <sched.h>
#include <pthread.h>
#include <dlfcn.h>
#include <unistd.h>
#include <sys/syscall.h>
#include <sys/mman.h>

/* ------------------------------------------------------------------ seam */
enum { OS_SETAFF, OS_PTSETAFF, OS_MBIND, OS_SET_MEMPOLICY, OS_MIGRATE };
static const char *OSN[] = { "sched_setaffinity", "pthread_setaffinity_np", "mbind", "set_mempolicy", "migrate_pages" };
struct oscall { int kind, has_mask; unsigned nbits; unsigned long mask[64]; };
#define MAXLOG 512
static struct oscall LOG[MAXLOG]; static int nlog, nlog_total;
static int seam_on, seam_stub;

static long (*real_syscall)(long, ...);
static int (*real_setaff)(pid_t, size_t, const cpu_set_t *);
static int (*real_ptsetaff)(pthread_t, size_t, const cpu_set_t *);
static void seam_init(void)
{
  real_syscall = (long (*)(long, ...))dlsym(RTLD_NEXT, "syscall");
  real_setaff = (int (*)(pid_t, size_t, const cpu_set_t *))dlsym(RTLD_NEXT, "sched_setaffinity");
  real_ptsetaff = (int (*)(pthread_t, size_t, const cpu_set_t *))dlsym(RTLD_NEXT, "pthread_setaffinity_np");
}
static void oslog(int kind, const void *mask, unsigned nbits)
{
  nlog_total++;
  if (nlog >= MAXLOG) return;
  struct oscall *c = &LOG[nlog++]; memset(c, 0, sizeof(*c)); c->kind = kind;
  if (mask && nbits) { c->has_mask = 1; c->nbits = nbits > 64 * 64 ? 64 * 64 : nbits; memcpy(c->mask, mask, (c->nbits + 7) / 8); }
}
/* environment deviation: an emulated cpuset (what a cgroup does): a request without any CPU of the emulated set fails with
 * EINVAL, any other request is reduced to the emulated set */
static int emul_on; static cpu_set_t emul_set;
int sched_setaffinity(pid_t pid, size_t size, const cpu_set_t *mask)
{
  if (!real_setaff) seam_init();
  if (seam_on) { oslog(OS_SETAFF, mask, (unsigned)size * 8); if (seam_stub) return 0; }
  if (emul_on) {
    cpu_set_t eff; CPU_ZERO(&eff); int any = 0;
    for (int i = 0; i < CPU_SETSIZE && (size_t)i < size * 8; i++) if (CPU_ISSET_S(i, size, mask) && CPU_ISSET(i, &emul_set)) { CPU_SET(i, &eff); any = 1; }
    if (!any) { errno = EINVAL; return -1; }
    return real_setaff(pid, sizeof(eff), &eff);
  }
  return real_setaff(pid, size, mask);
}
int pthread_setaffinity_np(pthread_t th, size_t size, const cpu_set_t *mask)
{
  if (!real_ptsetaff) seam_init();
  if (seam_on) { oslog(OS_PTSETAFF, mask, (unsigned)size * 8); if (seam_stub) return 0; }
  return real_ptsetaff(th, size, mask);
}
/* reads six variadic slots whatever the caller passed: the last one lives in the caller's frame, keep ASan out of it */
__attribute__((no_sanitize_address)) long syscall(long n, ...)
{
  va_list ap; long a[6];
  if (!real_syscall) seam_init();
  va_start(ap, n); for (int i = 0; i < 6; i++) a[i] = va_arg(ap, long); va_end(ap);
  if (seam_on) {
    /* hwloc passes maxnode = number of mask bits + 1 */
    if (n == SYS_mbind) { oslog(OS_MBIND, (void *)a[3], a[4] ? (unsigned)a[4] - 1 : 0); if (seam_stub) return 0; }
    else if (n == SYS_set_mempolicy) { oslog(OS_SET_MEMPOLICY, (void *)a[1], a[2] ? (unsigned)a[2] - 1 : 0); if (seam_stub) return 0; }
    else if (n == SYS_migrate_pages) { oslog(OS_MIGRATE, (void *)a[3], a[1] ? (unsigned)a[1] - 1 : 0); if (seam_stub) return 0; }
    else if (n == SYS_move_pages && seam_stub) return 0;
  }
  return real_syscall(n, a[0], a[1], a[2], a[3], a[4], a[5]);
}
static void raw_setaff(const cpu_set_t *m) { if (!real_syscall) seam_init(); real_syscall(SYS_sched_setaffinity, 0, sizeof(*m), m); }
static void raw_getaff(cpu_set_t *m) { if (!real_syscall) seam_init(); CPU_ZERO(m); real_syscall(SYS_sched_getaffinity, 0, sizeof(*m), m); }
static void raw_mempolicy_default(void) { real_syscall(SYS_set_mempolicy, 0 /* MPOL_DEFAULT */, NULL, 0); }

/* does the logged mask equal the bitmap? */
static int mask_equals(const struct oscall *c, hwloc_const_bitmap_t e)
{
  int last = hwloc_bitmap_last(e);
  if (last < 0 && hwloc_bitmap_weight(e) != 0) return 0;             /* infinite */
  if (last >= (int)c->nbits) return 0;
  for (unsigned i = 0; i < c->nbits; i++) if (!!(c->mask[i / 64] & (1UL << (i % 64))) != !!hwloc_bitmap_isset(e, i)) return 0;
  return 1;
}
static void mask_text(struct sb *b, const struct oscall *c)
{
  sb_printf(b, "%s(", OSN[c->kind]);
  if (!c->has_mask) sb_puts(b, "no mask");
  else { int first = 1; for (unsigned i = 0; i < c->nbits; i++) if (c->mask[i / 64] & (1UL << (i % 64))) { sb_printf(b, "%s%u", first ? "" : ",", i); first = 0; } if (first) sb_puts(b, "empty"); }
  sb_puts(b, ")");
}

/* ------------------------------------------------------------------ topologies */
struct topo { const char *name; hwloc_topology_t t; int thissystem; int live; };
static struct topo T[64]; static int NT;

static void add_topo(const char *name, const struct usrc *s, unsigned long flags, int live)
{
  struct ucfg c; ucfg_default(&c); c.flags = flags;
  hwloc_topology_t t = NULL; int rc;
  if (live) { rc = hwloc_topology_init(&t); if (!rc) { hwloc_topology_set_flags(t, flags); rc = hwloc_topology_load(t); if (rc) hwloc_topology_destroy(t); } }
  else rc = univ_load(&t, s, &c);
  if (rc) { mc_note("topology %s does not load (rc=%d)", name, rc); return; }
  { char *a = NULL, *b = NULL, *c = NULL, *d = NULL; hwloc_bitmap_list_asprintf(&a, hwloc_topology_get_topology_cpuset(t)); hwloc_bitmap_list_asprintf(&b, hwloc_topology_get_complete_cpuset(t)); hwloc_bitmap_list_asprintf(&c, hwloc_topology_get_topology_nodeset(t)); hwloc_bitmap_list_asprintf(&d, hwloc_topology_get_complete_nodeset(t));
    mc_note("topology %s: thissystem=%d cpuset {%s} complete {%s} nodeset {%s} complete {%s}", name, hwloc_topology_is_thissystem(t), a, b, c, d); free(a); free(b); free(c); free(d); }
  T[NT].name = strdup(name); T[NT].t = t; T[NT].thissystem = hwloc_topology_is_thissystem(t); T[NT].live = live; NT++;
}
static struct usrc mksyn(const char *d) { struct usrc s; memset(&s, 0, sizeof(s)); s.kind = USRC_SYNTHETIC; s.text = (char *)d; s.name = (char *)d; return s; }

static void build_topos(void)
{
  static const char *SYN[] = { "pu:4", "numa:2 pu:2", "pack:2 numa:2 core:1 pu:2", "pack:2 [numa] core:2 pu:1", "numa:3(indexes=5,2,9) pu:1" };
  char nm[300];
  for (unsigned i = 0; i < sizeof(SYN) / sizeof(*SYN); i++) {
    struct usrc s = mksyn(SYN[i]);
    snprintf(nm, sizeof(nm), "synthetic \"%s\"", SYN[i]); add_topo(nm, &s, 0, 0);
    snprintf(nm, sizeof(nm), "synthetic \"%s\" +IS_THISSYSTEM", SYN[i]); add_topo(nm, &s, HWLOC_TOPOLOGY_FLAG_IS_THISSYSTEM, 0);
  }
  for (int i = 0; i < univ_fix_count(); i++) {
    const struct usrc *s = univ_fix(i);
    if (!strstr(s->name, "disallowed") && !strstr(s->name, "cpuless") && !strstr(s->name, "sparse") && !strstr(s->name, "tiny")) continue;
    snprintf(nm, sizeof(nm), "xml %s", s->name); add_topo(nm, s, 0, 0);
    snprintf(nm, sizeof(nm), "xml %s +IS_THISSYSTEM", s->name); add_topo(nm, s, HWLOC_TOPOLOGY_FLAG_IS_THISSYSTEM, 0);
    snprintf(nm, sizeof(nm), "xml %s +IS_THISSYSTEM+INCLUDE_DISALLOWED", s->name); add_topo(nm, s, HWLOC_TOPOLOGY_FLAG_IS_THISSYSTEM | HWLOC_TOPOLOGY_FLAG_INCLUDE_DISALLOWED, 0);
  }
  add_topo("live machine", NULL, 0, 1);
}

/* ------------------------------------------------------------------ set domains */
struct setdom { hwloc_bitmap_t *s; int n; };
/* all subsets of a universe of at most maxu positions (positions of the complete set, holes, one past the
 * end, a word boundary) plus infinite variants of a few of them */
static void build_domain(struct setdom *d, hwloc_const_bitmap_t complete, hwloc_const_bitmap_t topo, int maxu)
{
  int u[16], nu = 0, last = hwloc_bitmap_last(complete);
  int nb = hwloc_bitmap_weight(complete);
  /* positions of the complete set: all if few, else the first ones and the last two */
  int k = 0, i;
  hwloc_bitmap_foreach_begin(i, complete) { if (nb <= maxu - 3 || k < maxu - 5 || k >= nb - 2) u[nu++] = i; k++; } hwloc_bitmap_foreach_end();
  /* a hole inside the range if any */
  for (i = 0; i < last; i++) if (!hwloc_bitmap_isset(complete, i)) { u[nu++] = i; break; }
  u[nu++] = last + 1;
  u[nu++] = last < 64 ? 64 : last + 65;
  d->n = 0; d->s = malloc(((1u << nu) + 64) * sizeof(hwloc_bitmap_t));
  for (unsigned m = 0; m < (1u << nu); m++) { hwloc_bitmap_t b = hwloc_bitmap_alloc(); for (int j = 0; j < nu; j++) if (m & (1u << j)) hwloc_bitmap_set(b, u[j]); d->s[d->n++] = b; }
  hwloc_bitmap_t b;
  /* sets around the topology set and the complete set (the universe above may not hold all their positions) */
  d->s[d->n++] = hwloc_bitmap_dup(topo);
  d->s[d->n++] = hwloc_bitmap_dup(complete);
  b = hwloc_bitmap_dup(topo); hwloc_bitmap_clr(b, hwloc_bitmap_first(topo)); d->s[d->n++] = b;
  b = hwloc_bitmap_dup(topo); hwloc_bitmap_clr(b, hwloc_bitmap_last(topo)); d->s[d->n++] = b;
  b = hwloc_bitmap_dup(complete); hwloc_bitmap_clr(b, hwloc_bitmap_last(complete)); d->s[d->n++] = b;
  for (int j = 0; j < nu; j++) { b = hwloc_bitmap_dup(topo); hwloc_bitmap_set(b, u[j]); d->s[d->n++] = b; }
  for (int j = 0; j + 1 < nu; j++) { b = hwloc_bitmap_dup(topo); hwloc_bitmap_set(b, u[j]); hwloc_bitmap_set(b, u[j + 1]); d->s[d->n++] = b; }
  b = hwloc_bitmap_dup(topo); hwloc_bitmap_set_range(b, last + 2, -1); d->s[d->n++] = b;
  /* infinite variants */
  b = hwloc_bitmap_alloc_full(); d->s[d->n++] = b;
  b = hwloc_bitmap_dup(complete); hwloc_bitmap_set_range(b, last + 2, -1); d->s[d->n++] = b;
  b = hwloc_bitmap_alloc(); hwloc_bitmap_set_range(b, last + 1, -1); d->s[d->n++] = b;
  b = hwloc_bitmap_alloc(); hwloc_bitmap_set(b, hwloc_bitmap_first(complete)); hwloc_bitmap_set_range(b, 200, -1); d->s[d->n++] = b;
  b = hwloc_bitmap_alloc_full(); hwloc_bitmap_clr(b, hwloc_bitmap_first(complete)); d->s[d->n++] = b;
}

static int CPUFLAGS[64], NCPUFLAGS, MEMFLAGS[128], NMEMFLAGS;
static const int POLICIES[] = { HWLOC_MEMBIND_DEFAULT, HWLOC_MEMBIND_FIRSTTOUCH, HWLOC_MEMBIND_BIND, HWLOC_MEMBIND_INTERLEAVE, HWLOC_MEMBIND_WEIGHTED_INTERLEAVE, HWLOC_MEMBIND_NEXTTOUCH,
                                HWLOC_MEMBIND_MIXED, -2, 6, 7, 100, 0x7fffffff };
#define NPOL ((int)(sizeof(POLICIES) / sizeof(*POLICIES)))
#define CPU_ALL (HWLOC_CPUBIND_PROCESS | HWLOC_CPUBIND_THREAD | HWLOC_CPUBIND_STRICT | HWLOC_CPUBIND_NOMEMBIND)
#define MEM_ALL (HWLOC_MEMBIND_PROCESS | HWLOC_MEMBIND_THREAD | HWLOC_MEMBIND_STRICT | HWLOC_MEMBIND_MIGRATE | HWLOC_MEMBIND_NOCPUBIND | HWLOC_MEMBIND_BYNODESET)
static int policy_valid(int p) { return p == HWLOC_MEMBIND_DEFAULT || p == HWLOC_MEMBIND_FIRSTTOUCH || p == HWLOC_MEMBIND_BIND || p == HWLOC_MEMBIND_INTERLEAVE || p == HWLOC_MEMBIND_WEIGHTED_INTERLEAVE || p == HWLOC_MEMBIND_NEXTTOUCH; }

static void build_flags(void)
{
  static const int cb[] = { HWLOC_CPUBIND_PROCESS, HWLOC_CPUBIND_THREAD, HWLOC_CPUBIND_STRICT, HWLOC_CPUBIND_NOMEMBIND };
  for (int m = 0; m < 16; m++) { int f = 0; for (int j = 0; j < 4; j++) if (m & (1 << j)) f |= cb[j]; CPUFLAGS[NCPUFLAGS++] = f; }
  static const unsigned unk[] = { 1u << 4, 1u << 5, 1u << 16, 1u << 30, 1u << 31 };
  for (int j = 0; j < 5; j++) { CPUFLAGS[NCPUFLAGS++] = (int)unk[j]; CPUFLAGS[NCPUFLAGS++] = (int)(unk[j] | HWLOC_CPUBIND_THREAD); }
  static const int mb[] = { HWLOC_MEMBIND_PROCESS, HWLOC_MEMBIND_THREAD, HWLOC_MEMBIND_STRICT, HWLOC_MEMBIND_MIGRATE, HWLOC_MEMBIND_NOCPUBIND, HWLOC_MEMBIND_BYNODESET };
  for (int m = 0; m < 64; m++) { int f = 0; for (int j = 0; j < 6; j++) if (m & (1 << j)) f |= mb[j]; MEMFLAGS[NMEMFLAGS++] = f; }
  static const unsigned munk[] = { 1u << 6, 1u << 7, 1u << 20, 1u << 31 };
  for (int j = 0; j < 4; j++) { MEMFLAGS[NMEMFLAGS++] = (int)munk[j]; MEMFLAGS[NMEMFLAGS++] = (int)(munk[j] | HWLOC_MEMBIND_BYNODESET); MEMFLAGS[NMEMFLAGS++] = (int)(munk[j] | HWLOC_MEMBIND_THREAD | HWLOC_MEMBIND_STRICT); }
}

/* ------------------------------------------------------------------ reference model */
/* returns 0 and *e (set that may reach the OS), or EINVAL */
static int model_fix(hwloc_const_bitmap_t set, hwloc_const_bitmap_t topo, hwloc_const_bitmap_t complete, hwloc_bitmap_t e)
{
  if (hwloc_bitmap_iszero(set)) return EINVAL;
  if (!hwloc_bitmap_isincluded(set, complete)) return EINVAL;
  if (hwloc_bitmap_isincluded(topo, set)) hwloc_bitmap_copy(e, complete); else hwloc_bitmap_copy(e, set);
  return 0;
}
static int model_fix_membind(hwloc_topology_t t, hwloc_const_bitmap_t set, int bynodeset, hwloc_bitmap_t e)
{
  hwloc_const_bitmap_t tn = hwloc_topology_get_topology_nodeset(t), cn = hwloc_topology_get_complete_nodeset(t);
  if (bynodeset) return model_fix(set, tn, cn, e);
  hwloc_const_bitmap_t tc = hwloc_topology_get_topology_cpuset(t), cc = hwloc_topology_get_complete_cpuset(t);
  if (hwloc_bitmap_iszero(set)) return EINVAL;
  if (!hwloc_bitmap_isincluded(set, cc)) return EINVAL;
  hwloc_bitmap_t n = hwloc_bitmap_alloc();
  if (hwloc_bitmap_isincluded(tc, set)) hwloc_bitmap_copy(n, cn);
  else { hwloc_obj_t o = NULL; while ((o = hwloc_get_next_obj_by_type(t, HWLOC_OBJ_NUMANODE, o)) != NULL) if (hwloc_bitmap_intersects(o->cpuset, set)) hwloc_bitmap_set(n, o->os_index); }
  int r = model_fix(n, tn, cn, e);
  hwloc_bitmap_free(n);
  return r;
}

static char *bm(hwloc_const_bitmap_t b) { char *s; hwloc_bitmap_list_asprintf(&s, b); return s; }
static void logtext(struct sb *b) { for (int i = 0; i < nlog; i++) { if (i) sb_putc(b, ' '); mask_text(b, &LOG[i]); } if (!nlog) sb_puts(b, "nothing"); }

/* judge one set-call.  exp_err: EINVAL expected by the model (0 = arguments are legal), e = legal set */
static void judge_set(const struct topo *tp, const char *ep, const char *argtext, int rc, int err, int exp_err, hwloc_const_bitmap_t e, int hook_supported, int null_is_failure)
{
  (void)null_is_failure;
  struct sb b; sb_init(&b);
  if (exp_err) {
    if (rc != -1 || err != exp_err) mc_violation("c10.reject.status", "%s :: %s %s: expected -1/%s, got rc=%d errno=%d (%s)", mc_case_text(), ep, argtext, exp_err == EINVAL ? "EINVAL" : "ENOSYS", rc, err, strerror(err));
    if (nlog) { logtext(&b); mc_violation("c10.reject.touched-os", "%s :: %s %s: invalid arguments but the operating system was called: %s", mc_case_text(), ep, argtext, b.s); }
  } else if (!tp->thissystem) {
    if (rc != 0) mc_violation("c10.dummy.set-fails", "%s :: %s %s: not this system, expected success, got rc=%d errno=%d", mc_case_text(), ep, argtext, rc, err);
    if (nlog) { logtext(&b); mc_violation("c10.dummy.touched-os", "%s :: %s %s: not this system but the operating system was called: %s", mc_case_text(), ep, argtext, b.s); }
  } else if (!hook_supported) {
    if (rc != -1 || err != ENOSYS) mc_violation("c10.nohook.status", "%s :: %s %s: no hook, expected -1/ENOSYS, got rc=%d errno=%d", mc_case_text(), ep, argtext, rc, err);
    if (nlog) { logtext(&b); mc_violation("c10.nohook.touched-os", "%s :: %s %s: no hook but the operating system was called: %s", mc_case_text(), ep, argtext, b.s); }
  } else {
    for (int i = 0; i < nlog; i++) if (LOG[i].has_mask && !mask_equals(&LOG[i], e)) {
      char *es = bm(e); mask_text(&b, &LOG[i]);
      mc_violation("c10.os.mask", "%s :: %s %s: the operating system received %s, the legal set is {%s}", mc_case_text(), ep, argtext, b.s, es); free(es); break;
    }
    mc_count("calls_reaching_the_os_seam", nlog ? 1 : 0);
  }
  sb_free(&b);
}

static void restore_live(const struct topo *tp, const cpu_set_t *orig) { if (tp->live) { raw_setaff(orig); raw_mempolicy_default(); } }

/* ---- cpubind entry points */
static void args_cpubind(const struct topo *tp, int ep, hwloc_const_bitmap_t set, const cpu_set_t *orig)
{
  static const char *EPN[] = { "hwloc_set_cpubind", "hwloc_set_proc_cpubind", "hwloc_set_thread_cpubind" };
  hwloc_topology_t t = tp->t; const struct hwloc_topology_support *sup = hwloc_topology_get_support(t);
  hwloc_bitmap_t e = hwloc_bitmap_alloc(); char *st = bm(set);
  for (int fi = 0; fi < NCPUFLAGS; fi++) {
    int flags = CPUFLAGS[fi], rc = -9, err = 0; char at[300]; snprintf(at, sizeof(at), "set={%s} flags=0x%x", st, (unsigned)flags);
    int exp = (flags & ~CPU_ALL) ? EINVAL : model_fix(set, hwloc_topology_get_topology_cpuset(t), hwloc_topology_get_complete_cpuset(t), e);
    int hook = 1;
    if (ep == 0) hook = (flags & HWLOC_CPUBIND_PROCESS) ? sup->cpubind->set_thisproc_cpubind : (flags & HWLOC_CPUBIND_THREAD) ? sup->cpubind->set_thisthread_cpubind : (sup->cpubind->set_thisproc_cpubind || sup->cpubind->set_thisthread_cpubind);
    else if (ep == 1) hook = sup->cpubind->set_proc_cpubind; else hook = sup->cpubind->set_thread_cpubind;
    nlog = 0; seam_stub = !tp->live; seam_on = 1; MC.transitions++;
    if (MC_TRY(20000)) {
      errno = 0;
      if (ep == 0) rc = hwloc_set_cpubind(t, set, flags); else if (ep == 1) rc = hwloc_set_proc_cpubind(t, getpid(), set, flags); else rc = hwloc_set_thread_cpubind(t, pthread_self(), set, flags);
      err = errno; mc_try_end();
    }
    seam_on = 0; restore_live(tp, orig);
    if (mc_report_faults(EPN[ep])) continue;
    judge_set(tp, EPN[ep], at, rc, err, exp, e, hook, 0);
  }
  free(st); hwloc_bitmap_free(e);
}

/* ---- membind entry points */
static char *AREA;   /* one page owned by the harness */
static void args_membind(const struct topo *tp, int ep, hwloc_const_bitmap_t set, int setform /* 0 cpuset, 1 nodeset */, const cpu_set_t *orig)
{
  static const char *EPN[] = { "hwloc_set_membind", "hwloc_set_proc_membind", "hwloc_set_area_membind", "hwloc_alloc_membind" };
  hwloc_topology_t t = tp->t; const struct hwloc_topology_support *sup = hwloc_topology_get_support(t);
  hwloc_bitmap_t e = hwloc_bitmap_alloc(); char *st = bm(set);
  for (int fi = 0; fi < NMEMFLAGS; fi++) {
    int flags = MEMFLAGS[fi];
    if (!!(flags & HWLOC_MEMBIND_BYNODESET) != setform && !(flags & ~MEM_ALL)) continue;   /* the set is meant as a nodeset only with BYNODESET */
    for (int pi = 0; pi < NPOL; pi++) {
      int policy = POLICIES[pi], rc = -9, err = 0; void *p = NULL; char at[300]; snprintf(at, sizeof(at), "%s={%s} policy=%d flags=0x%x", (flags & HWLOC_MEMBIND_BYNODESET) ? "nodeset" : "cpuset", st, policy, (unsigned)flags);
      int exp = ((flags & ~MEM_ALL) || !policy_valid(policy)) ? EINVAL : model_fix_membind(t, set, !!(flags & HWLOC_MEMBIND_BYNODESET), e);
      int hook = 1;
      if (ep == 0) hook = (flags & HWLOC_MEMBIND_PROCESS) ? sup->membind->set_thisproc_membind : (flags & HWLOC_MEMBIND_THREAD) ? sup->membind->set_thisthread_membind : (sup->membind->set_thisproc_membind || sup->membind->set_thisthread_membind);
      else if (ep == 1) hook = sup->membind->set_proc_membind; else if (ep == 2) hook = sup->membind->set_area_membind; else hook = sup->membind->alloc_membind || sup->membind->set_area_membind;
      nlog = 0; seam_stub = !tp->live; seam_on = 1; MC.transitions++;
      if (MC_TRY(20000)) {
        errno = 0;
        if (ep == 0) rc = hwloc_set_membind(t, set, (hwloc_membind_policy_t)policy, flags);
        else if (ep == 1) rc = hwloc_set_proc_membind(t, getpid(), set, (hwloc_membind_policy_t)policy, flags);
        else if (ep == 2) rc = hwloc_set_area_membind(t, AREA + 64, 1000, set, (hwloc_membind_policy_t)policy, flags);
        else { p = hwloc_alloc_membind(t, 4096, set, (hwloc_membind_policy_t)policy, flags); rc = p ? 0 : -1; }
        err = errno; mc_try_end();
      }
      seam_on = 0;
      if (p) hwloc_free(t, p, 4096);
      restore_live(tp, orig);
      if (mc_report_faults(EPN[ep])) continue;
      if (ep == 3) {
        /* allocation: invalid flags/policy always fail; an illegal set fails only with STRICT, else plain allocation without binding */
        int hard = (flags & ~MEM_ALL) || !policy_valid(policy);
        if (exp && !hard && !(flags & HWLOC_MEMBIND_STRICT)) {
          if (!p) mc_violation("c10.alloc.fallback", "%s :: %s %s: non-strict allocation with an illegal set must fall back to a plain allocation, got NULL errno=%d", mc_case_text(), EPN[ep], at, err);
          if (nlog) { struct sb b; sb_init(&b); logtext(&b); mc_violation("c10.reject.touched-os", "%s :: %s %s: illegal set but the operating system was called: %s", mc_case_text(), EPN[ep], at, b.s); sb_free(&b); }
          continue;
        }
        if (!exp && (flags & HWLOC_MEMBIND_MIGRATE)) {
          /* documented: MIGRATE is meaningless for an allocation: EINVAL with STRICT, plain allocation otherwise */
          if (nlog) { struct sb b; sb_init(&b); logtext(&b); mc_violation("c10.reject.touched-os", "%s :: %s %s: MIGRATE is invalid for allocations but the operating system was called: %s", mc_case_text(), EPN[ep], at, b.s); sb_free(&b); }
          continue;
        }
        if (!exp && tp->thissystem && !hook && !(flags & HWLOC_MEMBIND_STRICT)) continue;   /* falls back to plain allocation */
      }
      judge_set(tp, EPN[ep], at, rc, err, exp, e, hook, ep == 3);
    }
  }
  free(st); hwloc_bitmap_free(e);
}

/* ---- get calls */
static void args_get(const struct topo *tp)
{
  hwloc_topology_t t = tp->t;
  hwloc_bitmap_t s = hwloc_bitmap_alloc(), allnodescpus = hwloc_bitmap_alloc();
  hwloc_obj_t o = NULL; while ((o = hwloc_get_next_obj_by_type(t, HWLOC_OBJ_NUMANODE, o)) != NULL) hwloc_bitmap_or(allnodescpus, allnodescpus, o->cpuset);
  static const char *GN[] = { "hwloc_get_cpubind", "hwloc_get_proc_cpubind", "hwloc_get_thread_cpubind", "hwloc_get_last_cpu_location", "hwloc_get_proc_last_cpu_location" };
  for (int g = 0; g < 5; g++) for (int fi = 0; fi < NCPUFLAGS; fi++) {
    int flags = CPUFLAGS[fi], rc = -9, err = 0;
    hwloc_bitmap_fill(s); nlog = 0; seam_stub = !tp->live; seam_on = 1; MC.transitions++;
    if (MC_TRY(20000)) {
      errno = 0;
      switch (g) { case 0: rc = hwloc_get_cpubind(t, s, flags); break; case 1: rc = hwloc_get_proc_cpubind(t, getpid(), s, flags); break; case 2: rc = hwloc_get_thread_cpubind(t, pthread_self(), s, flags); break;
                   case 3: rc = hwloc_get_last_cpu_location(t, s, flags); break; default: rc = hwloc_get_proc_last_cpu_location(t, getpid(), s, flags); }
      err = errno; mc_try_end();
    }
    seam_on = 0;
    if (mc_report_faults(GN[g])) continue;
    if (flags & ~CPU_ALL) { if (rc != -1 || err != EINVAL) mc_violation("c10.reject.status", "%s :: %s flags=0x%x: expected -1/EINVAL, got rc=%d errno=%d", mc_case_text(), GN[g], (unsigned)flags, rc, err); }
    else if (!tp->thissystem) {
      if (rc != 0 || !hwloc_bitmap_isequal(s, hwloc_topology_get_complete_cpuset(t))) { char *a = bm(s); mc_violation("c10.dummy.get", "%s :: %s flags=0x%x: not this system, expected 0 and the whole machine, got rc=%d {%s}", mc_case_text(), GN[g], (unsigned)flags, rc, a); free(a); }
    } else if (tp->live && rc == 0) {
      if (hwloc_bitmap_iszero(s) || !hwloc_bitmap_isincluded(s, hwloc_topology_get_complete_cpuset(t))) { char *a = bm(s); mc_violation("c10.live.get", "%s :: %s flags=0x%x returns {%s}, not a non-empty subset of the complete cpuset", mc_case_text(), GN[g], (unsigned)flags, a); free(a); }
    }
    if (nlog) mc_violation("c10.get.sets-binding", "%s :: %s flags=0x%x changed a binding through %s", mc_case_text(), GN[g], (unsigned)flags, OSN[LOG[0].kind]);
  }
  static const char *MN[] = { "hwloc_get_membind", "hwloc_get_proc_membind", "hwloc_get_area_membind", "hwloc_get_area_memlocation" };
  for (int g = 0; g < 4; g++) for (int fi = 0; fi < NMEMFLAGS; fi++) {
    int flags = MEMFLAGS[fi], rc = -9, err = 0; hwloc_membind_policy_t pol = (hwloc_membind_policy_t)12345;
    hwloc_bitmap_fill(s); nlog = 0; seam_stub = !tp->live; seam_on = 1; MC.transitions++;
    if (MC_TRY(20000)) {
      errno = 0;
      switch (g) { case 0: rc = hwloc_get_membind(t, s, &pol, flags); break; case 1: rc = hwloc_get_proc_membind(t, getpid(), s, &pol, flags); break;
                   case 2: rc = hwloc_get_area_membind(t, AREA + 64, 1000, s, &pol, flags); break; default: rc = hwloc_get_area_memlocation(t, AREA + 64, 1000, s, flags); }
      err = errno; mc_try_end();
    }
    seam_on = 0;
    if (mc_report_faults(MN[g])) continue;
    if (flags & ~MEM_ALL) { if (rc != -1 || err != EINVAL) mc_violation("c10.reject.status", "%s :: %s flags=0x%x: expected -1/EINVAL, got rc=%d errno=%d", mc_case_text(), MN[g], (unsigned)flags, rc, err); }
    else if (!tp->thissystem) {
      hwloc_const_bitmap_t want = (flags & HWLOC_MEMBIND_BYNODESET) ? hwloc_topology_get_complete_nodeset(t) : allnodescpus;
      if (rc != 0 || !hwloc_bitmap_isequal(s, want)) { char *a = bm(s), *w = bm(want); mc_violation("c10.dummy.get", "%s :: %s flags=0x%x: not this system, expected 0 and the whole machine {%s}, got rc=%d {%s}", mc_case_text(), MN[g], (unsigned)flags, w, rc, a); free(a); free(w); }
    }
    if (nlog) mc_violation("c10.get.sets-binding", "%s :: %s flags=0x%x changed a binding through %s", mc_case_text(), MN[g], (unsigned)flags, OSN[LOG[0].kind]);
  }
  hwloc_bitmap_free(s); hwloc_bitmap_free(allnodescpus);
}

static void stage_args(void)
{
  cpu_set_t orig; raw_getaff(&orig);
  build_topos(); build_flags();
  AREA = mmap(NULL, 8192, PROT_READ | PROT_WRITE, MAP_PRIVATE | MAP_ANONYMOUS, -1, 0); memset(AREA, 1, 8192);
  mc_note("%d topologies; %d cpubind flag words, %d membind flag words, %d policies", NT, NCPUFLAGS, NMEMFLAGS, NPOL);
  uint64_t idx = 0;
  for (int ti = 0; ti < NT; ti++) {
    const struct topo *tp = &T[ti];
    struct setdom dc, dn, dcs;
    build_domain(&dc, hwloc_topology_get_complete_cpuset(tp->t), hwloc_topology_get_topology_cpuset(tp->t), MC.thorough ? 11 : 9);
    build_domain(&dcs, hwloc_topology_get_complete_cpuset(tp->t), hwloc_topology_get_topology_cpuset(tp->t), MC.thorough ? 8 : 7);
    build_domain(&dn, hwloc_topology_get_complete_nodeset(tp->t), hwloc_topology_get_topology_nodeset(tp->t), MC.thorough ? 8 : 7);
    MC.states++;
    for (int ep = 0; ep < 3; ep++) for (int si = 0; si < dc.n; si++, idx++) {
      if (!mc_mine(idx) || mc_deadline()) continue;
      char *st = bm(dc.s[si]); int r = mc_case("args %s | cpubind entry %d set={%s}", tp->name, ep, st); free(st);
      if (r) args_cpubind(tp, ep, dc.s[si], &orig);
    }
    for (int ep = 0; ep < 4; ep++) for (int form = 0; form < 2; form++) { struct setdom *d = form ? &dn : &dcs; for (int si = 0; si < d->n; si++, idx++) {
      if (!mc_mine(idx) || mc_deadline()) continue;
      char *st = bm(d->s[si]); int r = mc_case("args %s | membind entry %d %s={%s}", tp->name, ep, form ? "nodeset" : "cpuset", st); free(st);
      if (r) args_membind(tp, ep, d->s[si], form, &orig);
    } }
    if (mc_mine(idx++) && !mc_deadline() && mc_case("args %s | get calls", tp->name)) args_get(tp);
    if (ti == 0) mc_sample("args %s | cpubind entry 0 set={%s} x %d flag words", tp->name, "0-1", NCPUFLAGS);
  }
  raw_setaff(&orig);
}

/* ------------------------------------------------------------------ live */
static void cpuset_of_mask(hwloc_bitmap_t b, const cpu_set_t *m) { hwloc_bitmap_zero(b); for (int i = 0; i < CPU_SETSIZE; i++) if (CPU_ISSET(i, m)) hwloc_bitmap_set(b, i); }
static void mask_of_cpuset(cpu_set_t *m, hwloc_const_bitmap_t b) { CPU_ZERO(m); int i; hwloc_bitmap_foreach_begin(i, b) { if (i < CPU_SETSIZE) CPU_SET(i, m); } hwloc_bitmap_foreach_end(); }

static void live_roundtrip(hwloc_topology_t t, hwloc_const_bitmap_t S, int variant)
{
  /* variant 0: THREAD flag; 1: PROCESS; 2: no flag; 3: set_proc_cpubind(getpid()); 4: set_thread_cpubind(pthread_self()) */
  static const char *VN[] = { "set_cpubind(THREAD)", "set_cpubind(PROCESS)", "set_cpubind(0)", "set_proc_cpubind(getpid)", "set_thread_cpubind(self)" };
  hwloc_bitmap_t got = hwloc_bitmap_alloc(), raw = hwloc_bitmap_alloc(), loc = hwloc_bitmap_alloc(); cpu_set_t m;
  int rc = -9, rg = -9, rl = -9; MC.transitions++;
  if (MC_TRY(20000)) {
    switch (variant) {
    case 0: rc = hwloc_set_cpubind(t, S, HWLOC_CPUBIND_THREAD); rg = hwloc_get_cpubind(t, got, HWLOC_CPUBIND_THREAD); rl = hwloc_get_last_cpu_location(t, loc, HWLOC_CPUBIND_THREAD); break;
    case 1: rc = hwloc_set_cpubind(t, S, HWLOC_CPUBIND_PROCESS); rg = hwloc_get_cpubind(t, got, HWLOC_CPUBIND_PROCESS); rl = hwloc_get_last_cpu_location(t, loc, HWLOC_CPUBIND_PROCESS); break;
    case 2: rc = hwloc_set_cpubind(t, S, 0); rg = hwloc_get_cpubind(t, got, 0); rl = hwloc_get_last_cpu_location(t, loc, 0); break;
    case 3: rc = hwloc_set_proc_cpubind(t, getpid(), S, 0); rg = hwloc_get_proc_cpubind(t, getpid(), got, 0); rl = hwloc_get_proc_last_cpu_location(t, getpid(), loc, 0); break;
    default: rc = hwloc_set_thread_cpubind(t, pthread_self(), S, 0); rg = hwloc_get_thread_cpubind(t, pthread_self(), got, 0); rl = hwloc_get_last_cpu_location(t, loc, HWLOC_CPUBIND_THREAD); break;
    }
    mc_try_end();
  }
  if (!mc_report_faults(VN[variant])) {
    raw_getaff(&m); cpuset_of_mask(raw, &m);
    char *s = bm(S), *g = bm(got), *r = bm(raw), *l = bm(loc);
    if (rc) mc_violation("c10.live.set-fails", "%s :: %s {%s} fails, errno=%d", mc_case_text(), VN[variant], s, errno);
    else {
      if (rg || !hwloc_bitmap_isequal(got, S)) mc_violation("c10.live.readback", "%s :: %s {%s}, reading back gives rc=%d {%s}", mc_case_text(), VN[variant], s, rg, g);
      if (!hwloc_bitmap_isequal(raw, S)) mc_violation("c10.live.kernel-mask", "%s :: %s {%s}, the kernel reports {%s}", mc_case_text(), VN[variant], s, r);
      if (rl || hwloc_bitmap_iszero(loc) || !hwloc_bitmap_isincluded(loc, S)) mc_violation("c10.live.last-location", "%s :: %s {%s}, last cpu location rc=%d {%s}", mc_case_text(), VN[variant], s, rl, l);
      MC.states++;
    }
    free(s); free(g); free(r); free(l);
  }
  hwloc_bitmap_free(got); hwloc_bitmap_free(raw); hwloc_bitmap_free(loc);
}

static void live_load_preserves(hwloc_const_bitmap_t S, const char *components, unsigned long flags);
/* the same with an emulated cpuset E (S inside E): binding to the PUs outside E fails during x86 discovery */
static void live_load_preserves_emul(hwloc_const_bitmap_t S, hwloc_const_bitmap_t E, const char *components, unsigned long flags)
{
  mask_of_cpuset(&emul_set, E); emul_on = 1;
  live_load_preserves(S, components, flags);
  emul_on = 0;
}
static void live_load_preserves(hwloc_const_bitmap_t S, const char *components, unsigned long flags)
{
  cpu_set_t m, after; mask_of_cpuset(&m, S); raw_setaff(&m);
  hwloc_bitmap_t a = hwloc_bitmap_alloc(); int rc = -9;
  if (components) setenv("HWLOC_COMPONENTS", components, 1); else unsetenv("HWLOC_COMPONENTS");
  nlog = 0; nlog_total = 0; seam_stub = 0; seam_on = 1; MC.transitions++;
  if (MC_TRY(60000)) {
    hwloc_topology_t t; hwloc_topology_init(&t); hwloc_topology_set_flags(t, flags); rc = hwloc_topology_load(t);
    hwloc_topology_destroy(t); mc_try_end();
  }
  seam_on = 0; unsetenv("HWLOC_COMPONENTS");
  if (!mc_report_faults("load")) {
    raw_getaff(&after); cpuset_of_mask(a, &after);
    mc_count("binding_changes_during_loads", (uint64_t)nlog_total);
    if (!hwloc_bitmap_isequal(a, S)) { char *s = bm(S), *g = bm(a); mc_violation("c10.live.load-changes-binding", "%s :: bound to {%s} before hwloc_topology_load (rc=%d), {%s} after (%d affinity calls during the load)", mc_case_text(), s, rc, g, nlog_total); free(s); free(g); }
    else MC.states++;
  }
  hwloc_bitmap_free(a);
}

/* the same from a second thread: the loading thread is bound to S while the main thread stays bound to M, so "the caller's
 * binding" and "the process binding" are different sets (seeded change C10-x86-restore-reuses-restrict-set: the x86 backend
 * restored what it had computed for RESTRICT_TO_CPUBINDING instead of what the calling thread was bound to) */
struct tload { const cpu_set_t *m; unsigned long flags; cpu_set_t after; int rc; };
static void *tload_body(void *arg)
{
  struct tload *tl = arg; raw_setaff(tl->m);
  hwloc_topology_t t; hwloc_topology_init(&t); hwloc_topology_set_flags(t, tl->flags); tl->rc = hwloc_topology_load(t); hwloc_topology_destroy(t);
  raw_getaff(&tl->after);
  return NULL;
}
static void live_load_preserves_thread(hwloc_const_bitmap_t S, hwloc_const_bitmap_t M, const char *components, unsigned long flags)
{
  cpu_set_t m, mm, mafter; mask_of_cpuset(&m, S); mask_of_cpuset(&mm, M); raw_setaff(&mm);
  if (components) setenv("HWLOC_COMPONENTS", components, 1); else unsetenv("HWLOC_COMPONENTS");
  nlog = 0; nlog_total = 0; seam_stub = 0; seam_on = 1; MC.transitions++;
  struct tload tl; memset(&tl, 0, sizeof(tl)); tl.m = &m; tl.flags = flags; tl.rc = -9;
  pthread_t th; if (pthread_create(&th, NULL, tload_body, &tl) == 0) pthread_join(th, NULL);
  seam_on = 0; unsetenv("HWLOC_COMPONENTS");
  hwloc_bitmap_t a = hwloc_bitmap_alloc(); cpuset_of_mask(a, &tl.after);
  if (!hwloc_bitmap_isequal(a, S)) { char *s = bm(S), *g = bm(a); mc_violation("c10.live.load-changes-binding", "%s :: the loading thread was bound to {%s} before hwloc_topology_load (rc=%d), {%s} after", mc_case_text(), s, tl.rc, g); free(s); free(g); }
  else MC.states++;
  raw_getaff(&mafter); cpuset_of_mask(a, &mafter);
  if (!hwloc_bitmap_isequal(a, M)) { char *s = bm(M), *g = bm(a); mc_violation("c10.live.load-changes-other-thread", "%s :: the main thread was bound to {%s} before another thread loaded a topology, {%s} after", mc_case_text(), s, g); free(s); free(g); }
  hwloc_bitmap_free(a);
}

static void stage_live(void)
{
  cpu_set_t orig; raw_getaff(&orig);
  hwloc_topology_t t; hwloc_topology_init(&t);
  if (hwloc_topology_load(t) < 0 || !hwloc_topology_is_thissystem(t)) { mc_note("the live topology does not load: live stage not run"); mc_count("live_unavailable", 1); return; }
  hwloc_bitmap_t allowed = hwloc_bitmap_dup(hwloc_topology_get_allowed_cpuset(t));
  hwloc_bitmap_t k = hwloc_bitmap_alloc(); cpuset_of_mask(k, &orig); hwloc_bitmap_and(allowed, allowed, k); hwloc_bitmap_free(k);
  int pos[64], n = 0, i; hwloc_bitmap_foreach_begin(i, allowed) { if (n < 64) pos[n++] = i; } hwloc_bitmap_foreach_end();
  int nbits = n > 16 ? 16 : n;   /* all subsets of (at most the first 16) allowed CPUs */
  mc_note("live: %d allowed CPUs, all non-empty subsets of the first %d: %u sets", n, nbits, (1u << nbits) - 1);
  hwloc_bitmap_t S = hwloc_bitmap_alloc();
  uint64_t idx = 0;
  for (unsigned m = 1; m < (1u << nbits); m++, idx++) {
    if (!mc_mine(idx / 64) || mc_deadline()) continue;
    hwloc_bitmap_zero(S); for (int j = 0; j < nbits; j++) if (m & (1u << j)) hwloc_bitmap_set(S, pos[j]);
    char *s = bm(S); int r = mc_case("live subset {%s}", s); free(s);
    if (!r) continue;
    live_roundtrip(t, S, 0);
    int w = __builtin_popcount(m);
    if (MC.thorough || w <= 2 || w >= nbits - 1) for (int v = 1; v < 5; v++) live_roundtrip(t, S, v);
  }
  /* the complete allowed set when larger than the enumerated universe */
  if (mc_mine(idx++) && mc_case("live whole allowed set")) { for (int v = 0; v < 5; v++) live_roundtrip(t, allowed, v); }
  raw_setaff(&orig);
  /* membind round trip on every NUMA node subset (small machines) */
  {
    hwloc_const_bitmap_t an = hwloc_topology_get_allowed_nodeset(t); int np[8], nn = 0; hwloc_bitmap_foreach_begin(i, an) { if (nn < 8) np[nn++] = i; } hwloc_bitmap_foreach_end();
    static const int POL[] = { HWLOC_MEMBIND_BIND, HWLOC_MEMBIND_INTERLEAVE };
    for (unsigned m = 1; m < (1u << nn); m++) for (int pi = 0; pi < 2; pi++, idx++) {
      if (!mc_mine(idx) || mc_deadline()) continue;
      hwloc_bitmap_zero(S); for (int j = 0; j < nn; j++) if (m & (1u << j)) hwloc_bitmap_set(S, np[j]);
      char *s = bm(S); int r = mc_case("live membind nodeset {%s} policy %d", s, POL[pi]); free(s); if (!r) continue;
      hwloc_bitmap_t got = hwloc_bitmap_alloc(); hwloc_membind_policy_t gp = (hwloc_membind_policy_t)77; int rc = -9, rg = -9; MC.transitions++;
      if (MC_TRY(20000)) { rc = hwloc_set_membind(t, S, (hwloc_membind_policy_t)POL[pi], HWLOC_MEMBIND_THREAD | HWLOC_MEMBIND_BYNODESET | HWLOC_MEMBIND_STRICT); rg = hwloc_get_membind(t, got, &gp, HWLOC_MEMBIND_THREAD | HWLOC_MEMBIND_BYNODESET); mc_try_end(); }
      raw_mempolicy_default();
      if (!mc_report_faults("membind")) {
        if (rc == 0 && (rg || !hwloc_bitmap_isequal(got, S) || (int)gp != POL[pi])) { char *a = bm(S), *b = bm(got); mc_violation("c10.live.membind-readback", "%s :: set {%s} policy %d, read back rc=%d {%s} policy %d", mc_case_text(), a, POL[pi], rg, b, (int)gp); free(a); free(b); }
        else if (rc == 0) MC.states++; else mc_count("live_membind_refused_by_kernel", 1);
      }
      hwloc_bitmap_free(got);
    }
  }
  /* load leaves the binding alone */
  {
    static const char *COMP[] = { NULL, "linux,stop", "x86,stop", "linux,x86,stop", "x86,linux,stop" };
    static const unsigned long FL[] = { 0, HWLOC_TOPOLOGY_FLAG_INCLUDE_DISALLOWED, HWLOC_TOPOLOGY_FLAG_IS_THISSYSTEM | HWLOC_TOPOLOGY_FLAG_THISSYSTEM_ALLOWED_RESOURCES, HWLOC_TOPOLOGY_FLAG_DONT_CHANGE_BINDING,
                                        HWLOC_TOPOLOGY_FLAG_RESTRICT_TO_CPUBINDING | HWLOC_TOPOLOGY_FLAG_IS_THISSYSTEM, HWLOC_TOPOLOGY_FLAG_RESTRICT_TO_MEMBINDING | HWLOC_TOPOLOGY_FLAG_IS_THISSYSTEM };
    const unsigned NFL = sizeof(FL) / sizeof(FL[0]);
    int lim = n > 16 ? 16 : n;
    for (int a = 0; a < lim; a++) for (int b = a; b <= lim; b++) {
      /* singletons (b == a), pairs, and once the whole set (b == lim, a == 0) */
      if (b == lim && a != 0) continue;
      hwloc_bitmap_zero(S);
      if (b == lim) hwloc_bitmap_copy(S, allowed); else { hwloc_bitmap_set(S, pos[a]); hwloc_bitmap_set(S, pos[b]); }
      if (!MC.thorough && b != a && b != lim && (b - a) != 1 && (a + b) % 5) continue;   /* quick: all singletons, neighbours and a fifth of the other pairs */
      for (unsigned c = 0; c < 5; c++) for (unsigned f = 0; f < NFL; f++, idx++) {
        if (!mc_mine(idx) || mc_deadline()) continue;
        char *s = bm(S); int r = mc_case("live load bound to {%s} components=%s flags=0x%lx", s, COMP[c] ? COMP[c] : "(default)", FL[f]); free(s);
        if (r) live_load_preserves(S, COMP[c], FL[f]);
      }
      /* from a second thread, the main thread being bound to all the allowed CPUs or to the other ones: singletons (and the
       * whole set) only */
      if (b == a || b == lim) for (int mv = 0; mv < 2; mv++) for (unsigned c = 0; c < 5; c++) for (unsigned f = 0; f < NFL; f++, idx++) {
        if (!mc_mine(idx) || mc_deadline()) continue;
        hwloc_bitmap_t M = hwloc_bitmap_dup(allowed); if (mv) { hwloc_bitmap_andnot(M, M, S); if (hwloc_bitmap_iszero(M)) { hwloc_bitmap_free(M); continue; } }
        char *s = bm(S), *ms = bm(M); int r = mc_case("live load from a second thread bound to {%s} (main thread bound to {%s}) components=%s flags=0x%lx", s, ms, COMP[c] ? COMP[c] : "(default)", FL[f]); free(s); free(ms);
        if (r) live_load_preserves_thread(S, M, COMP[c], FL[f]);
        hwloc_bitmap_free(M);
      }
    }
  }
  /* loads inside an emulated cpuset: E in {first half, even CPUs, all but the last}, S in {E, first CPU of E, last CPU of E} */
  if (n >= 4) {
    static const char *COMP2[] = { NULL, "x86,stop", "linux,x86,stop" };
    hwloc_bitmap_t E = hwloc_bitmap_alloc();
    for (int e = 0; e < 3; e++) {
      hwloc_bitmap_zero(E);
      for (int j = 0; j < n; j++) if ((e == 0 && j < n / 2) || (e == 1 && j % 2 == 0) || (e == 2 && j < n - 1)) hwloc_bitmap_set(E, pos[j]);
      for (int sv = 0; sv < 3; sv++) {
        hwloc_bitmap_zero(S); if (sv == 0) hwloc_bitmap_copy(S, E); else hwloc_bitmap_set(S, sv == 1 ? hwloc_bitmap_first(E) : hwloc_bitmap_last(E));
        for (unsigned c = 0; c < 3; c++, idx++) {
          if (!mc_mine(idx) || mc_deadline()) continue;
          char *s = bm(S), *es = bm(E); int r = mc_case("live load bound to {%s} inside an emulated cpuset {%s} components=%s", s, es, COMP2[c] ? COMP2[c] : "(default)"); free(s); free(es);
          if (r) live_load_preserves_emul(S, E, COMP2[c], 0);
        }
      }
    }
    hwloc_bitmap_free(E);
  }
  raw_setaff(&orig);
  mc_sample("live subset {%d} -> set_cpubind(THREAD), get_cpubind, get_last_cpu_location, sched_getaffinity", pos[0]);
  hwloc_bitmap_free(S); hwloc_bitmap_free(allowed);
  hwloc_topology_destroy(t);
}

int main(int argc, char **argv)
{
  seam_init();
  mc_init(argc, argv, "C10");
  const char *stage = mc_opt("stage"); if (!stage) stage = "args";
  if (!strcmp(stage, "args")) stage_args(); else stage_live();
  return mc_finish(1);
}
