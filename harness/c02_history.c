/* C02 - well-formedness is preserved by every history of modifying calls.
 *
 * Explicit-state BFS over the real library: a state is the history that reaches it
 * (replayed on a fresh topology), deduplicated on the canonical dump.  After every
 * transition: wf.c, hwloc_topology_check(), "unchanged when documented so", gp_index /
 * userdata tags of surviving objects.  Partitioned by (root, configuration).
 */
#include "hwmc.h"
#include "private/private.h"
#include <inttypes.h>
#include "univ.h"
#include "canon.h"
#include "wf.h"
#include "ops.h"

struct fentry { struct hist h; uint64_t key; };
static struct fentry *F; static size_t nF, capF;
static int capped;
static void fpush(const struct hist *h, uint64_t key)
{
  if (nF == capF) { capF = capF ? capF * 2 : 1024; F = realloc(F, capF * sizeof(*F)); }
  F[nF].h = *h; F[nF].key = key; nF++;
}

static const char *opkindname(const struct op *o) { static struct sb b; if (!b.s) sb_init(&b); sb_reset(&b); op_print(&b, o); char *p = strchr(b.s, '('); if (p) *p = 0; return b.s; }

static char *hist_text(const struct hist *h) { static struct sb b; if (!b.s) sb_init(&b); sb_reset(&b); hist_print(&b, h); return b.s; }

static int state_oracles(hwloc_topology_t t, const char *where)
{
  int bad = 0; char why[256];
  if (MC_TRY(30000)) { bad += wf_check_mc(t, where); mc_try_end(); }
  if (mc_report_faults("wf")) bad++;
  bad += wf_builtin_check_mc(t, where);
  if (hist_retag(t, why, sizeof(why))) { char k[128]; snprintf(k, sizeof(k), "c02.userdata-or-gp-changed@%s", where); mc_violation(k, "%s :: %s", mc_case_text(), why); bad++; }
  return bad;
}

static void explore(int root, int cfg, int maxdepth, const struct opscope *sc, size_t statecap)
{
  struct strset seen; strset_init(&seen);
  struct hist h0; memset(&h0, 0, sizeof(h0)); h0.root = root; h0.cfg = cfg;
  hwloc_topology_t t = NULL;
  nF = 0;
  mc_case("%s", hist_text(&h0));
  if (MC_TRY(30000)) { t = hist_build(&h0); mc_try_end(); }
  if (mc_report_faults("load")) { strset_free(&seen); return; }
  if (!t) { mc_count("roots_not_loadable_under_cfg", 1); strset_free(&seen); return; }
  state_oracles(t, "root");
  char *k = canon_str(t, CANON_ALL);
  strset_add(&seen, k, strlen(k)); fpush(&h0, mc_hash(k, strlen(k))); free(k);
  hwloc_topology_destroy(t);
  MC.states++;
  mc_count("roots", 1);

  for (size_t fi = 0; fi < nF; fi++) {
    struct hist h = F[fi].h;
    if (h.n >= maxdepth) continue;
    if (mc_deadline()) break;
    /* parent state: rebuilt, replay determinism asserted, alphabet computed from it */
    hwloc_topology_t p = hist_build(&h);
    if (!p) { mc_note("engine: parent state does not rebuild: %s", hist_text(&h)); continue; }
    char *before = canon_str(p, CANON_ALL);
    if (mc_hash(before, strlen(before)) != F[fi].key) { mc_note("engine: replay divergence at %s", hist_text(&h)); mc_count("engine_replay_divergence", 1); }
    struct op *ops; int nops = ops_enumerate(p, sc, &ops);
    hwloc_topology_destroy(p);
    mc_count_max("alphabet_max", (uint64_t)nops);
    for (int oi = 0; oi < nops; oi++) {
      struct hist hn = h; hn.ops[hn.n++] = ops[oi];
      if (!mc_case("%s", hist_text(&hn))) continue;
      const char *kn = opkindname(&ops[oi]);
      /* grouping at commit is a different code path from a plain add: separate key */
      char where[64]; snprintf(where, sizeof(where), "%s%s", kn, ops[oi].kind == OP_DIST_ADD && (ops[oi].flags & HWLOC_DISTANCES_ADD_FLAG_GROUP) ? "+group" : "");
      struct opres r; memset(&r, 0, sizeof(r));
      t = NULL;
      if (MC_TRY(30000)) { t = hist_build(&h); mc_try_end(); }
      if (mc_report_faults("replay") || !t) continue;
      /* who is there before the call (gp_index, type, Group kind) */
      struct who { hwloc_uint64_t gp; int type; unsigned gkind; int dont_merge; } *W = NULL; unsigned nW = 0;
      { hwloc_obj_t *ob; nW = canon_walk(t, &ob); W = malloc((nW + 1) * sizeof(*W)); for (unsigned q = 0; q < nW; q++) { W[q].gp = ob[q]->gp_index; W[q].type = (int)ob[q]->type; W[q].gkind = ob[q]->type == HWLOC_OBJ_GROUP ? ob[q]->attr->group.kind : 0; W[q].dont_merge = ob[q]->type == HWLOC_OBJ_GROUP ? ob[q]->attr->group.dont_merge : 0; } free(ob); }
      if (MC_TRY(30000)) { op_apply(t, &ops[oi], &r); mc_try_end(); }
      MC.transitions++;
      if (mc_report_faults(where)) { free(W); mc_leak_disable(); continue; /* half-modified topology abandoned */ }
      if (!r.applicable) { free(W); hwloc_topology_destroy(t); continue; }
      /* only restrict removes objects.  The one documented exception: inserting a Group equal to an existing Group of
       * lower priority (larger kind value), or a dont_merge Group equal to a mergeable one, lets the new one take its
       * place; otherwise the existing object is returned untouched (its gp_index and userdata survive) */
      if (ops[oi].kind != OP_RESTRICT) {
        hwloc_obj_t *ob; unsigned nA = canon_walk(t, &ob);
        for (unsigned q = 0; q < nW; q++) {
          int found = 0; for (unsigned z = 0; z < nA; z++) if (ob[z]->gp_index == W[q].gp) { found = 1; break; }
          if (found) continue;
          if (ops[oi].kind == OP_GROUP && W[q].type == HWLOC_OBJ_GROUP && W[q].gkind > (unsigned)ops[oi].a) continue;
          /* ... grouping by distances inserts Groups of kind HWLOC_GROUP_KIND_DISTANCE under the same priority rule */
          if (ops[oi].kind == OP_DIST_ADD && (ops[oi].flags & HWLOC_DISTANCES_ADD_FLAG_GROUP) && W[q].type == HWLOC_OBJ_GROUP && W[q].gkind > HWLOC_GROUP_KIND_DISTANCE) continue;
          /* ... and a Group that refuses merging takes the place of an equal mergeable one (by design of the merge rules) */
          if (ops[oi].kind == OP_GROUP && W[q].type == HWLOC_OBJ_GROUP && ops[oi].b && !W[q].dont_merge) continue;
          char key[128]; snprintf(key, sizeof(key), "c02.object-vanished@%s", where);
          mc_violation(key, "%s :: %s gp=%" PRIu64 "%s is gone after the call (rc=%d)", mc_case_text(), hwloc_obj_type_string((hwloc_obj_type_t)W[q].type), W[q].gp, W[q].type == HWLOC_OBJ_GROUP ? " (a Group of equal or higher priority than the inserted one)" : "", r.rc);
          break;
        }
        free(ob);
      }
      free(W);
      mc_outcome("op_outcomes", "%s rc=%d errno=%d", kn, r.rc, r.rc < 0 ? r.err : 0);
      int bad = state_oracles(t, where);
      char *after = NULL;
      if (MC_TRY(30000)) { after = canon_str(t, CANON_ALL); mc_try_end(); }
      if (mc_report_faults("canon")) bad++;
      if (after && MC.only && mc_opt("dump") && !strcmp(MC.only, mc_case_text())) fprintf(stderr, "---- before\n%s---- after (rc=%d errno=%d)\n%s", before, r.rc, r.err, after);
      if (after && r.must_be_unchanged) {
        mc_count("unchanged_checks", 1);
        if (strcmp(before, after)) { char key[128]; snprintf(key, sizeof(key), "c02.failed-call-modified@%s", where); mc_violation(key, "%s :: rc=%d errno=%d :: %s", mc_case_text(), r.rc, r.err, canon_diff(before, after)); bad++; }
      }
      if (after && !bad && strset_add(&seen, after, strlen(after))) {
        MC.states++;
        if (seen.n <= statecap) fpush(&hn, mc_hash(after, strlen(after))); else { capped = 1; mc_count("states_not_expanded_because_of_cap", 1); }
        if (MC.states % 5000 == 1) mc_sample("%s", hist_text(&hn));
      }
      free(after);
      if (MC_TRY(30000)) { hwloc_topology_destroy(t); mc_try_end(); }
      mc_report_faults("destroy");
    }
    free(ops); free(before);
    mc_count_max("max_depth_expanded", (uint64_t)h.n + 1);
  }
  strset_free(&seen);
}

int main(int argc, char **argv)
{
  mc_init(argc, argv, "C02");
  int nroots = univ_small_count(), ncfg = hist_ncfg();
  struct opscope sc; memset(&sc, 0, sizeof(sc));
  sc.classes = OPC_ALL; sc.all_restrict_flags = 0; sc.max_subset_bits = MC.thorough ? 4 : 2; sc.rich = 0; sc.lean = !MC.thorough;
  uint64_t idx = 0;
  mc_note("%d roots x %d configurations; alphabet classes: restrict, misc, group, allow, distances, memattr, cpukinds, infos/subtype, refresh", nroots, ncfg);
  for (int r = 0; r < nroots; r++) for (int c = 0; c < ncfg; c++, idx++) {
    if (!mc_mine(idx) || mc_deadline()) continue;
    /* depth bound by root size: the number of objects drives the alphabet */
    const struct usrc *s = univ_small(r);
    int small = s->kind == USRC_SYNTHETIC && strlen(s->text) <= 12;
    int depth = MC.thorough ? (small ? 3 : 2) : (c == 0 || c == 1 ? 2 : 1);
    size_t cap = MC.thorough ? 60000 : 400;
    explore(r, c, depth, &sc, cap);
  }
  if (mc_leak_check()) mc_violation("c02.leak", "leak reported at the end of part %d", MC.part);
  return mc_finish(!capped);
}
