/* C17 - documented thread-safety: concurrent readers of one refreshed topology, and threads that
 * each own a topology.
 *
 * Decided by stateless model checking of real threads (engine/mcsched.c): every schedule of the
 * worker threads with at most B preemptions is executed; scheduling points are the interposed
 * pthread_mutex operations and every access to a global variable of the library that is made
 * while no mutex is held (the library's .data/.bss are renamed at build time into one region that
 * is PROT_NONE while a schedule runs; each access traps, is logged, and is single-stepped).
 * Oracles on every execution:
 *   - happens-before race detector over the accesses to library globals;
 *   - readers: the shared topology lives in an arena that is PROT_READ while the workers run, any
 *     store is reported with the storing function (a reader that writes is a race with every
 *     other reader, whatever the schedule);
 *   - every thread's result digest equals the single-threaded digest;
 *   - deadlock = no enabled thread.
 * stage readers     : T threads, each running one group of the read-only battery, every tuple of groups
 * stage independent : T threads, each running an init/load/modify/export/destroy history, every tuple
 */
#define _GNU_SOURCE
#include "hwmc.h"
#include "univ.h"
#include "battery.h"
#include "mcsched.h"
#include "private/private.h"
#include <sys/mman.h>
#include <unistd.h>
#include <sched.h>

void mcs_snapshot_globals(void);

/* first object of the hwdata section (this file is linked before the library): one full page */
char c17_pad_a[4096] __attribute__((section("hwdata"), aligned(4096))) = { 1 };
extern char c17_pad_b[];

/* ------------------------------------------------------------------ reports */
static char CASE[600];
static void reporter(const struct mcs_report *r)
{
  char subject[128]; snprintf(subject, sizeof(subject), "%s", r->what); char *c = strchr(subject, ':'); if (c) *c = 0;
  char key[200]; snprintf(key, sizeof(key), "c17.%s:%s", r->kind, (!strcmp(r->kind, "race") || !strcmp(r->kind, "readonly-write")) ? subject : "-");
  mc_violation(key, "%s :: %s [schedule %s]", CASE, r->what, r->schedule[0] ? r->schedule : "(no choice)");
}

/* ------------------------------------------------------------------ arena */
#define ARENA_SIZE (16UL << 20)
static char *ARENA; static size_t arena_used;
static void *arena_malloc(struct hwloc_tma *tma, size_t n) { (void)tma; size_t a = (arena_used + 15) & ~15UL; if (a + n > ARENA_SIZE) { fprintf(stderr, "c17: arena exhausted\n"); abort(); } arena_used = a + n; return ARENA + a; }
static struct hwloc_tma TMA;

/* variant 1: the topology is annotated and modified after load (a HOPS-kind matrix over the PUs, a latency matrix over the
 * packages or NUMA nodes, a user memory attribute, then a restrict that removes the last PU): the documented precondition
 * for readers is then hwloc_topology_refresh(), which is called on the shared copy only - the original is left with its
 * lazily invalidated caches, so the refresh of the copy has real work to do */
/* variants 2..4: the same, on a topology loaded with NO_DISTANCES / NO_MEMATTRS / NO_CPUKINDS: the flag stops the backends,
 * the annotations added by the user afterwards are live all the same and hwloc_topology_refresh() must refresh them
 * (seeded change C17-refresh-wrong-flag: the guard of one refresh step tested the flag of another) */
#define NVARIANTS 6
static const unsigned long VFLAGS[NVARIANTS] = { 0, 0, HWLOC_TOPOLOGY_FLAG_NO_DISTANCES, HWLOC_TOPOLOGY_FLAG_NO_MEMATTRS, HWLOC_TOPOLOGY_FLAG_NO_CPUKINDS,
  /* variant 5: nothing but a load, with RESTRICT_TO_CPUBINDING while the loading thread is bound to the first three CPUs: the
   * load itself restricts the topology (after its own end-of-load refresh), "once a topology has been loaded" must still hold */
  HWLOC_TOPOLOGY_FLAG_RESTRICT_TO_CPUBINDING | HWLOC_TOPOLOGY_FLAG_IS_THISSYSTEM };
static const char *VNAME[NVARIANTS] = { "", " (annotated, restricted, refreshed)", " (NO_DISTANCES, annotated, restricted, refreshed)", " (NO_MEMATTRS, annotated, restricted, refreshed)", " (NO_CPUKINDS, annotated, restricted, refreshed)", " (loaded with RESTRICT_TO_CPUBINDING while bound to CPUs 0-2)" };
static hwloc_topology_t load_variant(const struct usrc *s, int variant)
{
  struct ucfg c; ucfg_keepall(&c); hwloc_topology_t t;
  c.flags |= VFLAGS[variant];
  if (variant == 5) {
    cpu_set_t before, three; CPU_ZERO(&three); CPU_SET(0, &three); CPU_SET(1, &three); CPU_SET(2, &three);
    if (sched_getaffinity(0, sizeof(before), &before) < 0 || sched_setaffinity(0, sizeof(three), &three) < 0) return NULL;
    int rc = univ_load(&t, s, &c);
    sched_setaffinity(0, sizeof(before), &before);
    if (rc) return NULL;
    if (hwloc_get_nbobjs_by_type(t, HWLOC_OBJ_PU) != 3) { hwloc_topology_destroy(t); return NULL; }   /* the source does not have these PUs */
    /* "once a topology has been loaded" readers may start: the load must not leave lazy refresh work behind.  The readers
     * below run on an arena copy that the harness refreshes itself, so what the load left is read off the internal flags
     * (the one white-box clause of this check) */
    { struct hwloc_internal_distances_s *d; unsigned stale = 0; struct sb w; sb_init(&w);
      for (d = t->first_dist; d; d = d->next) if (!(d->iflags & HWLOC_INTERNAL_DIST_FLAG_OBJS_VALID)) { stale++; sb_printf(&w, " distances \"%s\"", d->name ? d->name : "(anonymous)"); }
      for (unsigned i = 0; i < t->nr_memattrs; i++) if (!(t->memattrs[i].iflags & (HWLOC_IMATTR_FLAG_CACHE_VALID | HWLOC_IMATTR_FLAG_CONVENIENCE))) { stale++; sb_printf(&w, " memattr \"%s\"", t->memattrs[i].name); }
      if (stale) mc_violation("c17.load.leaves-lazy-refresh", "%s loaded with RESTRICT_TO_CPUBINDING while bound to CPUs 0-2 :: hwloc_topology_load() returns with %u structures still to be refreshed by the first reader:%s", s->name, stale, w.s);
      else mc_count("loads_left_nothing_to_refresh", 1);
      sb_free(&w); }
    return t;
  }
  if (univ_load(&t, s, &c)) return NULL;
  if (!variant) return t;
  unsigned npu = hwloc_get_nbobjs_by_type(t, HWLOC_OBJ_PU);
  if (npu < 4) { hwloc_topology_destroy(t); return NULL; }
  hwloc_obj_t objs[8]; hwloc_uint64_t vals[64]; unsigned n = npu > 8 ? 8 : npu;
  for (unsigned i = 0; i < n; i++) objs[i] = hwloc_get_obj_by_type(t, HWLOC_OBJ_PU, i);
  for (unsigned i = 0; i < n * n; i++) vals[i] = (i / n == i % n) ? 0 : 1 + (i % 3);
  hwloc_distances_add_handle_t h = hwloc_distances_add_create(t, "c17hops", HWLOC_DISTANCES_KIND_FROM_USER | HWLOC_DISTANCES_KIND_VALUE_HOPS, 0);
  if (h && hwloc_distances_add_values(t, h, n, objs, vals, 0) == 0) hwloc_distances_add_commit(t, h, 0);
  unsigned nn = hwloc_get_nbobjs_by_type(t, HWLOC_OBJ_NUMANODE);
  if (nn >= 2) {
    if (nn > 8) nn = 8;
    for (unsigned i = 0; i < nn; i++) objs[i] = hwloc_get_obj_by_type(t, HWLOC_OBJ_NUMANODE, i);
    for (unsigned i = 0; i < nn * nn; i++) vals[i] = (i / nn == i % nn) ? 10 : 20;
    h = hwloc_distances_add_create(t, "c17lat", HWLOC_DISTANCES_KIND_FROM_USER | HWLOC_DISTANCES_KIND_VALUE_LATENCY, 0);
    if (h && hwloc_distances_add_values(t, h, nn, objs, vals, 0) == 0) hwloc_distances_add_commit(t, h, 0);
  }
  hwloc_memattr_id_t id;
  if (hwloc_memattr_register(t, "c17attr", HWLOC_MEMATTR_FLAG_HIGHER_FIRST, &id) == 0)
    for (unsigned i = 0; i < hwloc_get_nbobjs_by_type(t, HWLOC_OBJ_NUMANODE); i++) hwloc_memattr_set_value(t, id, hwloc_get_obj_by_type(t, HWLOC_OBJ_NUMANODE, i), NULL, 0, 100 + i);
  /* an attribute with initiators: one value per (node, PU pair) - the restrict below empties the last initiator's cpuset partly */
  if (hwloc_memattr_register(t, "c17bw", HWLOC_MEMATTR_FLAG_HIGHER_FIRST | HWLOC_MEMATTR_FLAG_NEED_INITIATOR, &id) == 0) {
    hwloc_obj_t node = hwloc_get_obj_by_type(t, HWLOC_OBJ_NUMANODE, 0);
    for (unsigned i = 0; node && i + 1 < npu && i < 8; i += 2) {
      struct hwloc_location loc; hwloc_bitmap_t cs = hwloc_bitmap_alloc();
      hwloc_bitmap_set(cs, hwloc_get_obj_by_type(t, HWLOC_OBJ_PU, i)->os_index); hwloc_bitmap_set(cs, hwloc_get_obj_by_type(t, HWLOC_OBJ_PU, i + 1)->os_index);
      loc.type = HWLOC_LOCATION_TYPE_CPUSET; loc.location.cpuset = cs;
      hwloc_memattr_set_value(t, id, node, &loc, 0, 10 + i);
      hwloc_bitmap_free(cs);
    }
  }
  /* two CPU kinds over the first PUs */
  { hwloc_bitmap_t k = hwloc_bitmap_alloc(); struct hwloc_info_s info = { (char *)"c17kind", (char *)"a" };
    hwloc_bitmap_set(k, hwloc_get_obj_by_type(t, HWLOC_OBJ_PU, 0)->os_index); hwloc_cpukinds_register(t, k, 1, &(struct hwloc_infos_s){ &info, 1, 1 }, 0);
    hwloc_bitmap_zero(k); hwloc_bitmap_set(k, hwloc_get_obj_by_type(t, HWLOC_OBJ_PU, npu - 1)->os_index); hwloc_bitmap_set(k, hwloc_get_obj_by_type(t, HWLOC_OBJ_PU, 1)->os_index);
    hwloc_cpukinds_register(t, k, 2, NULL, 0); hwloc_bitmap_free(k); }
  /* remove the last PU: every matrix over the PUs loses an object */
  hwloc_bitmap_t keep = hwloc_bitmap_dup(hwloc_topology_get_topology_cpuset(t)); hwloc_bitmap_clr(keep, (unsigned)hwloc_bitmap_last(keep));
  hwloc_topology_restrict(t, keep, 0); hwloc_bitmap_free(keep);
  return t;
}

static hwloc_topology_t shared_from(const struct usrc *s, int variant)
{
  hwloc_topology_t t0 = load_variant(s, variant), t = NULL; int refresh = 1;   /* the arena copy is the harness' instrument (a dup always has to look its objects up again): refreshed in every variant */
  if (!t0) return NULL;
  arena_used = 0; memset(ARENA, 0, 4096);
  TMA.malloc = arena_malloc; TMA.data = NULL; TMA.dontfree = 1;
  if (hwloc__topology_dup(&t, t0, &TMA) < 0) t = NULL;
  hwloc_topology_destroy(t0);
  if (t && refresh) hwloc_topology_refresh(t);
  return t;
}

/* ------------------------------------------------------------------ readers */
struct rd { hwloc_topology_t t; int group[MCS_MAXT]; struct sb dig[MCS_MAXT]; char *ref[BAT_NGROUPS]; int nthreads; };
static void rd_body(int tid, void *arg) { struct rd *r = arg; battery_group(r->t, r->group[tid], &r->dig[tid]); }
static void rd_before(void *arg) { struct rd *r = arg; for (int i = 0; i < r->nthreads; i++) sb_reset(&r->dig[i]); }
static void rd_after(void *arg)
{
  struct rd *r = arg;
  for (int i = 0; i < r->nthreads; i++) {
    const char *got = r->dig[i].s ? r->dig[i].s : "", *want = r->ref[r->group[i]];
    if (strcmp(got, want)) { size_t d = 0; while (got[d] && got[d] == want[d]) d++; mc_violation("c17.readers.result", "%s :: thread %d (battery group %d) sees '%.60s' where the single-threaded run sees '%.60s' (offset %zu)", CASE, i, r->group[i], got + d, want + d, d); }
  }
}
static const char *GN[BAT_NGROUPS] = { "traversal", "print", "helpers", "distances", "memattrs", "cpukinds", "sets", "xml", "synthetic", "lookups" };

static void stage_readers(struct mcs_stats *tot)
{
  static const char *SRC[] = { "@annot.xml", "@memcache.xml", "package:2 core:2 pu:2", "@io.xml", "@nested.xml", "numa:2 pu:2" };
  int nsrc = MC.thorough ? 6 : 3, T = MC.thorough ? 3 : 2;
  uint64_t idx = 0;
  for (int si = 0; si < nsrc; si++) {
    struct usrc s; memset(&s, 0, sizeof(s)); static char path[600];
    if (SRC[si][0] == '@') { snprintf(path, sizeof(path), "%s/harness/fixtures/%s", univ_verif(), SRC[si] + 1); s.kind = USRC_XMLFILE; s.text = path; } else { s.kind = USRC_SYNTHETIC; s.text = (char *)SRC[si]; }
    s.name = (char *)SRC[si];
    for (int variant = 0; variant < NVARIANTS; variant++) {
    if (variant >= 2 && !MC.thorough && si != 0) continue;   /* quick: the flag variants on the richest source only */
    struct rd r; memset(&r, 0, sizeof(r)); r.nthreads = T;
    r.t = shared_from(&s, variant);
    if (!r.t) { if (!variant) mc_note("source %s does not load", SRC[si]); continue; }
    for (int i = 0; i < T; i++) sb_init(&r.dig[i]);
    /* single-threaded reference digests (also warms nothing up: the globals are reset to the post-load state before every execution) */
    mcs_snapshot_globals();
    /* ... computed on a separate heap copy of the same source: running the battery on the shared topology here would
     * perform (and hide) any lazy update that a reader would otherwise have to do */
    { hwloc_topology_t tref = load_variant(&s, variant); if (!tref) { mc_note("source %s does not load twice", SRC[si]); continue; }
      hwloc_topology_refresh(tref);
      for (int g = 0; g < BAT_NGROUPS; g++) { struct sb d; sb_init(&d); battery_group(tref, g, &d); r.ref[g] = strdup(d.s ? d.s : ""); sb_free(&d); }
      hwloc_topology_destroy(tref); }
    mcs_snapshot_globals();
    mcs_readonly_clear(); mcs_readonly_region(ARENA, ARENA_SIZE, "topology");
    MC.states++;
    /* every tuple of groups (unordered: the threads are symmetric) */
    int g[MCS_MAXT] = {0};
    for (g[0] = 0; g[0] < BAT_NGROUPS; g[0]++) for (g[1] = g[0]; g[1] < BAT_NGROUPS; g[1]++) for (g[2] = (T > 2 ? g[1] : 0); g[2] < (T > 2 ? BAT_NGROUPS : 1); g[2]++, idx++) {
      if (!mc_mine(idx) || mc_deadline()) continue;
      snprintf(CASE, sizeof(CASE), "readers of %s%s: %s | %s%s%s", SRC[si], VNAME[variant], GN[g[0]], GN[g[1]], T > 2 ? " | " : "", T > 2 ? GN[g[2]] : "");
      if (!mc_case("%s", CASE)) continue;
      for (int i = 0; i < T; i++) r.group[i] = g[i];
      struct mcs_cfg cfg = { T, rd_body, rd_before, rd_after, &r, MC.thorough ? 3 : 2, 0, MC.thorough ? 600.0 : 150.0 };
      struct mcs_stats st;
      const char *sched = mc_opt("schedule");
      if (sched && MC.only) mcs_replay(&cfg, sched, &st); else mcs_explore(&cfg, &st);
      tot->executions += st.executions; tot->points += st.points; tot->accesses += st.accesses; tot->races += st.races; tot->readonly_writes += st.readonly_writes; tot->deadlocks += st.deadlocks;
      if (st.max_points > tot->max_points) tot->max_points = st.max_points;
      if (st.capped) { tot->capped = 1; mc_count("tuples_capped_by_budget", 1); }
      mc_count_max("preemption_bound_completed_max", (uint64_t)(st.bound_completed < 0 ? 0 : st.bound_completed));
      if (st.bound_completed < cfg.bound) mc_count("tuples_below_the_target_bound", 1);
      MC.transitions += st.executions;
    }
    for (int gi = 0; gi < BAT_NGROUPS; gi++) free(r.ref[gi]);
    for (int i = 0; i < T; i++) sb_free(&r.dig[i]);
    }
    /* negative control of the precondition: without hwloc_topology_refresh() after a modification readers do write.
     * Only counted (the property requires the refresh). */
  }
  mc_sample("readers of @annot.xml: xml | xml, every schedule with at most %d preemptions", MC.thorough ? 3 : 2);
}

/* ------------------------------------------------------------------ independent topologies */
enum { H_INIT_DESTROY, H_SYNTHETIC, H_MODIFY_EXPORT, H_XML, H_DIFF, H_ANNOTATE, H_NHIST };
static const char *HN[H_NHIST] = { "init;destroy", "init;synthetic;load;export-synthetic;destroy", "init;synthetic;load;insert-misc;restrict;refresh;export-xml;destroy", "init;xmlbuffer;load;distances;export-xml;destroy",
  "init;synthetic;load;dup;add-info;restrict;diff-build(too complex);diff-export(fails);dup;change-info;diff-build;diff-export;diff-load;diff-apply;destroy x3",
  "init;synthetic;load;memattr;cpukind;distances+group;allow;dup;export-xml;destroy x2" };
struct ind { int hist[MCS_MAXT]; struct sb dig[MCS_MAXT]; char *ref[H_NHIST]; char *xml; int xmllen; int nthreads; };

static void history(int h, struct sb *d, const struct ind *in)
{
  hwloc_topology_t t;
  if (hwloc_topology_init(&t) < 0) { sb_puts(d, "init-failed"); return; }
  if (h == H_INIT_DESTROY) { sb_puts(d, "ok"); hwloc_topology_destroy(t); return; }
  if (h == H_DIFF) {
    hwloc_topology_t t2 = NULL, t3 = NULL; hwloc_topology_diff_t diff = NULL; char *x = NULL; int l = 0;
    if (hwloc_topology_set_synthetic(t, "numa:2 pu:2") < 0 || hwloc_topology_load(t) < 0) { sb_puts(d, "load-failed"); hwloc_topology_destroy(t); return; }
    hwloc_obj_add_info(hwloc_get_root_obj(t), "c17", "one");
    if (hwloc_topology_dup(&t2, t) < 0) sb_puts(d, "dup-failed");
    else {
      /* an added info pair and a removed PU: not expressible, the diff is one TOO_COMPLEX entry */
      hwloc_obj_add_info(hwloc_get_root_obj(t2), "c17extra", "x");
      { hwloc_bitmap_t keep = hwloc_bitmap_alloc(); hwloc_bitmap_set_range(keep, 0, 2); hwloc_topology_restrict(t2, keep, 0); hwloc_bitmap_free(keep); }
      int rc = hwloc_topology_diff_build(t, t2, 0, &diff); sb_printf(d, "build=%d;", rc);
      rc = hwloc_topology_diff_export_xmlbuffer(diff, "ref", &x, &l); sb_printf(d, "export-too-complex=%d;", rc);
      if (rc == 0) free(x);
      hwloc_topology_diff_destroy(diff); diff = NULL;
      hwloc_topology_destroy(t2);
    }
    if (hwloc_topology_dup(&t3, t) < 0) sb_puts(d, "dup2-failed");
    else {
      hwloc_modify_infos(&hwloc_get_root_obj(t3)->infos, HWLOC_MODIFY_INFOS_OP_REPLACE, "c17", "two");
      int rc = hwloc_topology_diff_build(t, t3, 0, &diff); sb_printf(d, "build2=%d;", rc);
      rc = hwloc_topology_diff_export_xmlbuffer(diff, "ref", &x, &l); sb_printf(d, "export=%d;", rc);
      hwloc_topology_diff_destroy(diff); diff = NULL;
      if (rc == 0) {
        char *ref = NULL; rc = hwloc_topology_diff_load_xmlbuffer(x, l, &diff, &ref); sb_printf(d, "load=%d ref=%s;", rc, ref ? ref : "(null)"); free(ref); free(x);
        if (rc == 0) { rc = hwloc_topology_diff_apply(t, diff, 0); const char *v = hwloc_obj_get_info_by_name(hwloc_get_root_obj(t), "c17"); sb_printf(d, "apply=%d value=%s;", rc, v ? v : "(null)"); hwloc_topology_diff_destroy(diff); }
      }
      hwloc_topology_destroy(t3);
    }
    /* the components a new topology needs must still be there */
    { hwloc_topology_t t4; if (hwloc_topology_init(&t4) == 0) { int rc = hwloc_topology_set_synthetic(t4, "pu:2"); if (rc == 0) rc = hwloc_topology_load(t4); sb_printf(d, "again=%d;", rc); hwloc_topology_destroy(t4); } }
    hwloc_topology_destroy(t); return;
  }
  if (h == H_ANNOTATE) {
    if (hwloc_topology_set_synthetic(t, "numa:4 pu:2") < 0 || hwloc_topology_set_flags(t, HWLOC_TOPOLOGY_FLAG_INCLUDE_DISALLOWED) < 0 || hwloc_topology_load(t) < 0) { sb_puts(d, "load-failed"); hwloc_topology_destroy(t); return; }
    hwloc_memattr_id_t id; int rc = hwloc_memattr_register(t, "c17attr", HWLOC_MEMATTR_FLAG_LOWER_FIRST, &id);
    if (rc == 0) for (unsigned i = 0; i < 4; i++) hwloc_memattr_set_value(t, id, hwloc_get_obj_by_type(t, HWLOC_OBJ_NUMANODE, i), NULL, 0, 7 - i);
    hwloc_bitmap_t k = hwloc_bitmap_alloc(); hwloc_bitmap_set_range(k, 0, 3); rc = hwloc_cpukinds_register(t, k, 3, NULL, 0); sb_printf(d, "kind=%d;", rc);
    hwloc_obj_t objs[4]; hwloc_uint64_t vals[16];
    for (unsigned i = 0; i < 4; i++) objs[i] = hwloc_get_obj_by_type(t, HWLOC_OBJ_NUMANODE, i);
    for (unsigned i = 0; i < 16; i++) vals[i] = (i / 4 == i % 4) ? 10 : ((i / 4) / 2 == (i % 4) / 2 ? 20 : 40);
    hwloc_distances_add_handle_t hd = hwloc_distances_add_create(t, "c17lat", HWLOC_DISTANCES_KIND_FROM_USER | HWLOC_DISTANCES_KIND_VALUE_LATENCY, 0);
    if (hd && hwloc_distances_add_values(t, hd, 4, objs, vals, 0) == 0) { rc = hwloc_distances_add_commit(t, hd, HWLOC_DISTANCES_ADD_FLAG_GROUP); sb_printf(d, "commit=%d groups=%d;", rc, hwloc_get_nbobjs_by_type(t, HWLOC_OBJ_GROUP)); }
    hwloc_bitmap_zero(k); hwloc_bitmap_set_range(k, 0, 5); rc = hwloc_topology_allow(t, k, NULL, HWLOC_ALLOW_FLAG_CUSTOM); sb_printf(d, "allow=%d;", rc); hwloc_bitmap_free(k);
    hwloc_topology_t t2 = NULL;
    if (hwloc_topology_dup(&t2, t) == 0) { char *x; int l; if (hwloc_topology_export_xmlbuffer(t2, &x, &l, 0) == 0) { sb_puts(d, x); hwloc_free_xmlbuffer(t2, x); } else sb_puts(d, "export-failed"); hwloc_topology_destroy(t2); } else sb_puts(d, "dup-failed");
    hwloc_topology_destroy(t); return;
  }
  if (h == H_XML) { if (hwloc_topology_set_xmlbuffer(t, in->xml, in->xmllen) < 0) sb_puts(d, "set-xml-failed"); }
  else if (hwloc_topology_set_synthetic(t, h == H_SYNTHETIC ? "package:2 core:2 pu:2" : "numa:2 l2:2 pu:2") < 0) sb_puts(d, "set-synthetic-failed");
  if (hwloc_topology_load(t) < 0) { sb_puts(d, "load-failed"); hwloc_topology_destroy(t); return; }
  if (h == H_SYNTHETIC) { char buf[512]; hwloc_topology_export_synthetic(t, buf, sizeof(buf), 0); sb_puts(d, buf); }
  else if (h == H_MODIFY_EXPORT) {
    hwloc_topology_insert_misc_object(t, hwloc_get_root_obj(t), "c17");
    hwloc_bitmap_t s = hwloc_bitmap_alloc(); hwloc_bitmap_set_range(s, 0, 5); hwloc_topology_restrict(t, s, 0); hwloc_bitmap_free(s);
    hwloc_topology_refresh(t);
    char *x; int l; if (hwloc_topology_export_xmlbuffer(t, &x, &l, 0) == 0) { sb_puts(d, x); hwloc_free_xmlbuffer(t, x); } else sb_puts(d, "export-failed");
  } else {
    unsigned nr = 4; struct hwloc_distances_s *ds[4]; if (hwloc_distances_get(t, &nr, ds, 0, 0) == 0) { sb_printf(d, "distances=%u;", nr); for (unsigned i = 0; i < nr && i < 4; i++) hwloc_distances_release(t, ds[i]); }
    char *x; int l; if (hwloc_topology_export_xmlbuffer(t, &x, &l, 0) == 0) { sb_puts(d, x); hwloc_free_xmlbuffer(t, x); } else sb_puts(d, "export-failed");
  }
  hwloc_topology_destroy(t);
}
static void ind_body(int tid, void *arg) { struct ind *in = arg; history(in->hist[tid], &in->dig[tid], in); }
static void ind_before(void *arg) { struct ind *in = arg; for (int i = 0; i < in->nthreads; i++) sb_reset(&in->dig[i]); }
static void ind_after(void *arg)
{
  struct ind *in = arg;
  for (int i = 0; i < in->nthreads; i++) {
    const char *got = in->dig[i].s ? in->dig[i].s : "", *want = in->ref[in->hist[i]];
    if (strcmp(got, want)) { size_t d = 0; while (got[d] && got[d] == want[d]) d++; mc_violation("c17.independent.result", "%s :: thread %d (%s) ends with '%.60s' where the single-threaded run gives '%.60s' (offset %zu)", CASE, i, HN[in->hist[i]], got + d, want + d, d); }
  }
  /* every topology has been destroyed: the process-wide component registry must be released (its user count is a static of
   * components.c, found through the symbol table; a change that renames it makes this clause vacuous, which is counted) */
  { static unsigned *users; static int looked; if (!looked) { looked = 1; users = mcs_symbol_addr("hwloc_components_users"); }
    if (!users) mc_count("registry_refcount_symbol_missing", 1);
    else { mc_count("registry_refcount_checked", 1); if (*users != 0) mc_violation("c17.independent.registry-refcount", "%s :: every topology is destroyed and hwloc_components_users is %u", CASE, *users); } }
}

static void stage_independent(struct mcs_stats *tot)
{
  int T = MC.thorough ? 3 : 2;
  struct ind in; memset(&in, 0, sizeof(in)); in.nthreads = T;
  { char path[600]; snprintf(path, sizeof(path), "%s/harness/fixtures/annot.xml", univ_verif()); in.xml = univ_read_file(path, &in.xmllen); in.xmllen++; }
  for (int i = 0; i < T; i++) sb_init(&in.dig[i]);
  /* reference digests from the pristine state of the library, which is then restored */
  for (int h = 0; h < H_NHIST; h++) { struct sb d; sb_init(&d); history(h, &d, &in); in.ref[h] = strdup(d.s ? d.s : ""); sb_free(&d); if (MC.part == 0) mc_note("single-threaded digest of [%s] starts with: %.160s", HN[h], in.ref[h]); }
  mcs_readonly_clear();
  uint64_t idx = 0; int h[MCS_MAXT] = {0};
  for (h[0] = 0; h[0] < H_NHIST; h[0]++) for (h[1] = h[0]; h[1] < H_NHIST; h[1]++) for (h[2] = (T > 2 ? h[1] : 0); h[2] < (T > 2 ? H_NHIST : 1); h[2]++, idx++) {
    if (!mc_mine(idx) || mc_deadline()) continue;
    snprintf(CASE, sizeof(CASE), "independent topologies: %s | %s%s%s", HN[h[0]], HN[h[1]], T > 2 ? " | " : "", T > 2 ? HN[h[2]] : "");
    if (!mc_case("%s", CASE)) continue;
    for (int i = 0; i < T; i++) in.hist[i] = h[i];
    struct mcs_cfg cfg = { T, ind_body, ind_before, ind_after, &in, MC.thorough ? 2 : 1, 0, MC.thorough ? 1500.0 : 120.0 };
    struct mcs_stats st;
    const char *sched = mc_opt("schedule");
    if (sched && MC.only) mcs_replay(&cfg, sched, &st); else mcs_explore(&cfg, &st);
    tot->executions += st.executions; tot->points += st.points; tot->accesses += st.accesses; tot->races += st.races; tot->deadlocks += st.deadlocks;
    if (st.max_points > tot->max_points) tot->max_points = st.max_points;
    if (st.capped) { tot->capped = 1; mc_count("tuples_capped_by_budget", 1); }
    mc_count_max("preemption_bound_completed_max", (uint64_t)(st.bound_completed < 0 ? 0 : st.bound_completed));
    if (st.bound_completed < cfg.bound) mc_count("tuples_below_the_target_bound", 1);
    MC.transitions += st.executions; MC.states++;
  }
  mc_sample("independent topologies: %s | %s, every schedule with at most %d preemptions", HN[1], HN[2], MC.thorough ? 2 : 1);
}

int main(int argc, char **argv)
{
  /* the built-in XML backend: libxml2 has process-wide initialisation of its own (trusted library, out of scope) */
  setenv("HWLOC_LIBXML_EXPORT", "0", 1); setenv("HWLOC_LIBXML_IMPORT", "0", 1); setenv("HWLOC_HIDE_ERRORS", "2", 1);
  mc_init(argc, argv, "C17");
  ARENA = mmap(NULL, ARENA_SIZE, PROT_READ | PROT_WRITE, MAP_PRIVATE | MAP_ANONYMOUS, -1, 0);
  char *lo = c17_pad_a + 4096, *hi = c17_pad_b;
  if (hi <= lo || ((uintptr_t)lo & 4095) || ((uintptr_t)hi & 4095)) { fprintf(stderr, "c17: the hwdata region is not laid out as expected (%p..%p)\n", (void *)lo, (void *)hi); return 2; }
  mcs_init(lo, hi);            /* before the first library call: the pristine state of the globals */
  mcs_set_reporter(reporter);
  mc_note("library globals: %ld bytes at %p (everything the library keeps in .data/.bss)", (long)(hi - lo), (void *)lo);
  struct mcs_stats tot; memset(&tot, 0, sizeof(tot));
  const char *stage = mc_opt("stage"); if (!stage) stage = "readers";
  if (!strcmp(stage, "readers")) stage_readers(&tot); else stage_independent(&tot);
  mc_count("schedules_executed", tot.executions); mc_count("scheduling_points", tot.points); mc_count("global_accesses_observed", tot.accesses);
  mc_count_max("scheduling_points_in_one_execution_max", tot.max_points);
  mc_count("race_reports", tot.races); mc_count("stores_into_the_shared_topology", tot.readonly_writes); mc_count("deadlocks", tot.deadlocks);
  char wr[4096]; int nw = mcs_written_globals(wr, sizeof(wr)); mc_note("globals written by worker threads (%d): %s", nw, wr);
  return mc_finish(!tot.capped);
}
