#!/usr/bin/env python3
"""Generates the hand-designed XML fixtures (U_fix, DESIGN.md section 4): the shapes that
the synthetic backend cannot produce.  Output is committed next to this script; the script
is kept so that the fixtures can be read as what they are meant to be.

A node is a dict: type, os (os_index or None), ch (normal children), mem (memory
children), io, misc, attrs (XML attributes), infos [(n,v)], name, subtype, extra (extra
complete_cpuset bits on this node).  Sets are computed here the way hwloc defines them.
"""
import os, sys

HERE = os.path.dirname(os.path.abspath(__file__))


def hexset(bits):
    """hwloc bitmap string of a set of ints"""
    if not bits:
        return "0x0"
    m = 0
    for b in bits:
        m |= 1 << b
    words = []
    while m:
        words.append(m & 0xffffffff)
        m >>= 32
    return ",".join("0x%08x" % w for w in reversed(words))


def N(type, os=None, ch=(), mem=(), io=(), misc=(), attrs=None, infos=(), name=None, subtype=None, extra=(), pages=()):
    return dict(type=type, os=os, ch=list(ch), mem=list(mem), io=list(io), misc=list(misc), attrs=dict(attrs or {}),
                infos=list(infos), name=name, subtype=subtype, extra=set(extra), pages=list(pages))


def PU(i, **kw): return N("PU", i, **kw)
def Core(i, ch, **kw): return N("Core", i, ch, **kw)
def Pkg(i, ch, **kw): return N("Package", i, ch, **kw)
def Die(i, ch, **kw): return N("Die", i, ch, **kw)
def Group(ch, kind=0, subkind=0, dont_merge=0, **kw):
    a = {"kind": kind, "subkind": subkind}
    if dont_merge:
        a["dont_merge"] = 1
    return N("Group", None, ch, attrs=a, **kw)
def Cache(t, i, ch, size=32768, line=64, assoc=8, **kw):
    depth = int(t[1])
    ctype = 2 if "i" in t else (1 if depth == 1 else 0)
    return N(t + "Cache", i, ch, attrs={"cache_size": size, "depth": depth, "cache_linesize": line, "cache_associativity": assoc, "cache_type": ctype}, **kw)
def NUMA(i, mem=1 << 30, pages=((4096, None),), **kw):
    a = {}
    if mem:
        a["local_memory"] = mem
    pg = [(s, (mem // s if c is None else c)) for (s, c) in pages] if mem else []
    return N("NUMANode", i, attrs=a, pages=pg, **kw)
def MemCache(ch_mem, size=1 << 28, depth=4, **kw):
    return N("MemCache", None, mem=ch_mem, attrs={"cache_size": size, "depth": depth, "cache_linesize": 64, "cache_associativity": 1, "cache_type": 0}, **kw)
def Misc(name, misc=(), **kw): return N("Misc", None, misc=misc, name=name, **kw)
def HostBridge(io, bus=(0, 0xff), **kw):
    return N("Bridge", None, io=io, attrs={"bridge_type": "0-1", "depth": 0, "bridge_pci": "0000:[%02x-%02x]" % bus}, **kw)
def PCIBridge(busid, io, bus, depth=1, **kw):
    return N("Bridge", None, io=io, attrs={"bridge_type": "1-1", "depth": depth, "bridge_pci": "0000:[%02x-%02x]" % bus,
                                           "pci_busid": busid, "pci_type": "0604 [8086:1234] [0000:0000] 01 00", "pci_link_speed": "0.000000"}, **kw)
def PCI(busid, io=(), cls="0200", link="7.876923", **kw):
    return N("PCIDev", None, io=io, attrs={"pci_busid": busid, "pci_type": "%s [15b3:1003] [15b3:0001] 00 00" % cls, "pci_link_speed": link}, **kw)
def OSDev(name, types, **kw):
    return N("OSDev", None, name=name, attrs={"osdev_type": types}, **kw)


def pus_below(n):
    if n["type"] == "PU":
        return {n["os"]}
    s = set()
    for c in n["ch"]:
        s |= pus_below(c)
    return s


def numa_in_mem(m):
    s = set()
    if m["type"] == "NUMANode":
        s.add(m["os"])
    for c in m["mem"]:
        s |= numa_in_mem(c)
    return s


def numa_below(n):
    s = set()
    for m in n["mem"]:
        s |= numa_in_mem(m)
    for c in n["ch"]:
        s |= numa_below(c)
    return s


def compute(n, inherited, parent):
    """fill cs/ccs/ns/cns"""
    if n["type"] in ("Bridge", "PCIDev", "OSDev", "Misc"):
        n["sets"] = None
    elif n["type"] in ("NUMANode", "MemCache"):
        # cpuset of the (normal) parent, nodeset of the memory subtree
        p = parent
        while p["type"] in ("NUMANode", "MemCache"):
            p = p["parent"]
        ns = numa_in_mem(n)
        n["sets"] = (p["sets"][0], p["sets"][1], ns, ns | n["extra"] if n["type"] != "NUMANode" else ns)
    else:
        cs = pus_below(n)
        local = set()
        for m in n["mem"]:
            local |= numa_in_mem(m)
        ns = inherited | local | numa_below(n)
        n["sets"] = (cs, cs | n["extra"] | n.get("extra_inh", set()), ns, ns)
        inherited = inherited | local
    n["parent"] = parent
    for c in n["ch"]:
        c["extra_inh"] = set()
        compute(c, inherited, n)
    for c in n["mem"] + n["io"] + n["misc"]:
        compute(c, inherited, n)
    # complete_cpuset of a parent includes children's
    if n["sets"] is not None and n["type"] not in ("NUMANode", "MemCache"):
        ccs = set(n["sets"][1])
        for c in n["ch"]:
            ccs |= c["sets"][1]
        n["sets"] = (n["sets"][0], ccs, n["sets"][2], n["sets"][3])


def fix_mem_complete(n):
    """memory children share the parent's complete_cpuset (computed after the parents are final)"""
    for c in n["ch"]:
        fix_mem_complete(c)
    def rec(m, p):
        m["sets"] = (p["sets"][0], p["sets"][1], m["sets"][2], m["sets"][3])
        for c in m["mem"]:
            rec(c, p)
    for m in n["mem"]:
        rec(m, n)


def esc(s):
    return (str(s).replace("&", "&amp;").replace("<", "&lt;").replace(">", "&gt;").replace('"', "&quot;")
            .replace("\t", "&#9;").replace("\n", "&#10;").replace("\r", "&#13;"))


class Ctx:
    def __init__(self):
        self.gp = 0
        self.out = []


def emit(n, ctx, ind, root_extra=None):
    ctx.gp += 1
    n["gp"] = ctx.gp
    a = [("type", n["type"])]
    if n["os"] is not None:
        a.append(("os_index", n["os"]))
    if n["sets"] is not None:
        cs, ccs, ns, cns = n["sets"]
        a.append(("cpuset", hexset(cs)))
        a.append(("complete_cpuset", hexset(ccs)))
        if root_extra is not None:
            a.append(("allowed_cpuset", hexset(root_extra[0])))
        a.append(("nodeset", hexset(ns)))
        a.append(("complete_nodeset", hexset(cns)))
        if root_extra is not None:
            a.append(("allowed_nodeset", hexset(root_extra[1])))
    a.append(("gp_index", n["gp"]))
    a.append(("id", "obj%d" % n["gp"]))
    if n["name"] is not None:
        a.append(("name", n["name"]))
    if n["subtype"] is not None:
        a.append(("subtype", n["subtype"]))
    for k, v in n["attrs"].items():
        a.append((k, v))
    sp = "  " * ind
    line = sp + "<object " + " ".join('%s="%s"' % (k, esc(v)) for k, v in a)
    kids = n["mem"] + n["ch"] + n["io"] + n["misc"]
    if not kids and not n["infos"] and not n["pages"]:
        ctx.out.append(line + "/>")
        return
    ctx.out.append(line + ">")
    for (s, c) in n["pages"]:
        ctx.out.append(sp + '  <page_type size="%d" count="%d"/>' % (s, c))
    for (k, v) in n["infos"]:
        ctx.out.append(sp + '  <info name="%s" value="%s"/>' % (esc(k), esc(v)))
    for c in kids:
        emit(c, ctx, ind + 1)
    ctx.out.append(sp + "</object>")


def topology(root, disallowed_pus=(), disallowed_nodes=(), tail=(), infos=(("Backend", "Fixture"),)):
    compute(root, set(), None)
    fix_mem_complete(root)
    ctx = Ctx()
    ctx.out.append('<?xml version="1.0" encoding="UTF-8"?>')
    ctx.out.append('<!DOCTYPE topology SYSTEM "hwloc2.dtd">')
    ctx.out.append('<topology version="3.0">')
    allowed = (root["sets"][0] - set(disallowed_pus), root["sets"][2] - set(disallowed_nodes))
    emit(root, ctx, 1, allowed)
    for t in tail:
        ctx.out.append("  " + (t(root) if callable(t) else t))
    for (k, v) in infos:
        ctx.out.append('  <info name="%s" value="%s"/>' % (esc(k), esc(v)))
    ctx.out.append("</topology>")
    return "\n".join(ctx.out) + "\n"


def find(root, pred):
    r = []
    def rec(n):
        if pred(n):
            r.append(n)
        for c in n["mem"] + n["ch"] + n["io"] + n["misc"]:
            rec(c)
    rec(root)
    return r


FIX = {}

# 1. asymmetric tree: one package with cores and caches, one package with bare PUs
FIX["asym"] = lambda: topology(N("Machine", 0, [
    Pkg(0, [Cache("L2", 0, [Core(0, [PU(0), PU(1)]), Core(1, [PU(2)])])], mem=[NUMA(0)]),
    Pkg(1, [PU(3), PU(4), PU(5)], mem=[NUMA(1, mem=1 << 29)]),
]))

# 2. CPU-less NUMA nodes: one attached to the machine, one to a CPU-less package
FIX["cpuless"] = lambda: topology(N("Machine", 0, [
    Pkg(0, [Core(0, [PU(0), PU(1)]), Core(1, [PU(2), PU(3)])], mem=[NUMA(0)]),
    Pkg(1, [], mem=[NUMA(1, mem=1 << 31)]),
], mem=[NUMA(2, mem=1 << 28)]))

# 3. nested locality: a node local to a package plus nodes local to its dies
FIX["nested"] = lambda: topology(N("Machine", 0, [
    Pkg(0, [Die(0, [Core(0, [PU(0)]), Core(1, [PU(1)])], mem=[NUMA(1)]),
            Die(1, [Core(2, [PU(2)]), Core(3, [PU(3)])], mem=[NUMA(2)])], mem=[NUMA(0, mem=1 << 32)]),
    Pkg(1, [Die(2, [Core(4, [PU(4)]), Core(5, [PU(5)])], mem=[NUMA(4)])], mem=[NUMA(3)]),
]))

# 4. memory-side caches of two depths
FIX["memcache"] = lambda: topology(N("Machine", 0, [
    Pkg(0, [Core(0, [PU(0), PU(1)])], mem=[MemCache([MemCache([NUMA(0)], size=1 << 26, depth=3)], size=1 << 28, depth=4), NUMA(2, mem=1 << 27)]),
    Pkg(1, [Core(1, [PU(2), PU(3)])], mem=[MemCache([NUMA(1)], misc=[Misc("on-memcache", misc=[Misc("below-misc-on-memcache")])])]),
]))

# 5. Misc children at several parents, nested Misc, escaping in names and infos
FIX["misc"] = lambda: topology(N("Machine", 0, [
    Pkg(0, [Core(0, [PU(0, misc=[Misc("on-pu")]), PU(1)], misc=[Misc("a & b <c> \"d\" 'e'", misc=[Misc("nested\ttab")])])], mem=[NUMA(0, misc=[Misc("on-numa")])],
        infos=[("CPUModel", "Fake <CPU> & \"co\""), ("Weird", "line1\nline2"), ("UTF8", "café 中")]),
    Pkg(1, [Core(1, [PU(2), PU(3)])], mem=[NUMA(1)], name="pkg\"name", subtype="Sub<type>"),
], misc=[Misc("top", subtype="MyMisc")], infos=[("MachineInfo", "x")]))

# 5a. everything the importers special-case for hwloc 2.x documents (info names moved from the root object to the topology,
# "Size"-like infos of OS devices and of MemoryModule Misc objects that get a KiB suffix, OS devices whose type word is derived
# from name / subtype / infos, backend names recorded on OS devices): in a v3 document none of this may be touched
FIX["compat"] = lambda: topology(N("Machine", 0, [
    Pkg(0, [Core(0, [PU(0), PU(1)])], mem=[NUMA(0)],
        io=[HostBridge([PCI("0000:00:01.0", io=[OSDev("dax0.0", 3, subtype="NVM", infos=[("Size", "1000"), ("SectorSize", "512"), ("Backend", "CUDA")]),
                                                   OSDev("nvml0", 12, subtype="NVML", infos=[("Backend", "NVML"), ("NVIDIAUUID", "GPU-0")]),
                                                   OSDev("mem0", 3, subtype="CXLMem", infos=[("CXLPMEMSize", "2048"), ("CXLRAMSize", "4096")]),
                                                   OSDev("bxi0", 16, subtype="BXI", infos=[("Backend", "OpenCL")])])], bus=(0, 0x3f))]),
], misc=[Misc("DIMM_A1", subtype="MemoryModule", infos=[("Vendor", "ACME"), ("Size", "16GiB"), ("Size", "16777216KiB")]), Misc("Fan1", infos=[("Size", "120mm")])],
   infos=[("Backend", "Linux"), ("OSName", "Linux"), ("HostName", "host"), ("Architecture", "x86_64"), ("SyntheticDescription", "pu:2"), ("LinuxCgroup", "/"), ("MemoryTiersNr", "1"), ("MachineInfo", "kept")]))

# 5b. a chain of arity-1 levels with Misc, I/O and memory children at every level: whatever pair of identical
# levels a KEEP_STRUCTURE filter merges, special children of both the removed and the kept object are moved
FIX["chain"] = lambda: topology(N("Machine", 0, [
    Pkg(0, [Die(0, [Cache("L2", 0, [Core(0, [PU(0, misc=[Misc("pu0-misc")]), PU(1)], misc=[Misc("core-misc-a"), Misc("core-misc-b")])],
                          misc=[Misc("l2-misc")])],
                misc=[Misc("die-misc")], mem=[NUMA(1, mem=1 << 28)],
                io=[HostBridge([PCI("0000:40:00.0", io=[OSDev("die-eth", 4)])], bus=(0x40, 0x4f))])],
        misc=[Misc("pkg-misc-a"), Misc("pkg-misc-b")], mem=[NUMA(0)],
        io=[HostBridge([PCI("0000:00:02.0", cls="0300", io=[OSDev("pkg-card", 4)])], bus=(0, 0x3f))]),
], misc=[Misc("machine-misc")], io=[OSDev("machine-orphan", 16)], mem=[NUMA(2, mem=1 << 27)]))

# 5c. support bits in the file (every name, value 1): what IMPORT_SUPPORT brings into the topology
def _support():
    names = ["discovery.pu", "discovery.numa", "discovery.numa_memory", "discovery.disallowed_pu", "discovery.disallowed_numa", "discovery.cpukind_efficiency",
             "cpubind.set_thisproc_cpubind", "cpubind.get_thisproc_cpubind", "cpubind.set_proc_cpubind", "cpubind.get_proc_cpubind",
             "cpubind.set_thisthread_cpubind", "cpubind.get_thisthread_cpubind", "cpubind.set_thread_cpubind", "cpubind.get_thread_cpubind",
             "cpubind.get_thisproc_last_cpu_location", "cpubind.get_proc_last_cpu_location", "cpubind.get_thisthread_last_cpu_location",
             "membind.set_thisproc_membind", "membind.get_thisproc_membind", "membind.set_proc_membind", "membind.get_proc_membind",
             "membind.set_thisthread_membind", "membind.get_thisthread_membind", "membind.alloc_membind", "membind.set_area_membind",
             "membind.get_area_membind", "membind.get_area_memlocation", "membind.firsttouch_membind", "membind.bind_membind",
             "membind.interleave_membind", "membind.weighted_interleave_membind", "membind.nexttouch_membind", "membind.migrate_membind",
             "custom.exported_support"]
    return topology(N("Machine", 0, [Pkg(0, [Core(0, [PU(0), PU(1)])], mem=[NUMA(0)])]),
                    tail=['<support name="%s" value="1"/>' % n for n in names])
FIX["support"] = _support

# 5d. heterogeneous memory with nested locality: DRAM local to package 0, machine-wide NVM, HBM local to package 1
# (what the default-nodeset heuristics have to sort out: a node with a larger locality listed before the node that
# exactly fits the cores left uncovered)
FIX["hetero"] = lambda: topology(N("Machine", 0, [
    Pkg(0, [Core(0, [PU(0), PU(1)])], mem=[NUMA(0, subtype="DRAM")]),
    Pkg(1, [Core(1, [PU(2), PU(3)])], mem=[NUMA(2, mem=1 << 28, subtype="HBM")]),
], mem=[NUMA(1, mem=1 << 32, subtype="NVM")]))

# 5e. one level of two Groups, the FIRST mergeable and the second dont_merge, two cores each: a restrict that leaves one
# core per Group makes the level a candidate for merging, which the dont_merge Group (wherever it is in the level) forbids
FIX["groups2"] = lambda: topology(N("Machine", 0, [
    Pkg(0, [Group([Core(0, [PU(0)]), Core(1, [PU(1)])], kind=0),
            Group([Core(2, [PU(2)]), Core(3, [PU(3)])], kind=0, dont_merge=1)], mem=[NUMA(0)]),
]))

# 6. I/O tree: host bridge > PCI bridge > PCI devices > OS devices of every type combination
def _io():
    devs = []
    words = [1, 2, 3, 4, 8, 12, 16, 32, 48, 64]
    for k, wd in enumerate(words):
        devs.append(PCI("0000:01:%02x.0" % k, io=[OSDev("dev%d" % k, wd, subtype=("NVSwitch" if wd == 8 else None))]))
    return topology(N("Machine", 0, [
        Pkg(0, [Core(0, [PU(0), PU(1)])], mem=[NUMA(0)],
            io=[HostBridge([PCIBridge("0000:00:01.0", devs, (1, 1)), PCI("0000:00:02.0", cls="0300", io=[OSDev("card0", 4)])], bus=(0, 0x7f))]),
        Pkg(1, [Core(1, [PU(2), PU(3)])], mem=[NUMA(1)],
            io=[HostBridge([PCI("0000:80:00.0", cls="0108", io=[OSDev("nvme0n1", 1, infos=[("Size", "1000")]), OSDev("dax0.0", 2)])], bus=(0x80, 0xff))]),
    ], io=[OSDev("orphan", 16)]))
FIX["io"] = _io

# 6b. I/O below the packages only (the Machine has no I/O child of its own): when a package goes away and its I/O is
# re-attached (ADAPT_IO), the receiving parent's I/O list is empty
FIX["io2"] = lambda: topology(N("Machine", 0, [
    Pkg(0, [Core(0, [PU(0), PU(1)])], mem=[NUMA(0)],
        io=[HostBridge([PCI("0000:00:02.0", cls="0300", io=[OSDev("card0", 4)]), PCI("0000:00:03.0", io=[OSDev("eth0", 8)])], bus=(0, 0x7f))],
        misc=[Misc("pkg0-misc")]),
    Pkg(1, [Core(1, [PU(2), PU(3)])], mem=[NUMA(1)],
        io=[HostBridge([PCI("0000:80:00.0", cls="0108", io=[OSDev("nvme0n1", 1)])], bus=(0x80, 0xff))]),
]))

# 7. complete_cpuset != cpuset (offline PUs 6,7; extra node 3 in complete_nodeset), disallowed PU 1 and node 1
def _disallowed():
    root = N("Machine", 0, [
        Pkg(0, [Core(0, [PU(0), PU(1)]), Core(1, [PU(2), PU(3)])], mem=[NUMA(0)], extra={6}),
        Pkg(1, [Core(2, [PU(4), PU(5)])], mem=[NUMA(1)], extra={7}),
    ], extra={6, 7, 40})
    return topology(root, disallowed_pus=(1,), disallowed_nodes=(1,))
FIX["disallowed"] = _disallowed

# 8. sparse and > 64 os_index values (second and third bitmap words)
FIX["sparse"] = lambda: topology(N("Machine", 0, [
    Pkg(3, [Core(10, [PU(5), PU(69)]), Core(20, [PU(70), PU(133)])], mem=[NUMA(2)]),
    Pkg(7, [Core(30, [PU(64), PU(200)])], mem=[NUMA(65)]),
]))

# 9. Groups: dont_merge, kinds, a group with the same cpuset as its only child
FIX["groups"] = lambda: topology(N("Machine", 0, [
    Group([Pkg(0, [Core(0, [PU(0), PU(1)])], mem=[NUMA(0)])], kind=1001, dont_merge=1),
    Group([Pkg(1, [Group([Core(1, [PU(2)])], kind=3, subkind=1), Group([Core(2, [PU(3)])], kind=3, subkind=1)], mem=[NUMA(1)])], kind=1001),
]))

# 10. page types, heterogeneous distances, memattrs with cpuset and object initiators, cpukinds
def _annot():
    root = N("Machine", 0, [
        Pkg(0, [Core(0, [PU(0), PU(1)]), Core(1, [PU(2), PU(3)])], mem=[NUMA(0, pages=((4096, None), (2097152, 5)))]),
        Pkg(1, [Core(2, [PU(4), PU(5)]), Core(3, [PU(6), PU(7)])], mem=[NUMA(1, mem=1 << 31, pages=((4096, 10), (2097152, 0), (1073741824, 1)))],
            io=[HostBridge([PCI("0000:00:02.0", io=[OSDev("gpu0", 12, subtype="CUDA")])])]),
    ])
    def tail_dist(r):
        numas = find(r, lambda n: n["type"] == "NUMANode")
        pkgs = find(r, lambda n: n["type"] == "Package")
        gpu = find(r, lambda n: n["type"] == "OSDev")
        s = ['<distances2 type="NUMANode" nbobjs="2" kind="5" name="NUMALatency" indexing="os">',
             '    <indexes length="4">0 1 </indexes>', '    <u64values length="12">10 20 20 10 </u64values>', '  </distances2>']
        objs = [("Package", pkgs[0]["gp"]), ("Package", pkgs[1]["gp"]), ("OSDev", gpu[0]["gp"])]
        idx = " ".join("%s:%d" % o for o in objs) + " "
        vals = "1 2 3 4 5 6 7 8 9 "
        s += ['  <distances2hetero nbobjs="3" kind="22" name="Mixed&amp;Co">',
              '    <indexes length="%d">%s</indexes>' % (len(idx), idx), '    <u64values length="%d">%s</u64values>' % (len(vals), vals), '  </distances2hetero>']
        return "\n".join(s)
    def tail_memattr(r):
        numas = find(r, lambda n: n["type"] == "NUMANode")
        pus = find(r, lambda n: n["type"] == "PU")
        s = ['<memattr name="Bandwidth" flags="5">']
        s.append('    <memattr_value target_obj_type="NUMANode" target_obj_gp_index="%d" value="100" initiator_cpuset="0x0000000f"/>' % numas[0]["gp"])
        s.append('    <memattr_value target_obj_type="NUMANode" target_obj_gp_index="%d" value="50" initiator_cpuset="0x000000f0"/>' % numas[0]["gp"])
        s.append('    <memattr_value target_obj_type="NUMANode" target_obj_gp_index="%d" value="100" initiator_cpuset="0x000000f0"/>' % numas[1]["gp"])
        s.append('  </memattr>')
        s.append('  <memattr name="custom" flags="6">')
        s.append('    <memattr_value target_obj_type="NUMANode" target_obj_gp_index="%d" value="7" initiator_obj_gp_index="%d" initiator_obj_type="PU"/>' % (numas[1]["gp"], pus[2]["gp"]))
        s.append('    <memattr_value target_obj_type="NUMANode" target_obj_gp_index="%d" value="9" initiator_cpuset="0x00000003"/>' % numas[1]["gp"])
        s.append('  </memattr>')
        s.append('  <memattr name="noinit" flags="1">')
        s.append('    <memattr_value target_obj_type="NUMANode" target_obj_gp_index="%d" value="5"/>' % numas[0]["gp"])
        s.append('  </memattr>')
        s.append('  <cpukind cpuset="0x0000000f" forced_efficiency="1">')
        s.append('    <info name="CoreType" value="Big"/>')
        s.append('  </cpukind>')
        s.append('  <cpukind cpuset="0x000000f0" forced_efficiency="0">')
        s.append('    <info name="CoreType" value="Small"/>')
        s.append('    <info name="FrequencyMaxMHz" value="1000"/>')
        s.append('  </cpukind>')
        return "\n".join(s)
    return topology(root, tail=[tail_dist, tail_memattr], infos=(("Backend", "Fixture"), ("Extra", "a<b")))
FIX["annot"] = _annot

# 11. single PU machine, everything minimal
FIX["tiny"] = lambda: topology(N("Machine", 0, [PU(0)], mem=[NUMA(0, mem=0)]))

# 12. caches of every level incl. instruction caches and L4/L5, Die inside Package
def _caches():
    c0 = Cache("L2", 0, [Cache("L1", 0, [Cache("L1i", 0, [Core(0, [PU(0), PU(1)])])])])
    c1 = Cache("L2", 1, [Cache("L1", 1, [Cache("L1i", 1, [Core(1, [PU(2)])])])])
    l3 = Cache("L3", 0, [Cache("L3i", 0, [Cache("L2i", 0, [c0, c1])])])
    return topology(N("Machine", 0, [
        Pkg(0, [Cache("L5", 0, [Cache("L4", 0, [Die(0, [l3])], size=1 << 27)])], mem=[NUMA(0)]),
    ]))
FIX["caches"] = _caches

if __name__ == "__main__":
    for name, f in FIX.items():
        path = os.path.join(HERE, name + ".xml")
        open(path, "w", encoding="utf-8").write(f())
        print("wrote", path)
