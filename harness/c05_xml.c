/* C05 - XML export followed by import reproduces the topology (and is a fixpoint).
 *
 * One process per backend pairing (the backend choice is cached per process): the stage
 * sets HWLOC_LIBXML_EXPORT / HWLOC_LIBXML_IMPORT.  States: fixtures, corpus, every U_small
 * root x configuration and every depth-1 state of the modifying alphabet, each with an
 * annotation step (userdata of lengths 0..4 plain and base64, infos/names/subtypes with
 * characters needing escaping).  For each state: {buffer, file} x {v3, v2}.
 */
#include "hwmc.h"
#include "univ.h"
#include "canon.h"
#include "wf.h"
#include "ops.h"
#include <unistd.h>
#include <inttypes.h>

/* ---- userdata model */
struct ud { int len; unsigned char bytes[8]; int base64; const char *name; };
static struct ud UDS[] = {
  {0, "", 0, "empty"}, {1, "a", 0, NULL}, {2, "<&", 0, "n2"}, {3, "\"'>", 0, "three"}, {4, "abcd", 0, "four"},
  /* the given length is shorter than the buffer's own string (the callback hands out a slice of a larger buffer); a carriage
   * return with no markup character next to it (allowed in plain userdata, XML parsers turn a raw CR into LF) */
  {3, "abcdefg", 0, "cut"}, {3, "a\rb", 0, "cr"}, {4, "\r\n\tx", 0, "crlf"},
  {0, "", 1, "b0"}, {1, {0}, 1, "b1"}, {2, {0xff, 0x00}, 1, NULL}, {3, {1, 2, 3}, 1, "b3"}, {4, {0x80, 0x0a, 0x09, 0x7f}, 1, "b&4"}, {5, {'x', 0, 'y', 0, 'z'}, 1, "b5"},
};
#define NUDS (sizeof(UDS) / sizeof(UDS[0]))

struct udrec { hwloc_uint64_t gp; char name[16]; int hasname; int len; unsigned char bytes[8]; };
static struct udrec exported[4096], imported[4096]; static int nexp, nimp;
static int export_errors;

static void export_cb(void *reserved, hwloc_topology_t t, hwloc_obj_t obj)
{
  struct ud *u = obj->userdata;
  /* the built-in backend may run the export twice (sizing pass, then writing pass): records are those of the last pass */
  if (!obj->parent) { nexp = 0; export_errors = 0; }
  if (!u) return;
  /* two records for some objects: "possibly multiple times per object" */
  int times = (obj->gp_index % 5 == 0) ? 2 : 1;
  for (int k = 0; k < times; k++) {
    int rc = u->base64 ? hwloc_export_obj_userdata_base64(reserved, t, obj, u->name, u->bytes, (size_t)u->len)
                       : hwloc_export_obj_userdata(reserved, t, obj, u->name, u->bytes, (size_t)u->len);
    if (rc < 0) { export_errors++; continue; }
    if (nexp < 4096) { struct udrec *r = &exported[nexp++]; memset(r, 0, sizeof(*r)); r->gp = obj->gp_index; r->hasname = !!u->name; if (u->name) snprintf(r->name, sizeof(r->name), "%s", u->name); r->len = u->len; memcpy(r->bytes, u->bytes, (size_t)u->len); }
  }
}
static void import_cb(hwloc_topology_t t, hwloc_obj_t obj, const char *name, const void *buffer, size_t length)
{
  (void)t;
  if (nimp < 4096) { struct udrec *r = &imported[nimp++]; memset(r, 0, sizeof(*r)); r->gp = obj->gp_index; r->hasname = !!name; if (name) snprintf(r->name, sizeof(r->name), "%s", name); r->len = (int)length; if (length <= 8) memcpy(r->bytes, buffer, length);
    if (((const char *)buffer)[length] != 0) r->len = -1; /* documented: followed by a null byte */ }
}
static int cmprec(const void *a, const void *b) { return memcmp(a, b, sizeof(struct udrec)); }

/* annotation: userdata on every object, infos / names / subtypes with XML-special (printable) characters */
static void annotate(hwloc_topology_t t)
{
  hwloc_obj_t *objs; unsigned n = canon_walk(t, &objs);
  for (unsigned i = 0; i < n; i++) {
    objs[i]->userdata = (i % 13 == 12) ? NULL : &UDS[i % NUDS];
    if (i % 3 == 0) hwloc_obj_add_info(objs[i], "Spe<ci>al&", "v=\"1\" & 'x' <y>");
    if (i % 4 == 1) hwloc_obj_add_info(objs[i], "Dup", "same"), hwloc_obj_add_info(objs[i], "Dup", "same");
    if (i % 5 == 2) hwloc_obj_add_info(objs[i], "Empty", "");
    if (i % 7 == 3) hwloc_obj_set_subtype(t, objs[i], "Sub&<type>");
  }
  /* non-ASCII bytes are documented to be dropped by the export: not part of what must round-trip */
  for (unsigned i = 0; i < n; i++) hwloc_modify_infos(&objs[i]->infos, HWLOC_MODIFY_INFOS_OP_REMOVE, "UTF8", NULL);
  /* info names, subtypes and object names that the importers special-case when they read a hwloc 2.x document (moved from
   * the root object to the topology, "Size"-like values given a KiB suffix, OS-device type words derived from them): in the
   * v3 round trip they are ordinary strings.  They are set through the API: a fixture would pass through the importer
   * before the first export and could not show the difference (seeded change C05-misc-memorymodule-size-import) */
  {
    hwloc_obj_t root = hwloc_get_root_obj(t);
    static const char *ROOTNAMES[] = { "Backend", "SyntheticDescription", "LinuxCgroup", "MemoryTiersNr", "OSName", "HostName", "Architecture" };
    for (unsigned k = 0; k < sizeof(ROOTNAMES) / sizeof(ROOTNAMES[0]); k++) hwloc_obj_add_info(root, ROOTNAMES[k], "c05-root-value");
    hwloc_obj_t m = hwloc_topology_insert_misc_object(t, root, "DIMM_A1");
    if (m) { hwloc_obj_set_subtype(t, m, "MemoryModule"); hwloc_obj_add_info(m, "Vendor", "ACME"); hwloc_obj_add_info(m, "Size", "16GiB"); hwloc_obj_add_info(m, "Size", "16777216KiB"); m->userdata = NULL; }
    m = hwloc_topology_insert_misc_object(t, root, "Fan1");
    if (m) { hwloc_obj_add_info(m, "Size", "120mm"); m->userdata = NULL; }
    for (hwloc_obj_t o = hwloc_get_next_osdev(t, NULL); o; o = hwloc_get_next_osdev(t, o)) {
      hwloc_obj_add_info(o, "Size", "1000"); hwloc_obj_add_info(o, "CXLRAMSize", "4096"); hwloc_obj_add_info(o, "SectorSize", "512"); hwloc_obj_add_info(o, "Backend", "CUDA");
    }
  }
  hwloc_obj_add_info(hwloc_get_root_obj(t), "RootInfo", "a&b");
  hwloc_modify_infos(hwloc_topology_get_infos(t), HWLOC_MODIFY_INFOS_OP_ADD, "Topo<Info>", "t'\"&");
  free(objs);
}

static int load_xml(hwloc_topology_t *tp, const char *buf, int len, const char *path, unsigned long flags)
{
  hwloc_topology_t t;
  *tp = NULL;
  if (hwloc_topology_init(&t) < 0) return -1;
  hwloc_topology_set_all_types_filter(t, HWLOC_TYPE_FILTER_KEEP_ALL);
  /* support bits are part of the document: they are only reproduced "when requested" */
  hwloc_topology_set_flags(t, flags | HWLOC_TOPOLOGY_FLAG_IMPORT_SUPPORT);
  hwloc_topology_set_userdata_import_callback(t, import_cb);
  int rc = path ? hwloc_topology_set_xml(t, path) : hwloc_topology_set_xmlbuffer(t, buf, len);
  if (rc < 0 || hwloc_topology_load(t) < 0) { hwloc_topology_destroy(t); return -1; }
  *tp = t;
  return 0;
}

static char tmpfile_path[256];

static void roundtrip(hwloc_topology_t t, const char *what)
{
  unsigned long tflags = hwloc_topology_get_flags(t) & ~(unsigned long)(HWLOC_TOPOLOGY_FLAG_IS_THISSYSTEM | HWLOC_TOPOLOGY_FLAG_THISSYSTEM_ALLOWED_RESOURCES);
  hwloc_topology_set_userdata_export_callback(t, export_cb);
  char *ref = canon_str(t, CANON_XML);
  char *ref_struct = canon_str(t, CANON_STRUCT & ~CANON_LEVELS);
  for (int v2 = 0; v2 < 2; v2++) for (int file = 0; file < 2; file++) {
    unsigned long xfl = v2 ? HWLOC_TOPOLOGY_EXPORT_XML_FLAG_V2 : 0;
    char key[128]; const char *vs = v2 ? "v2" : "v3", *fs = file ? "file" : "buffer";
    char *x1 = NULL; int l1 = 0;
    nexp = nimp = 0; export_errors = 0;
    MC.transitions++;
    if (file) {
      if (hwloc_topology_export_xml(t, tmpfile_path, xfl) < 0) { snprintf(key, sizeof(key), "c05.export.fails.%s.%s", vs, fs); mc_violation(key, "%s :: export failed (errno %d)", mc_case_text(), errno); continue; }
      x1 = univ_read_file(tmpfile_path, &l1);
    } else {
      char *xb = NULL;
      if (hwloc_topology_export_xmlbuffer(t, &xb, &l1, xfl) < 0) { snprintf(key, sizeof(key), "c05.export.fails.%s.%s", vs, fs); mc_violation(key, "%s :: export failed (errno %d)", mc_case_text(), errno); continue; }
      if (l1 < 1 || xb[l1 - 1] != 0 || strlen(xb) != (size_t)l1 - 1) { snprintf(key, sizeof(key), "c05.export.length.%s", vs); mc_violation(key, "%s :: buffer length %d does not include exactly one ending NUL", mc_case_text(), l1); }
      x1 = malloc((size_t)l1); memcpy(x1, xb, (size_t)l1); hwloc_free_xmlbuffer(t, xb);
    }
    int nexp1 = nexp;
    hwloc_topology_t r = NULL;
    if (load_xml(&r, x1, l1, file ? tmpfile_path : NULL, tflags) < 0) { snprintf(key, sizeof(key), "c05.reload.fails.%s.%s", vs, fs); mc_violation(key, "%s :: the export does not load", mc_case_text()); free(x1); continue; }
    /* equivalence */
    if (!v2) {
      char *got = canon_str(r, CANON_XML);
      if (strcmp(ref, got)) { snprintf(key, sizeof(key), "c05.roundtrip.%s.%s", vs, fs); mc_violation(key, "%s :: %s", mc_case_text(), canon_diff(ref, got)); }
      free(got);
      /* support bits "when requested": the reload imports them (IMPORT_SUPPORT), every discovery / cpubind / membind bit of the
       * exported topology must come back (the misc part records the import itself) */
      { const struct hwloc_topology_support *sa = hwloc_topology_get_support(t), *sb2 = hwloc_topology_get_support(r);
        const char *part = memcmp(sa->discovery, sb2->discovery, sizeof(*sa->discovery)) ? "discovery" : memcmp(sa->cpubind, sb2->cpubind, sizeof(*sa->cpubind)) ? "cpubind" : memcmp(sa->membind, sb2->membind, sizeof(*sa->membind)) ? "membind" : NULL;
        if (part) { const unsigned char *pa = (const unsigned char *)(part[0] == 'd' ? (const void *)sa->discovery : part[0] == 'c' ? (const void *)sa->cpubind : (const void *)sa->membind), *pb = (const unsigned char *)(part[0] == 'd' ? (const void *)sb2->discovery : part[0] == 'c' ? (const void *)sb2->cpubind : (const void *)sb2->membind);
          size_t n = part[0] == 'd' ? sizeof(*sa->discovery) : part[0] == 'c' ? sizeof(*sa->cpubind) : sizeof(*sa->membind), at = 0; while (at < n && pa[at] == pb[at]) at++;
          snprintf(key, sizeof(key), "c05.support.%s.%s", vs, fs); mc_violation(key, "%s :: %s support byte #%zu is %u in the exported topology and %u after the reload", mc_case_text(), part, at, pa[at], pb[at]); } }
    } else {
      char *got = canon_str(r, CANON_STRUCT & ~CANON_LEVELS);
      if (strcmp(ref_struct, got)) { snprintf(key, sizeof(key), "c05.roundtrip.%s.%s", vs, fs); mc_violation(key, "%s :: tree/sets differ: %s", mc_case_text(), canon_diff(ref_struct, got)); }
      free(got);
    }
    wf_check_mc(r, v2 ? "xml-v2-reload" : "xml-reload");
    /* userdata callbacks: same multiset of (object, name, bytes, length) */
    if (export_errors) { snprintf(key, sizeof(key), "c05.userdata.export-error"); mc_violation(key, "%s :: %d export_obj_userdata calls failed on printable data", mc_case_text(), export_errors); }
    if (v2) { for (int i = 0; i < nexp1; i++) exported[i].gp = 0; for (int i = 0; i < nimp; i++) imported[i].gp = 0; }   /* v2 does not promise gp_index */
    if (nexp1 != nimp) {
      /* name an object whose records were lost */
      hwloc_uint64_t missing = 0; const char *mtype = "?";
      for (int i = 0; i < nexp1 && !missing; i++) { int found = 0; for (int j = 0; j < nimp; j++) if (imported[j].gp == exported[i].gp) found = 1; if (!found) missing = exported[i].gp; }
      if (missing) { hwloc_obj_t mo = ops_obj_by_gp(t, missing); if (mo) mtype = hwloc_obj_type_string(mo->type); }
      snprintf(key, sizeof(key), "c05.userdata.count.%s", vs); mc_violation(key, "%s :: %d userdata records exported, %d imported (e.g. none for %s gp=%" PRIu64 ")", mc_case_text(), nexp1, nimp, mtype, missing); }
    else {
      qsort(exported, (size_t)nexp1, sizeof(struct udrec), cmprec); qsort(imported, (size_t)nimp, sizeof(struct udrec), cmprec);
      for (int i = 0; i < nimp; i++) if (memcmp(&exported[i], &imported[i], sizeof(struct udrec))) {
        snprintf(key, sizeof(key), "c05.userdata.content.%s", vs);
        mc_violation(key, "%s :: userdata record differs: exported (gp=%" PRIu64 " name=%s len=%d) imported (gp=%" PRIu64 " name=%s len=%d)", mc_case_text(), exported[i].gp, exported[i].hasname ? exported[i].name : "NULL", exported[i].len, imported[i].gp, imported[i].hasname ? imported[i].name : "NULL", imported[i].len);
        break;
      }
    }
    mc_count("userdata_records", (uint64_t)nimp);
    /* fixpoint: exporting the reloaded topology gives byte-identical XML (userdata re-exported from what was imported) */
    {
      /* re-attach userdata on the reloaded objects by gp_index so that the callback exports the same records */
      hwloc_obj_t *o1, *o2; unsigned n1 = canon_walk(t, &o1), n2 = canon_walk(r, &o2);
      if (!v2 && n1 == n2) for (unsigned i = 0; i < n1; i++) o2[i]->userdata = o1[i]->userdata;
      free(o1); free(o2);
      hwloc_topology_set_userdata_export_callback(r, v2 ? NULL : export_cb);
      char *xb = NULL; int l2 = 0;
      if (!v2) {
        if (hwloc_topology_export_xmlbuffer(r, &xb, &l2, xfl) < 0) { snprintf(key, sizeof(key), "c05.export.fails.%s.second", vs); mc_violation(key, "%s :: second export failed", mc_case_text()); }
        else {
          size_t cmp1 = file ? (size_t)l1 : (size_t)l1 - 1;
          if ((size_t)l2 - 1 != cmp1 || memcmp(xb, x1, cmp1)) { snprintf(key, sizeof(key), "c05.fixpoint.%s.%s", vs, fs); mc_violation(key, "%s :: second export differs: %s", mc_case_text(), canon_diff(x1, xb)); }
          hwloc_free_xmlbuffer(r, xb);
        }
      }
    }
    hwloc_topology_destroy(r);
    free(x1);
    mc_count("roundtrips", 1);
  }
  free(ref); free(ref_struct);
}

static void one_topology(hwloc_topology_t t, const char *what)
{
  if (MC_TRY(120000)) { annotate(t); roundtrip(t, what); mc_try_end(); }
  mc_report_faults("roundtrip");
  MC.states++;
}

/* what the document says about support must be what the loaded topology reports (IMPORT_SUPPORT): read off the text of the
 * document, not through the importer - original and reload both pass through the importer, so a name that it drops is
 * missing on both sides of the round trip (seeded change C05-support-proc-membind) */
#include <stddef.h>
static void support_against_document(hwloc_topology_t t, const char *doc, const char *what)
{
  const struct hwloc_topology_support *sp = hwloc_topology_get_support(t);
#define SUP(sect, field) { #sect "." #field, (const unsigned char *)sp->sect + offsetof(struct hwloc_topology_##sect##_support, field) }
  struct { const char *name; const unsigned char *byte; } T[] = {
    SUP(discovery, pu), SUP(discovery, numa), SUP(discovery, numa_memory), SUP(discovery, disallowed_pu), SUP(discovery, disallowed_numa), SUP(discovery, cpukind_efficiency),
    SUP(cpubind, set_thisproc_cpubind), SUP(cpubind, get_thisproc_cpubind), SUP(cpubind, set_proc_cpubind), SUP(cpubind, get_proc_cpubind), SUP(cpubind, set_thisthread_cpubind), SUP(cpubind, get_thisthread_cpubind),
    SUP(cpubind, set_thread_cpubind), SUP(cpubind, get_thread_cpubind), SUP(cpubind, get_thisproc_last_cpu_location), SUP(cpubind, get_proc_last_cpu_location), SUP(cpubind, get_thisthread_last_cpu_location),
    SUP(membind, set_thisproc_membind), SUP(membind, get_thisproc_membind), SUP(membind, set_proc_membind), SUP(membind, get_proc_membind), SUP(membind, set_thisthread_membind), SUP(membind, get_thisthread_membind),
    SUP(membind, alloc_membind), SUP(membind, set_area_membind), SUP(membind, get_area_membind), SUP(membind, get_area_memlocation), SUP(membind, firsttouch_membind), SUP(membind, bind_membind),
    SUP(membind, interleave_membind), SUP(membind, weighted_interleave_membind), SUP(membind, nexttouch_membind), SUP(membind, migrate_membind) };
#undef SUP
  for (unsigned i = 0; i < sizeof(T) / sizeof(T[0]); i++) {
    char pat[96]; snprintf(pat, sizeof(pat), "name=\"%s\"", T[i].name);
    int in_doc = strstr(doc, pat) != NULL;
    if (in_doc != (*T[i].byte != 0)) mc_violation("c05.support.document", "%s :: the document %s support %s, the loaded topology reports %u", what, in_doc ? "lists" : "does not list", T[i].name, *T[i].byte);
    mc_count("support_names_checked", 1);
  }
}

static char *hist_text(const struct hist *h) { static struct sb b; if (!b.s) sb_init(&b); sb_reset(&b); hist_print(&b, h); return b.s; }

int main(int argc, char **argv)
{
  mc_init(argc, argv, "C05");
  snprintf(tmpfile_path, sizeof(tmpfile_path), "%s/c05.%d.%d.xml", getenv("TMPDIR") ? getenv("TMPDIR") : "/tmp", (int)getpid(), MC.part);
  mc_note("backends: export %s, import %s", getenv("HWLOC_LIBXML_EXPORT") ? getenv("HWLOC_LIBXML_EXPORT") : "default", getenv("HWLOC_LIBXML_IMPORT") ? getenv("HWLOC_LIBXML_IMPORT") : "default");
  uint64_t idx = 0;
  /* fixtures and corpus */
  int nf = univ_fix_count(), nc = univ_corpus_count();
  for (int i = 0; i < nf + nc; i++, idx++) {
    if (!mc_mine(idx) || mc_deadline()) continue;
    const struct usrc *s = i < nf ? univ_fix(i) : univ_corpus(i - nf);
    if (!MC.thorough && i >= nf && (i - nf) % 3) continue;           /* quick: every third corpus file */
    for (int cfg = 0; cfg < 2; cfg++) {
      struct ucfg c; ucfg_keepall(&c); if (cfg) c.flags = HWLOC_TOPOLOGY_FLAG_INCLUDE_DISALLOWED | HWLOC_TOPOLOGY_FLAG_IMPORT_SUPPORT;
      if (!mc_case("xml %s cfg=%d", s->name, cfg)) continue;
      hwloc_topology_t t = NULL;
      if (MC_TRY(60000)) { univ_load(&t, s, &c); mc_try_end(); }
      if (mc_report_faults("load") || !t) continue;
      if (cfg == 1 && s->kind == USRC_XMLFILE && strstr(s->name, "support")) { int dl = 0; char *doc = univ_read_file(s->text, &dl); if (doc) { support_against_document(t, doc, s->name); free(doc); } }
      one_topology(t, s->name);
      hwloc_topology_destroy(t);
    }
  }
  /* U_small roots and their depth-1 states */
  struct opscope sc; memset(&sc, 0, sizeof(sc)); sc.classes = OPC_ALL; sc.max_subset_bits = 2; sc.lean = !MC.thorough;
  int nroots = univ_small_count(), ncfg = hist_ncfg();
  for (int r = 0; r < nroots; r++) for (int c = 0; c < ncfg; c++, idx++) {
    if (!mc_mine(idx) || mc_deadline()) continue;
    struct hist h0; memset(&h0, 0, sizeof(h0)); h0.root = r; h0.cfg = c;
    hwloc_topology_t t = hist_build(&h0);
    if (!t) continue;
    struct op *ops; int nops = ops_enumerate(t, &sc, &ops);
    if (mc_case("%s", hist_text(&h0))) one_topology(t, "root");
    hwloc_topology_destroy(t);
    struct strset seen; strset_init(&seen);
    for (int i = 0; i < nops && !mc_deadline(); i++) {
      struct hist h1 = h0; h1.ops[h1.n++] = ops[i];
      /* grouping at commit leaves Groups without depth/symmetric_subtree/total_memory (known C02 finding): not a state to round-trip */
      if (ops[i].kind == OP_DIST_ADD && (ops[i].flags & HWLOC_DISTANCES_ADD_FLAG_GROUP)) { mc_count("skipped_states_of_known_c02_finding", 1); continue; }
      hwloc_topology_t t1 = NULL;
      if (MC_TRY(30000)) { t1 = hist_build(&h1); mc_try_end(); }
      if (mc_fault[0] || !t1) { mc_fault[0] = 0; mc_clear_san(); continue; }
      /* cold export: the first consulting call after the modifying call is the export itself (whatever the call left to be
       * refreshed lazily is still pending); exporting the untouched topology once more must give the same bytes, and that is
       * also what the round trip below starts from (seeded change C05-distances-refresh-only-before-hetero: the exporter
       * refreshed the distances after it had written the homogeneous ones) */
      {
        char *xc = NULL, *xw = NULL; int lc = 0, lw = 0, e1 = -9, e2 = -9;
        if (MC_TRY(30000)) { e1 = hwloc_topology_export_xmlbuffer(t1, &xc, &lc, 0); if (e1 == 0) e2 = hwloc_topology_export_xmlbuffer(t1, &xw, &lw, 0); mc_try_end(); }
        if (!mc_report_faults("cold-export") && e1 == 0 && e2 == 0) {
          MC.transitions += 2; mc_count("cold_exports", 1);
          if (lc != lw || memcmp(xc, xw, (size_t)lc)) { if (mc_case("%s", hist_text(&h1))) mc_violation("c05.export.first-differs", "%s :: the first export after the call and the next one differ: %s", mc_case_text(), canon_diff(xc, xw)); }
        }
        if (e1 == 0) hwloc_free_xmlbuffer(t1, xc);
        if (e2 == 0) hwloc_free_xmlbuffer(t1, xw);
      }
      char *key = canon_str(t1, CANON_ALL);
      int fresh = strset_add(&seen, key, strlen(key)); free(key);
      /* states that the alphabet already broke are C02's findings; states holding an emptied normal object (no PU, no child,
       * no memory: a BYNODESET restrict may leave one) are not states a load can produce, the loader drops such objects */
      int emptied = 0;
      { hwloc_obj_t *objs; unsigned n = canon_walk(t1, &objs);
        for (unsigned q = 0; q < n; q++) if (objs[q]->parent && hwloc_obj_type_is_normal(objs[q]->type) && objs[q]->type != HWLOC_OBJ_PU && !objs[q]->first_child && !objs[q]->memory_first_child && !objs[q]->io_first_child) emptied = 1;
        /* likewise a memory object whose complete_cpuset is not its normal parent's (restrict + structural merge may leave one): the loader normalises it */
        for (unsigned q = 0; q < n; q++) if (hwloc_obj_type_is_memory(objs[q]->type)) { hwloc_obj_t p = objs[q]->parent; while (p && hwloc_obj_type_is_memory(p->type)) p = p->parent;
          if (p && !hwloc_bitmap_isequal(p->complete_cpuset, objs[q]->complete_cpuset)) emptied = 1; }
        free(objs); }
      if (emptied) mc_count("skipped_states_not_in_loader_normal_form", 1);
      if (fresh && !emptied && wf_check(t1, NULL, NULL) == 0 && mc_case("%s", hist_text(&h1))) one_topology(t1, "history");
      hwloc_topology_destroy(t1);
    }
    free(ops); strset_free(&seen);
    if (idx % 11 == 0) mc_sample("%s ; <annotate> ; export x {buffer,file} x {v3,v2} ; reload ; export", hist_text(&h0));
  }
  unlink(tmpfile_path);
  return mc_finish(1);
}
