/* C12 - hwloc_topology_dup yields an equivalent, fully independent topology.
 *
 * States: every state reached by the C02 alphabet at depth <= D from every root x
 * configuration (replayed histories), each additionally annotated with userdata tags.
 * In every state: dup; canonical dumps (userdata pointers included), XML exports and the
 * read-only battery must be identical.  Then, for every op of the alphabet: the op is
 * applied to the copy - the original's dump must not move - and then to the original - both
 * dumps must be equal again (differential oracle) - and the two are destroyed in alternating
 * order under ASan/LSan.
 */
#include "hwmc.h"
#include "univ.h"
#include "canon.h"
#include "wf.h"
#include "ops.h"
#include "battery.h"

static char *hist_text(const struct hist *h) { static struct sb b; if (!b.s) sb_init(&b); sb_reset(&b); hist_print(&b, h); return b.s; }

static char *xml_of(hwloc_topology_t t, int *lenp)
{
  char *x = NULL; int l = 0;
  if (hwloc_topology_export_xmlbuffer(t, &x, &l, 0) < 0) return NULL;
  char *c = malloc((size_t)l + 1); memcpy(c, x, (size_t)l); c[l] = 0; hwloc_free_xmlbuffer(t, x);
  *lenp = l;
  return c;
}

/* equivalence of a state and its fresh dup */
static int check_equivalent(hwloc_topology_t t, hwloc_topology_t d, const char *where)
{
  int bad = 0; char key[96];
  char *a = canon_str(t, CANON_ALL), *b = canon_str(d, CANON_ALL);
  if (strcmp(a, b)) { snprintf(key, sizeof(key), "c12.canon@%s", where); mc_violation(key, "%s :: %s", mc_case_text(), canon_diff(a, b)); bad = 1; }
  free(a); free(b);
  int la = 0, lb = 0; char *xa = xml_of(t, &la), *xb = xml_of(d, &lb);
  if (!xa || !xb || la != lb || memcmp(xa, xb, (size_t)la)) { snprintf(key, sizeof(key), "c12.xml@%s", where); mc_violation(key, "%s :: XML exports differ (%d vs %d bytes): %s", mc_case_text(), la, lb, xa && xb ? canon_diff(xa, xb) : "export failed"); bad = 1; }
  free(xa); free(xb);
  struct sb ba, bb; sb_init(&ba); sb_init(&bb);
  battery_all(t, &ba); battery_all(d, &bb);
  if (strcmp(ba.s, bb.s)) { snprintf(key, sizeof(key), "c12.battery@%s", where); mc_violation(key, "%s :: %s", mc_case_text(), canon_diff(ba.s, bb.s)); bad = 1; }
  sb_free(&ba); sb_free(&bb);
  return bad;
}

static void one_state(const struct hist *h, const struct opscope *sc, int mutate)
{
  hwloc_topology_t t = NULL, d = NULL;
  if (!mc_case("%s ; dup", hist_text(h))) return;
  if (MC_TRY(30000)) { t = hist_build(h); mc_try_end(); }
  if (mc_report_faults("replay") || !t) return;
  int rc = -9;
  if (MC_TRY(30000)) { rc = hwloc_topology_dup(&d, t); mc_try_end(); }
  MC.transitions++;
  if (mc_report_faults("dup")) return;
  if (rc < 0 || !d) { mc_violation("c12.dup.fails", "%s :: dup returned %d", mc_case_text(), rc); hwloc_topology_destroy(t); return; }
  MC.states++;
  int orig_ok = 0;
  if (MC_TRY(60000)) {
    check_equivalent(t, d, "dup");
    /* states that the modifying alphabet already broke are C02's findings: the copy is only judged when the original passes */
    orig_ok = wf_check(t, NULL, NULL) == 0;
    if (orig_ok) wf_check_mc(d, "dup"); else mc_count("states_ill_formed_before_dup", 1);
    mc_try_end();
  }
  mc_report_faults("equivalence");
  if (orig_ok) { int pre = 0; if (MC_TRY(20000)) { hwloc_topology_check(t); mc_try_end(); } if (mc_fault[0]) { pre = 1; mc_fault[0] = 0; } mc_clear_san(); if (!pre) wf_builtin_check_mc(d, "dup"); }
  struct op *ops = NULL; int nops = mutate ? ops_enumerate(t, sc, &ops) : 0;
  /* a second copy, taken after the original was refreshed (the lazy caches of distances and memory attributes are rebuilt,
   * entries of removed objects are gone, arrays may be empty but still allocated): equivalent too, and it shares nothing
   * either - the three topologies are destroyed below, ASan sees any block freed twice */
  hwloc_topology_t d2 = NULL;
  if (MC_TRY(60000)) { hwloc_topology_refresh(t); if (hwloc_topology_dup(&d2, t) < 0) d2 = NULL; if (d2) check_equivalent(t, d2, "dup-after-refresh"); mc_try_end(); }
  MC.transitions++;
  if (mc_report_faults("dup-after-refresh")) d2 = NULL;
  /* destroy order alternates */
  if (MC_TRY(30000)) { if (h->n & 1) { hwloc_topology_destroy(t); hwloc_topology_destroy(d); if (d2) hwloc_topology_destroy(d2); } else { if (d2) hwloc_topology_destroy(d2); hwloc_topology_destroy(d); hwloc_topology_destroy(t); } mc_try_end(); }
  mc_report_faults("destroy");
  for (int i = 0; i < nops; i++) {
    static struct sb ob; if (!ob.s) sb_init(&ob); sb_reset(&ob); op_print(&ob, &ops[i]);
    if (!mc_case("%s ; dup ; %s", hist_text(h), ob.s)) continue;
    t = d = NULL;
    if (MC_TRY(30000)) { t = hist_build(h); if (t && hwloc_topology_dup(&d, t) < 0) d = NULL; mc_try_end(); }
    if (mc_report_faults("replay") || !t || !d) continue;
    char *orig_before = canon_str(t, CANON_ALL);
    struct opres r1, r2; memset(&r1, 0, sizeof(r1)); memset(&r2, 0, sizeof(r2));
    /* mutate the copy: the original must not move */
    if (MC_TRY(30000)) { op_apply(d, &ops[i], &r1); mc_try_end(); }
    MC.transitions++;
    if (mc_report_faults("op-on-copy")) { free(orig_before); mc_leak_disable(); continue; }
    if (!r1.applicable) { free(orig_before); hwloc_topology_destroy(t); hwloc_topology_destroy(d); continue; }
    char *orig_after = NULL;
    if (MC_TRY(30000)) { orig_after = canon_str(t, CANON_ALL); mc_try_end(); }
    if (mc_report_faults("canon-original")) { free(orig_before); mc_leak_disable(); continue; }
    if (strcmp(orig_before, orig_after)) mc_violation("c12.independent.original-moved", "%s :: modifying the copy changed the original: %s", mc_case_text(), canon_diff(orig_before, orig_after));
    free(orig_before); free(orig_after);
    /* the same op on the original: both must agree again (userdata tags of new objects are set on both) */
    if (MC_TRY(30000)) { op_apply(t, &ops[i], &r2); mc_try_end(); }
    MC.transitions++;
    if (mc_report_faults("op-on-original")) { mc_leak_disable(); continue; }
    if (r1.rc != r2.rc || (r1.rc < 0 && r1.err != r2.err)) mc_violation("c12.differential.rc", "%s :: rc/errno %d/%d on the copy, %d/%d on the original", mc_case_text(), r1.rc, r1.err, r2.rc, r2.err);
    if (MC_TRY(60000)) {
      /* both are refreshed first (documented after a modification): lazily cached object pointers of the original
       * and freshly looked-up ones of the copy are then at the same point of their life cycle */
      hwloc_topology_refresh(t); hwloc_topology_refresh(d);
      /* gp_index values handed to new objects need not agree (nothing promises it): compare without gp and userdata tags */
      char *a = canon_str(t, CANON_ALL & ~(CANON_GP | CANON_USERDATA)), *b = canon_str(d, CANON_ALL & ~(CANON_GP | CANON_USERDATA));
      if (strcmp(a, b)) mc_violation("c12.differential.canon", "%s :: after the same call on both: %s", mc_case_text(), canon_diff(a, b));
      free(a); free(b);
      if (wf_check(t, NULL, NULL) == 0) wf_check_mc(d, "dup-modified");
      mc_try_end();
    }
    mc_report_faults("differential");
    if (MC_TRY(30000)) { if (i & 1) { hwloc_topology_destroy(t); hwloc_topology_destroy(d); } else { hwloc_topology_destroy(d); hwloc_topology_destroy(t); } mc_try_end(); }
    mc_report_faults("destroy");
  }
  free(ops);
}

int main(int argc, char **argv)
{
  mc_init(argc, argv, "C12");
  int nroots = univ_small_count(), ncfg = hist_ncfg();
  struct opscope sc; memset(&sc, 0, sizeof(sc));
  sc.classes = OPC_ALL; sc.max_subset_bits = 2; sc.lean = 1;
  if (MC.thorough) { sc.lean = 0; sc.max_subset_bits = 3; }
  uint64_t idx = 0;
  mc_note("%d roots x %d configurations; states: depth 0 and every depth-1 state of the C02 alphabet; mutation ops on the root states%s", nroots, ncfg, MC.thorough ? " and on every depth-1 state" : " and on every 12th depth-1 state");
  for (int r = 0; r < nroots; r++) for (int c = 0; c < ncfg; c++, idx++) {
    if (!mc_mine(idx) || mc_deadline()) continue;
    struct hist h0; memset(&h0, 0, sizeof(h0)); h0.root = r; h0.cfg = c;
    hwloc_topology_t t = hist_build(&h0);
    if (!t) continue;
    struct op *ops; int nops = ops_enumerate(t, &sc, &ops);
    hwloc_topology_destroy(t);
    one_state(&h0, &sc, 1);
    struct strset seen; strset_init(&seen);
    int k = 0;
    for (int i = 0; i < nops && !mc_deadline(); i++) {
      struct hist h1 = h0; h1.ops[h1.n++] = ops[i];
      hwloc_topology_t t1 = NULL;
      if (MC_TRY(30000)) { t1 = hist_build(&h1); mc_try_end(); }
      if (mc_fault[0] || !t1) { mc_fault[0] = 0; mc_clear_san(); continue; }    /* faults of the C02 alphabet are C02's business */
      char *key = canon_str(t1, CANON_ALL); hwloc_topology_destroy(t1);
      int fresh = strset_add(&seen, key, strlen(key)); free(key);
      if (!fresh) continue;
      one_state(&h1, &sc, MC.thorough || (k++ % 12 == 0));
    }
    free(ops); strset_free(&seen);
    if (idx % 9 == 0) mc_sample("%s ; dup ; <every op of the alphabet on the copy, then on the original>", hist_text(&h0));
  }
  if (mc_leak_check()) mc_violation("c12.leak", "leak reported at the end of part %d", MC.part);
  return mc_finish(1);
}
