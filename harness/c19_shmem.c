/* C19 - shared-memory topologies: length suffices, adopted copy is equal and read-only.
 *
 * States: every U_small root x configuration and every depth-1 state of the modifying
 * alphabet.  For each state and each file offset in {0, 1, 3 pages}: get_length, write into
 * a mapping followed by a PROT_NONE guard page (a write past `length` faults), exact file
 * size, adopt, equivalence (canonical dump, XML bytes), well-formedness; every single
 * deviation of (address, length, offset) by one page, a foreign ABI word, an occupied
 * address range; then every op of the modifying alphabet and the read-only battery on the
 * adopted topology, whose mapping is PROT_READ (any write faults and is reported); allow();
 * destroy must leave the address range reusable.
 */
#define _GNU_SOURCE
#include "hwmc.h"
#include "univ.h"
#include "canon.h"
#include "wf.h"
#include "ops.h"
#include "battery.h"
#include "hwloc/shmem.h"
#include "private/private.h"
#include <sys/mman.h>
#include <sys/stat.h>
#include <unistd.h>
#include <fcntl.h>
#include <stddef.h>

static long PAGE;
/* struct hwloc_shmem_header is private to shmem.c: two 32-bit words and two 64-bit words */
#define SHMEM_HEADER_SIZE ((size_t)24)
static char *hist_text(const struct hist *h) { static struct sb b; if (!b.s) sb_init(&b); sb_reset(&b); hist_print(&b, h); return b.s; }

static char *xml_of(hwloc_topology_t t, int *lenp)
{
  char *x = NULL; int l = 0;
  if (hwloc_topology_export_xmlbuffer(t, &x, &l, 0) < 0) return NULL;
  char *c = malloc((size_t)l + 1); memcpy(c, x, (size_t)l); c[l] = 0; hwloc_free_xmlbuffer(t, x); *lenp = l; return c;
}

/* reserve a free address range of len + 2 guard pages; the middle part is released for the library, the guards stay */
static void *reserve(size_t len, void **guard_after)
{
  char *base = mmap(NULL, len + 4 * (size_t)PAGE, PROT_NONE, MAP_PRIVATE | MAP_ANONYMOUS | MAP_NORESERVE, -1, 0);
  if (base == MAP_FAILED) return NULL;
  char *addr = base + 2 * PAGE;
  munmap(addr, len);                       /* hole for the library's mmap(addr hint) */
  *guard_after = addr + len;               /* still PROT_NONE */
  return addr;
}
static void unreserve(void *addr, size_t len) { munmap((char *)addr - 2 * PAGE, 2 * (size_t)PAGE); munmap((char *)addr + len, 2 * (size_t)PAGE); }

static void one_state(const struct hist *h, const struct opscope *sc, int with_ops)
{
  for (int oi = 0; oi < 3; oi++) {
    static const int OFFS[] = { 0, 1, 3 };
    off_t off = (off_t)OFFS[oi] * PAGE;
    if (!mc_case("%s ; shmem(offset=%d pages)", hist_text(h), OFFS[oi])) continue;
    hwloc_topology_t t = NULL;
    if (MC_TRY(30000)) { t = hist_build(h); mc_try_end(); }
    if (mc_report_faults("replay") || !t) return;
    size_t len = 0; int rc = -9;
    /* cold pass (first offset only): get_length, write and adopt come right after the last modifying call of the history,
     * with no consulting call in between - whatever the history left to be refreshed lazily is still pending when the
     * topology is written (seeded change C19-write-refresh-after-dup: the writer refreshed the source after copying it; the
     * pass below always computes a dump of the source first, which performs every pending refresh) */
    if (oi == 0) {
      size_t clen = 0; int crc = -9; hwloc_topology_t ca = NULL;
      if (MC_TRY(30000)) { crc = hwloc_shmem_topology_get_length(t, &clen, 0); mc_try_end(); }
      if (mc_report_faults("cold-get_length")) { hwloc_topology_destroy(t); return; }
      void *cguard; void *caddr = crc == 0 && clen ? reserve(clen, &cguard) : NULL;
      char cpath[256]; snprintf(cpath, sizeof(cpath), "%s/c19.%d.%d.cold.shm", getenv("TMPDIR") ? getenv("TMPDIR") : "/tmp", (int)getpid(), MC.part);
      int cfd = caddr ? open(cpath, O_RDWR | O_CREAT | O_TRUNC, 0600) : -1; if (cfd >= 0) unlink(cpath);
      if (caddr && cfd >= 0) {
        crc = -9;
        if (MC_TRY(30000)) { crc = hwloc_shmem_topology_write(t, cfd, 0, caddr, clen, 0); mc_try_end(); }
        MC.transitions++;
        if (mc_report_faults("cold-write")) { munmap(caddr, clen); unreserve(caddr, clen); close(cfd); hwloc_topology_destroy(t); return; }
        if (crc != 0) mc_violation("c19.write.fails", "%s :: write right after the history returned %d (errno %d)", mc_case_text(), crc, errno);
        else {
          crc = -9;
          if (MC_TRY(30000)) { crc = hwloc_shmem_topology_adopt(&ca, cfd, 0, caddr, clen, 0); mc_try_end(); }
          if (!mc_report_faults("cold-adopt")) {
            if (crc != 0 || !ca) mc_violation("c19.adopt.fails", "%s :: adoption after a write right after the history returns %d (errno %d)", mc_case_text(), crc, errno);
            else {
              if (MC_TRY(60000)) {
                char *got = canon_str(ca, CANON_ALL & ~CANON_SUPPORT), *want = canon_str(t, CANON_ALL & ~CANON_SUPPORT);
                if (strcmp(got, want)) mc_violation("c19.adopt.canon", "%s :: (written right after the history) %s", mc_case_text(), canon_diff(want, got));
                free(got); free(want);
                struct sb b; sb_init(&b); battery_all(ca, &b); sb_free(&b);
                mc_try_end();
              }
              mc_report_faults("cold-adopted-read");
              if (MC_TRY(30000)) { hwloc_topology_destroy(ca); mc_try_end(); }
              mc_report_faults("cold-destroy");
              mc_count("cold_passes", 1);
            }
          }
        }
      }
      if (cfd >= 0) close(cfd);
      if (caddr) unreserve(caddr, clen);
    }
    if (MC_TRY(30000)) { rc = hwloc_shmem_topology_get_length(t, &len, 0); mc_try_end(); }
    MC.transitions++;
    if (mc_report_faults("get_length")) { hwloc_topology_destroy(t); return; }
    if (rc != 0 || !len || (len % (size_t)PAGE)) { mc_violation("c19.get_length", "%s :: get_length rc=%d length=%zu", mc_case_text(), rc, len); hwloc_topology_destroy(t); return; }
    { size_t l2; if (hwloc_shmem_topology_get_length(t, &l2, 1) != -1) mc_violation("c19.get_length.flags", "%s :: flags accepted", mc_case_text()); }
    void *guard; void *addr = reserve(len, &guard);
    char path[256]; snprintf(path, sizeof(path), "%s/c19.%d.%d.shm", getenv("TMPDIR") ? getenv("TMPDIR") : "/tmp", (int)getpid(), MC.part);
    int fd = open(path, O_RDWR | O_CREAT | O_TRUNC, 0600); unlink(path);
    if (!addr || fd < 0) { mc_note("engine: cannot reserve address space or create the file"); hwloc_topology_destroy(t); if (fd >= 0) close(fd); return; }
    char *ref = canon_str(t, CANON_ALL & ~CANON_SUPPORT); int xl = 0; char *xref = xml_of(t, &xl);
    /* write: a store past `length` hits the guard page (SIGSEGV inside the protected block) */
    rc = -9; errno = 0;
    if (MC_TRY(30000)) { rc = hwloc_shmem_topology_write(t, fd, (hwloc_uint64_t)off, addr, len, 0); mc_try_end(); }
    MC.transitions++;
    if (mc_report_faults("write")) { munmap(addr, len); goto cleanup; }
    if (rc != 0) { mc_violation("c19.write.fails", "%s :: write returned %d (errno %d)", mc_case_text(), rc, errno); goto cleanup; }
    { struct stat st; fstat(fd, &st); if (st.st_size != off + (off_t)len) mc_violation("c19.write.filesize", "%s :: file is %ld bytes, offset+length is %ld", mc_case_text(), (long)st.st_size, (long)(off + (off_t)len)); }
    /* the writer's mapping is gone: the range must be mappable again */
    { void *p = mmap(addr, len, PROT_NONE, MAP_PRIVATE | MAP_ANONYMOUS | MAP_FIXED_NOREPLACE, -1, 0); if (p != addr) mc_violation("c19.write.unmap", "%s :: the address range is still occupied after write", mc_case_text()); else munmap(addr, len); }
    /* writing does not change the source topology */
    { char *now = canon_str(t, CANON_ALL & ~CANON_SUPPORT); if (strcmp(now, ref)) mc_violation("c19.write.modifies-source", "%s :: %s", mc_case_text(), canon_diff(ref, now)); free(now); }

    /* ---- invalid adoptions: single deviations */
    {
      struct { const char *what; void *a; size_t l; off_t o; int want; } DEV[] = {
        { "address+page", (char *)addr + PAGE, len, off, EINVAL }, { "address-page", (char *)addr - PAGE, len, off, EINVAL },
        { "length+page", addr, len + (size_t)PAGE, off, EINVAL }, { "length-page", addr, len - (size_t)PAGE, off, EINVAL },
        { "offset+page", addr, len, off + PAGE, EINVAL }, { "offset-page", addr, len, off - PAGE, EINVAL } };
      for (unsigned i = 0; i < 6; i++) {
        if (DEV[i].o < 0 || !DEV[i].l) continue;
        hwloc_topology_t a = NULL; errno = 0; int r = -9;
        if (MC_TRY(30000)) { r = hwloc_shmem_topology_adopt(&a, fd, (hwloc_uint64_t)DEV[i].o, DEV[i].a, DEV[i].l, 0); mc_try_end(); }
        MC.transitions++;
        char key[96]; snprintf(key, sizeof(key), "adopt-%s", DEV[i].what);
        if (mc_report_faults(key)) continue;
        if (r == 0) { snprintf(key, sizeof(key), "c19.adopt.accepts.%s", DEV[i].what); mc_violation(key, "%s :: adoption with %s succeeds", mc_case_text(), DEV[i].what); hwloc_topology_destroy(a); }
        else if (errno != EINVAL && !(i == 4 /* reading a header beyond the file */)) { snprintf(key, sizeof(key), "c19.adopt.errno.%s", DEV[i].what); mc_violation(key, "%s :: adoption with %s fails with errno %d", mc_case_text(), DEV[i].what, errno); }
      }
      { hwloc_topology_t a = NULL; if (hwloc_shmem_topology_adopt(&a, fd, (hwloc_uint64_t)off, addr, len, 1) != -1) mc_violation("c19.adopt.flags", "%s :: flags accepted", mc_case_text()); }
      /* occupied range */
      { void *p = mmap(addr, len, PROT_NONE, MAP_PRIVATE | MAP_ANONYMOUS | MAP_FIXED_NOREPLACE, -1, 0);
        if (p == addr) { hwloc_topology_t a = NULL; errno = 0; int r = hwloc_shmem_topology_adopt(&a, fd, (hwloc_uint64_t)off, addr, len, 0); MC.transitions++;
          if (r == 0) { mc_violation("c19.adopt.occupied", "%s :: adoption into an occupied range succeeds", mc_case_text()); hwloc_topology_destroy(a); }
          else if (errno != EBUSY) mc_violation("c19.adopt.occupied.errno", "%s :: occupied range: errno %d, expected EBUSY", mc_case_text(), errno);
          /* the refused adoption leaves the occupant alone: the range must still be taken (seeded change C19-ebusy-unmap
           * unmapped the caller's memory on this path) */
          { void *q = mmap(addr, len, PROT_NONE, MAP_PRIVATE | MAP_ANONYMOUS | MAP_FIXED_NOREPLACE, -1, 0);
            if (q == addr) mc_violation("c19.adopt.occupied.unmapped", "%s :: after the refused adoption the occupied range is free: the occupant was unmapped", mc_case_text());
            else if (q != MAP_FAILED) munmap(q, len); }
          munmap(addr, len); } }
      /* foreign ABI word: the first field of the stored topology */
      { unsigned abi = 0, bad; off_t pos = off + (off_t)((SHMEM_HEADER_SIZE + sizeof(void *) - 1) & ~(sizeof(void *) - 1)) + (off_t)offsetof(struct hwloc_topology, topology_abi);
        if (pread(fd, &abi, sizeof(abi), pos) == (ssize_t)sizeof(abi) && abi == HWLOC_TOPOLOGY_ABI) {
          /* every single-bit deviation of the ABI word (any other value is an incompatible ABI) */
          for (int bit = 0; bit < 32; bit++) {
          bad = abi ^ (1u << bit); if (pwrite(fd, &bad, sizeof(bad), pos) != (ssize_t)sizeof(bad)) bad = 0;
          hwloc_topology_t a = NULL; errno = 0; int r = -9;
          if (MC_TRY(30000)) { r = hwloc_shmem_topology_adopt(&a, fd, (hwloc_uint64_t)off, addr, len, 0); mc_try_end(); }
          MC.transitions++;
          if (!mc_report_faults("adopt-foreign-abi")) { if (r == 0) { mc_violation("c19.adopt.abi", "%s :: ABI word %#x (this library: %#x) is adopted", mc_case_text(), bad, abi); hwloc_topology_destroy(a); } else if (errno != EINVAL) mc_violation("c19.adopt.abi.errno", "%s :: errno %d", mc_case_text(), errno);
            void *p = mmap(addr, len, PROT_NONE, MAP_PRIVATE | MAP_ANONYMOUS | MAP_FIXED_NOREPLACE, -1, 0); if (p != addr) mc_violation("c19.adopt.abi.unmap", "%s :: the failed adoption leaves the range mapped", mc_case_text()); else munmap(addr, len); }
          }
          if (pwrite(fd, &abi, sizeof(abi), pos) != (ssize_t)sizeof(abi)) goto cleanup;
        } else mc_count("abi_word_not_located", 1); }
    }

    /* ---- valid adoption */
    {
      hwloc_topology_t a = NULL; rc = -9; errno = 0;
      if (MC_TRY(30000)) { rc = hwloc_shmem_topology_adopt(&a, fd, (hwloc_uint64_t)off, addr, len, 0); mc_try_end(); }
      MC.transitions++;
      if (mc_report_faults("adopt")) goto cleanup;
      if (rc != 0 || !a) { mc_violation("c19.adopt.fails", "%s :: valid adoption returns %d (errno %d)", mc_case_text(), rc, errno); goto cleanup; }
      MC.states++;
      /* a copy of the file bytes: nothing the adopter does may change them */
      char *before = malloc(len); if (pread(fd, before, len, off) != (ssize_t)len) { free(before); before = NULL; }
      if (MC_TRY(60000)) {
        char *got = canon_str(a, CANON_ALL & ~CANON_SUPPORT);
        if (strcmp(got, ref)) mc_violation("c19.adopt.canon", "%s :: %s", mc_case_text(), canon_diff(ref, got));
        free(got);
        int gl = 0; char *gx = xml_of(a, &gl);
        if (!gx || !xref || gl != xl || memcmp(gx, xref, (size_t)xl)) mc_violation("c19.adopt.xml", "%s :: XML exports differ: %s", mc_case_text(), gx && xref ? canon_diff(xref, gx) : "export failed");
        free(gx);
        if (wf_check(t, NULL, NULL) == 0) wf_check_mc(a, "adopted");
        struct sb b; sb_init(&b); battery_all(a, &b); sb_free(&b);
        mc_try_end();
      }
      mc_report_faults("adopted-read");
      /* modifying calls: refused, mapping untouched (a store into it faults: reported through the protected block) */
      if (with_ops) {
        struct op *ops; int nops = ops_enumerate(t, sc, &ops);
        hwloc_topology_t mirror = NULL;
        for (int k = 0; k < nops; k++) {
          if (ops[k].kind == OP_INFO || ops[k].kind == OP_SUBTYPE) continue;   /* object-level edits have no topology to refuse them: documented as forbidden */
          static struct sb ob; if (!ob.s) sb_init(&ob); sb_reset(&ob); op_print(&ob, &ops[k]);
          if (!mc_case("%s ; shmem(offset=%d pages) ; on-adopted %s", hist_text(h), OFFS[oi], ob.s)) continue;
          struct opres r; memset(&r, 0, sizeof(r));
          const char *kn = ob.s; char where[64]; snprintf(where, sizeof(where), "adopted-%.*s", (int)(strchr(kn, '(') ? strchr(kn, '(') - kn : 20), kn);
          if (MC_TRY(30000)) { op_apply(a, &ops[k], &r); mc_try_end(); }
          MC.transitions++;
          if (mc_report_faults(where)) continue;
          if (!r.applicable) continue;
          if (ops[k].kind == OP_ALLOW) {
            /* allow() is the documented exception: same outcome as on the original */
            /* the same sequence of allow() calls is applied to a mirror built from the original history */
            struct opres r0; if (!mirror) mirror = hist_build(h);
            op_apply(mirror, &ops[k], &r0);
            if (r0.rc != r.rc) mc_violation("c19.adopted.allow", "%s :: allow returns %d on the adopted topology, %d on the original", mc_case_text(), r.rc, r0.rc);
            else { char *c1 = canon_str(mirror, CANON_ALLOWED), *c2 = canon_str(a, CANON_ALLOWED); if (strcmp(c1, c2)) mc_violation("c19.adopted.allow.result", "%s :: %s", mc_case_text(), canon_diff(c1, c2)); free(c1); free(c2); }
          } else {
            if (r.rc == 0 && ops[k].kind != OP_GROUP_FREE && ops[k].kind != OP_REFRESH /* nothing to refuse: it must only leave the mapping alone */) { char key[96]; snprintf(key, sizeof(key), "c19.adopted.accepted@%s", where); mc_violation(key, "%s :: the call succeeds on an adopted topology", mc_case_text()); }
            if (r.rc != 0 && r.err != EPERM && r.err != EINVAL && r.err != EBUSY) { char key[96]; snprintf(key, sizeof(key), "c19.adopted.errno@%s", where); mc_violation(key, "%s :: refused with errno %d", mc_case_text(), r.err); }
          }
        }
        /* hwloc_distances_release_remove(): takes a handle, so it is not in the history alphabet; every structure in turn */
        {
          unsigned nr = 8; struct hwloc_distances_s *ds[8];
          if (hwloc_distances_get(a, &nr, ds, 0, 0) == 0) {
            if (nr > 8) nr = 8;
            for (unsigned q = 0; q < nr; q++) {
              if (!mc_case("%s ; shmem(offset=%d pages) ; on-adopted distances_release_remove(#%u)", hist_text(h), OFFS[oi], q)) { hwloc_distances_release(a, ds[q]); continue; }
              int rr = -9, ee = 0; MC.transitions++;
              if (MC_TRY(30000)) { errno = 0; rr = hwloc_distances_release_remove(a, ds[q]); ee = errno; mc_try_end(); }
              if (mc_report_faults("adopted-distances_release_remove")) continue;
              if (rr == 0) mc_violation("c19.adopted.accepted@adopted-distances_release_remove", "%s :: the call succeeds on an adopted topology", mc_case_text());
              else { if (ee != EPERM && ee != EINVAL) mc_violation("c19.adopted.errno@adopted-distances_release_remove", "%s :: refused with errno %d", mc_case_text(), ee); hwloc_distances_release(a, ds[q]); }
            }
          }
        }
        free(ops);
        if (mirror) hwloc_topology_destroy(mirror);
        mc_case("%s ; shmem(offset=%d pages)", hist_text(h), OFFS[oi]);
      }
      if (before) { char *after = malloc(len); if (pread(fd, after, len, off) == (ssize_t)len && memcmp(before, after, len)) mc_violation("c19.adopted.file-changed", "%s :: the shared file changed while adopted", mc_case_text()); free(after); free(before); }
      if (MC_TRY(30000)) { hwloc_topology_destroy(a); mc_try_end(); }
      mc_report_faults("destroy-adopted");
      { void *p = mmap(addr, len, PROT_NONE, MAP_PRIVATE | MAP_ANONYMOUS | MAP_FIXED_NOREPLACE, -1, 0); if (p != addr) mc_violation("c19.destroy.unmap", "%s :: the range is still mapped after destroying the adopted topology", mc_case_text()); else munmap(addr, len); }
    }
  cleanup:
    free(ref); free(xref);
    close(fd);
    munmap(addr, len);   /* whatever is left */
    unreserve(addr, len);
    if (MC_TRY(30000)) { hwloc_topology_destroy(t); mc_try_end(); }
    mc_report_faults("destroy");
  }
}

int main(int argc, char **argv)
{
  mc_init(argc, argv, "C19");
  PAGE = sysconf(_SC_PAGESIZE);
  int nroots = univ_small_count(), ncfg = hist_ncfg() + 1;   /* + the configuration with NO_DISTANCES|NO_MEMATTRS|NO_CPUKINDS */
  struct opscope sc; memset(&sc, 0, sizeof(sc)); sc.classes = OPC_ALL; sc.max_subset_bits = 2; sc.lean = 1;
  uint64_t idx = 0;
  mc_note("%d roots x %d configurations and their depth-1 states x file offsets {0,1,3} pages; guard page after the mapping", nroots, ncfg);
  for (int r = 0; r < nroots; r++) for (int c = 0; c < ncfg; c++, idx++) {
    if (!mc_mine(idx) || mc_deadline()) continue;
    struct hist h0; memset(&h0, 0, sizeof(h0)); h0.root = r; h0.cfg = c;
    hwloc_topology_t t = hist_build(&h0);
    if (!t) continue;
    struct op *ops; int nops = ops_enumerate(t, &sc, &ops);
    hwloc_topology_destroy(t);
    one_state(&h0, &sc, 1);
    struct strset seen; strset_init(&seen); int k = 0;
    for (int i = 0; i < nops && !mc_deadline(); i++) {
      struct hist h1 = h0; h1.ops[h1.n++] = ops[i];
      /* states of the known C02 finding (grouping at commit) are not judged here */
      if (ops[i].kind == OP_DIST_ADD && (ops[i].flags & HWLOC_DISTANCES_ADD_FLAG_GROUP)) continue;
      hwloc_topology_t t1 = NULL;
      if (MC_TRY(30000)) { t1 = hist_build(&h1); mc_try_end(); }
      if (mc_fault[0] || !t1) { mc_fault[0] = 0; mc_clear_san(); continue; }
      char *key = canon_str(t1, CANON_ALL); hwloc_topology_destroy(t1);
      int fresh = strset_add(&seen, key, strlen(key)); free(key);
      if (!fresh) continue;
      one_state(&h1, &sc, MC.thorough || (k++ % 10 == 0));
    }
    free(ops); strset_free(&seen);
    if (idx % 9 == 0) mc_sample("%s ; shmem write/adopt at 3 offsets ; every modifying op on the adopted topology", hist_text(&h0));
  }
  return mc_finish(1);
}
