/* C11 - object type strings parse back; obj/attr snprintf obey the length contract.
 *
 * Exhaustive small scope: every object of the fixtures and of generated documents that
 * carry every OS-device type word 0..127 (+ words with unknown bits), both bridge upstream
 * types, cache depths 1..5 x types and several group depths; all 64 flag words over the six
 * snprintf flags; every buffer size 0..needed+1 and NULL/0 in exact-size heap buffers, under
 * a watchdog.  hwloc_type_sscanf: every printed text, every prefix/case variant of every type
 * name, every string of <= 4 letters over a 14-letter alphabet. hwloc_compare_types: 20 x 20.
 */
#include "hwmc.h"
#include "univ.h"
#include "canon.h"
#include "ops.h"
#include <ctype.h>

static const unsigned long FLAGBITS[6] = { HWLOC_OBJ_SNPRINTF_FLAG_OLD_VERBOSE, HWLOC_OBJ_SNPRINTF_FLAG_LONG_NAMES, HWLOC_OBJ_SNPRINTF_FLAG_SHORT_NAMES,
                                           HWLOC_OBJ_SNPRINTF_FLAG_MORE_ATTRS, HWLOC_OBJ_SNPRINTF_FLAG_NO_UNITS, HWLOC_OBJ_SNPRINTF_FLAG_UNITS_1000 };

typedef int (*printer)(char *, size_t, hwloc_obj_t, unsigned long);
static int print_type(char *s, size_t n, hwloc_obj_t o, unsigned long f) { return hwloc_obj_type_snprintf(s, n, o, f); }
static int print_attr(char *s, size_t n, hwloc_obj_t o, unsigned long f) { return hwloc_obj_attr_snprintf(s, n, o, ", ", f); }

/* snprintf contract at every size; returns malloc'ed full text or NULL */
static char *contract(printer p, const char *pname, hwloc_obj_t o, unsigned long fl)
{
  char key[96];
  int need = p(NULL, 0, o, fl);
  MC.transitions++;
  if (need < 0) { snprintf(key, sizeof(key), "c11.%s.null", pname); mc_violation(key, "%s :: (NULL,0) returned %d", mc_case_text(), need); return NULL; }
  char *full = malloc((size_t)need + 1);
  int r = p(full, (size_t)need + 1, o, fl);
  if (r != need || strlen(full) != (size_t)need) { snprintf(key, sizeof(key), "c11.%s.length", pname); mc_violation(key, "%s :: needed %d, full call returned %d, strlen %zu", mc_case_text(), need, r, strlen(full)); }
  /* a generous buffer must give the same length and text: a printer that under-reports whenever it truncates is consistent
   * with itself at every size up to its own answer + 1 (seeded change C11-osdev-bracket-length) */
  { size_t bl = (size_t)need + 65; char *big = malloc(bl); memset(big, 0x5a, bl); r = p(big, bl, o, fl); MC.transitions++;
    if (r != need || strcmp(big, full)) { snprintf(key, sizeof(key), "c11.%s.generous", pname); mc_violation(key, "%s :: (NULL,0) says %d and gives \"%s\", a %zu-byte buffer returns %d and gives \"%s\"", mc_case_text(), need, full, bl, r, big); }
    free(big); }
  for (int len = 0; len <= need + 1; len++) {
    char *buf = malloc(len ? (size_t)len : 1); memset(buf, 0x5a, len ? (size_t)len : 1);
    r = p(buf, (size_t)len, o, fl);
    MC.transitions++;
    if (r != need) { snprintf(key, sizeof(key), "c11.%s.return", pname); mc_violation(key, "%s :: size %d returned %d, needed %d", mc_case_text(), len, r, need); }
    if (len > 0) {
      size_t sl = strnlen(buf, (size_t)len);
      if (sl == (size_t)len) { snprintf(key, sizeof(key), "c11.%s.nul", pname); mc_violation(key, "%s :: size %d not NUL-terminated", mc_case_text(), len); }
      else if (len > need && strcmp(buf, full)) { snprintf(key, sizeof(key), "c11.%s.full", pname); mc_violation(key, "%s :: size %d gives \"%s\", full text is \"%s\"", mc_case_text(), len, buf, full); }
      else if (strncmp(buf, full, sl)) { snprintf(key, sizeof(key), "c11.%s.prefix", pname); mc_violation(key, "%s :: size %d gives \"%s\", not a prefix of \"%s\"", mc_case_text(), len, buf, full); }
    } else if ((unsigned char)buf[0] != 0x5a) { snprintf(key, sizeof(key), "c11.%s.write0", pname); mc_violation(key, "%s :: size 0 wrote into the buffer", mc_case_text()); }
    free(buf);
  }
  return full;
}

static void check_parse_back(hwloc_obj_t o, const char *text, const char *what)
{
  hwloc_obj_type_t ty = (hwloc_obj_type_t)-1; union hwloc_obj_attr_u attr; memset(&attr, 0xff, sizeof(attr));
  size_t l = strlen(text); char *copy = malloc(l + 1); memcpy(copy, text, l + 1);
  int rc = hwloc_type_sscanf(copy, &ty, &attr, sizeof(attr));
  char key[96];
  MC.transitions++;
  if (rc < 0) { snprintf(key, sizeof(key), "c11.sscanf.rejects.%s", what); mc_violation(key, "%s :: hwloc_type_sscanf(\"%s\") fails", mc_case_text(), text); free(copy); return; }
  if (ty != o->type) { snprintf(key, sizeof(key), "c11.sscanf.type.%s", what); mc_violation(key, "%s :: \"%s\" parses as %s", mc_case_text(), text, hwloc_obj_type_string(ty)); free(copy); return; }
  switch (o->type) {
  case HWLOC_OBJ_L1CACHE: case HWLOC_OBJ_L2CACHE: case HWLOC_OBJ_L3CACHE: case HWLOC_OBJ_L4CACHE: case HWLOC_OBJ_L5CACHE:
  case HWLOC_OBJ_L1ICACHE: case HWLOC_OBJ_L2ICACHE: case HWLOC_OBJ_L3ICACHE:
    /* the bare type name cannot tell a data cache from a unified one (both are LxCache): depth only */
    if (attr.cache.depth != o->attr->cache.depth || (strcmp(what, "type_string") && attr.cache.type != o->attr->cache.type)) { snprintf(key, sizeof(key), "c11.sscanf.attr.cache"); mc_violation(key, "%s :: \"%s\" gives cache depth %u type %d", mc_case_text(), text, attr.cache.depth, (int)attr.cache.type); }
    break;
  case HWLOC_OBJ_GROUP:
    if (strcmp(what, "type_string") && attr.group.depth != o->attr->group.depth) { snprintf(key, sizeof(key), "c11.sscanf.attr.group"); mc_violation(key, "%s :: \"%s\" gives group depth %u, object has %u", mc_case_text(), text, attr.group.depth, o->attr->group.depth); }
    break;
  case HWLOC_OBJ_BRIDGE:
    if (strcmp(what, "type_string") && attr.bridge.upstream_type != o->attr->bridge.upstream_type) { snprintf(key, sizeof(key), "c11.sscanf.attr.bridge"); mc_violation(key, "%s :: \"%s\" gives upstream type %d", mc_case_text(), text, (int)attr.bridge.upstream_type); }
    break;
  case HWLOC_OBJ_OS_DEVICE:
    /* only the known type bits can be printed */
    if (strcmp(what, "type_string") && attr.osdev.types != (o->attr->osdev.types & 0x7fUL)) { snprintf(key, sizeof(key), "c11.sscanf.attr.osdev"); mc_violation(key, "%s :: \"%s\" gives OS device types %#lx, object has %#lx", mc_case_text(), text, (unsigned long)attr.osdev.types, (unsigned long)o->attr->osdev.types); }
    break;
  default: break;
  }
  free(copy);
}

static struct strset texts_seen;
static char **texts; static size_t ntexts, captexts;

static void one_object(hwloc_topology_t t, hwloc_obj_t o, const char *src)
{
  (void)t;
  for (unsigned w = 0; w < 64; w++) {
    unsigned long fl = 0; for (int b = 0; b < 6; b++) if (w & (1u << b)) fl |= FLAGBITS[b];
    if (!mc_case("%s :: %s gp=%llu flags=%#lx", src, hwloc_obj_type_string(o->type), (unsigned long long)o->gp_index, fl)) continue;
    char *ty = NULL, *at = NULL;
    if (MC_TRY(10000)) {
      ty = contract(print_type, "type_snprintf", o, fl);
      at = contract(print_attr, "attr_snprintf", o, fl);
      if (ty && !(fl & HWLOC_OBJ_SNPRINTF_FLAG_SHORT_NAMES)) check_parse_back(o, ty, "type_snprintf");
      mc_try_end();
    }
    mc_report_faults("snprintf");
    if (ty && strset_add(&texts_seen, ty, strlen(ty))) { if (ntexts == captexts) { captexts = captexts ? captexts * 2 : 256; texts = realloc(texts, captexts * sizeof(char *)); } texts[ntexts++] = ty; } else free(ty);
    free(at);
  }
  if (mc_case("%s :: %s gp=%llu type_string", src, hwloc_obj_type_string(o->type), (unsigned long long)o->gp_index)) check_parse_back(o, hwloc_obj_type_string(o->type), "type_string");
  MC.states++;
}

/* all objects of one level print the same type text (normal, NUMA, MemCache, Misc, PCI levels);
 * Bridge and OS-device levels: equal attributes => equal text */
static void level_texts(hwloc_topology_t t, const char *src)
{
  int depth = hwloc_topology_get_depth(t);
  static const int SPECIAL[] = { HWLOC_TYPE_DEPTH_NUMANODE, HWLOC_TYPE_DEPTH_MEMCACHE, HWLOC_TYPE_DEPTH_MISC, HWLOC_TYPE_DEPTH_PCI_DEVICE, HWLOC_TYPE_DEPTH_BRIDGE, HWLOC_TYPE_DEPTH_OS_DEVICE };
  for (int k = 0; k < depth + 6; k++) {
    int d = k < depth ? k : SPECIAL[k - depth];
    unsigned n = hwloc_get_nbobjs_by_depth(t, d);
    for (unsigned long fl = 0; fl < 8; fl += 2) {
      char first[128] = "";
      hwloc_obj_t fo = NULL;
      for (unsigned i = 0; i < n; i++) {
        hwloc_obj_t o = hwloc_get_obj_by_depth(t, d, i); char buf[128];
        hwloc_obj_type_snprintf(buf, sizeof(buf), o, fl);
        if (!fo) { fo = o; snprintf(first, sizeof(first), "%s", buf); continue; }
        int must = 1;
        if (d == HWLOC_TYPE_DEPTH_BRIDGE) must = o->attr->bridge.upstream_type == fo->attr->bridge.upstream_type;
        if (d == HWLOC_TYPE_DEPTH_OS_DEVICE) must = o->attr->osdev.types == fo->attr->osdev.types;
        if (must && strcmp(buf, first)) mc_violation("c11.level.same-text", "%s :: depth %d flags %#lx: \"%s\" vs \"%s\"", src, d, fl, first, buf);
        mc_count("level_text_comparisons", 1);
      }
    }
  }
}

static char *osdev_document(void)
{
  struct sb b; sb_init(&b);
  sb_puts(&b, "<?xml version=\"1.0\" encoding=\"UTF-8\"?>\n<!DOCTYPE topology SYSTEM \"hwloc2.dtd\">\n<topology version=\"3.0\">\n"
              " <object type=\"Machine\" os_index=\"0\" cpuset=\"0x1\" complete_cpuset=\"0x1\" allowed_cpuset=\"0x1\" nodeset=\"0x1\" complete_nodeset=\"0x1\" allowed_nodeset=\"0x1\" gp_index=\"1\">\n"
              "  <object type=\"NUMANode\" os_index=\"0\" cpuset=\"0x1\" complete_cpuset=\"0x1\" nodeset=\"0x1\" complete_nodeset=\"0x1\" gp_index=\"2\" local_memory=\"1073741824\"/>\n"
              "  <object type=\"PU\" os_index=\"0\" cpuset=\"0x1\" complete_cpuset=\"0x1\" nodeset=\"0x1\" complete_nodeset=\"0x1\" gp_index=\"3\"/>\n"
              "  <object type=\"Bridge\" gp_index=\"4\" bridge_type=\"0-1\" depth=\"0\" bridge_pci=\"0000:[00-ff]\">\n"
              "   <object type=\"Bridge\" gp_index=\"5\" bridge_type=\"1-1\" depth=\"1\" bridge_pci=\"0000:[01-01]\" pci_busid=\"0000:00:01.0\" pci_type=\"0604 [8086:1234] [0000:0000] 01 00\" pci_link_speed=\"0.000000\">\n"
              "    <object type=\"PCIDev\" gp_index=\"6\" pci_busid=\"0000:01:00.0\" pci_type=\"0200 [15b3:1003] [15b3:0001] 00 00\" pci_link_speed=\"7.876923\">\n");
  unsigned gp = 10;
  for (unsigned w = 0; w < 128; w++) sb_printf(&b, "     <object type=\"OSDev\" gp_index=\"%u\" name=\"dev%u\" osdev_type=\"%u\"/>\n", gp++, w, w);
  static const unsigned long UNKNOWN[] = { 128, 256, 129, 0x100 | 5, 0xffffffffUL, 1UL << 40 };
  for (unsigned i = 0; i < 6; i++) sb_printf(&b, "     <object type=\"OSDev\" gp_index=\"%u\" name=\"unk%u\" osdev_type=\"%lu\"/>\n", gp++, i, UNKNOWN[i]);
  sb_puts(&b, "    </object>\n   </object>\n  </object>\n </object>\n</topology>\n");
  return sb_steal(&b);
}

int main(int argc, char **argv)
{
  mc_init(argc, argv, "C11");
  strset_init(&texts_seen);
  uint64_t idx = 0;
  /* objects */
  int nf = univ_fix_count();
  char *od = osdev_document();
  for (int i = 0; i <= nf; i++) {
    struct usrc s; const char *name;
    if (i < nf) { s = *univ_fix(i); name = s.name; } else { s.kind = USRC_XMLBUF; s.text = od; s.len = (int)strlen(od) + 1; s.name = (char *)"osdev-document"; name = s.name; }
    struct ucfg c; ucfg_keepall(&c);
    hwloc_topology_t t = NULL;
    if (MC_TRY(30000)) { univ_load(&t, &s, &c); mc_try_end(); }
    if (mc_report_faults("load") || !t) { if (i == nf) mc_violation("c11.engine.osdev-document", "the generated OS-device document does not load"); continue; }
    hwloc_obj_t *objs; unsigned n = canon_walk(t, &objs);
    for (unsigned k = 0; k < n; k++, idx++) { if (!mc_mine(idx) || mc_deadline()) continue; one_object(t, objs[k], name); }
    if (mc_mine(idx++)) level_texts(t, name);
    free(objs);
    hwloc_topology_destroy(t);
  }
  /* synthetic topologies with cache depths 1..5 and several Group depths */
  static const char *SYN[] = { "group:2 group:2 group:2 pu:1", "l3:1 l2:2 l1d:1 l1i:1 core:1 pu:2", "pack:2 die:2 l3i:1 l2i:1 core:1 pu:1", "numa:2 l2:2 pu:2" };
  for (unsigned i = 0; i < 4; i++) {
    struct usrc s = { USRC_SYNTHETIC, (char *)SYN[i], 0, (char *)SYN[i] }; struct ucfg c; ucfg_keepall(&c);
    hwloc_topology_t t = NULL; if (univ_load(&t, &s, &c) < 0) continue;
    hwloc_obj_t *objs; unsigned n = canon_walk(t, &objs);
    for (unsigned k = 0; k < n; k++, idx++) { if (!mc_mine(idx) || mc_deadline()) continue; one_object(t, objs[k], SYN[i]); }
    if (mc_mine(idx++)) level_texts(t, SYN[i]);
    free(objs); hwloc_topology_destroy(t);
  }
  /* Groups inserted by the user into existing levels: every state one or two Group insertions away from the small roots with
   * Group levels (Group depth attributes are renumbered by the insertion; all objects of one level must still print the
   * same text and that text must parse back to the level - seeded change C11-group-depth-skip) */
  {
    struct opscope sc; memset(&sc, 0, sizeof(sc)); sc.classes = OPC_GROUP; sc.lean = 1;
    int nroots = univ_small_count();
    for (int r = 0; r < nroots; r++) {
      struct hist h0; memset(&h0, 0, sizeof(h0)); h0.root = r; h0.cfg = 1;
      hwloc_topology_t t0 = hist_build(&h0); if (!t0) continue;
      struct op *ops; int nops = ops_enumerate(t0, &sc, &ops);
      hwloc_topology_destroy(t0);
      struct strset seen; strset_init(&seen);
      { hwloc_topology_t tr = hist_build(&h0); if (tr) { char *kr = canon_str(tr, CANON_STRUCT); strset_add(&seen, kr, strlen(kr)); free(kr); hwloc_topology_destroy(tr); } }   /* a refused or merged insertion leaves the root: not a new state */
      static int fresh1[4096]; int nfresh1 = 0;
      static struct sb hb; if (!hb.s) sb_init(&hb);
      for (int i = 0; i < nops && !mc_deadline(); i++) {
        struct hist h1 = h0; h1.ops[h1.n++] = ops[i];
        hwloc_topology_t t1 = NULL;
        if (MC_TRY(30000)) { t1 = hist_build(&h1); mc_try_end(); }
        if (mc_fault[0] || !t1) { mc_fault[0] = 0; mc_clear_san(); continue; }
        char *key = canon_str(t1, CANON_STRUCT); int fresh = strset_add(&seen, key, strlen(key)); free(key);
        if (fresh) {
          if (nfresh1 < 4096) fresh1[nfresh1++] = i;
          if (mc_mine(idx++)) {
            sb_reset(&hb); hist_print(&hb, &h1);
            level_texts(t1, hb.s);
            for (hwloc_obj_t g = hwloc_get_next_obj_by_type(t1, HWLOC_OBJ_GROUP, NULL); g; g = hwloc_get_next_obj_by_type(t1, HWLOC_OBJ_GROUP, g)) one_object(t1, g, hb.s);
            mc_count("group_states_depth1", 1);
          }
        }
        hwloc_topology_destroy(t1);
      }
      /* a second insertion on top of every distinct depth-1 state */
      for (int f = 0; f < nfresh1 && !mc_deadline(); f++, idx++) {
        if (!mc_mine(idx)) continue;
        struct hist h1 = h0; h1.ops[h1.n++] = ops[fresh1[f]];
        hwloc_topology_t t1 = NULL;
        if (MC_TRY(30000)) { t1 = hist_build(&h1); mc_try_end(); }
        if (mc_fault[0] || !t1) { mc_fault[0] = 0; mc_clear_san(); continue; }
        struct op *ops2; int nops2 = ops_enumerate(t1, &sc, &ops2);
        hwloc_topology_destroy(t1);
        struct strset seen2; strset_init(&seen2);
        for (int j = 0; j < nops2 && !mc_deadline(); j++) {
          struct hist h2 = h1; h2.ops[h2.n++] = ops2[j];
          hwloc_topology_t t2 = NULL;
          if (MC_TRY(30000)) { t2 = hist_build(&h2); mc_try_end(); }
          if (mc_fault[0] || !t2) { mc_fault[0] = 0; mc_clear_san(); continue; }
          char *k2 = canon_str(t2, CANON_STRUCT); int fresh2 = !strset_has(&seen, k2, strlen(k2)) && strset_add(&seen2, k2, strlen(k2)); free(k2);
          if (fresh2) { sb_reset(&hb); hist_print(&hb, &h2); level_texts(t2, hb.s); mc_count("group_states_depth2", 1); }
          hwloc_topology_destroy(t2);
        }
        free(ops2); strset_free(&seen2);
      }
      free(ops); strset_free(&seen);
    }
  }
  /* hwloc_type_sscanf on arbitrary strings */
  {
    hwloc_obj_type_t ty; union hwloc_obj_attr_u attr;
    /* every prefix and case variant of every type name and of every printed text of this worker */
    for (int t = HWLOC_OBJ_TYPE_MIN; t < HWLOC_OBJ_TYPE_MAX; t++) {
      const char *nm = hwloc_obj_type_string((hwloc_obj_type_t)t); size_t l = strlen(nm);
      for (size_t p = 0; p <= l; p++) for (int cs = 0; cs < 3; cs++, idx++) {
        if (!mc_mine(idx)) continue;
        char *copy = malloc(p + 1); memcpy(copy, nm, p); copy[p] = 0;
        for (size_t q = 0; q < p; q++) copy[q] = cs == 0 ? copy[q] : cs == 1 ? (char)tolower((unsigned char)copy[q]) : (char)toupper((unsigned char)copy[q]);
        int rc = -9;
        if (mc_case("type_sscanf(\"%s\")", copy)) { if (MC_TRY(5000)) { rc = hwloc_type_sscanf(copy, &ty, &attr, sizeof(attr)); mc_try_end(); } mc_report_faults("type_sscanf");
          MC.transitions++;
          if (rc == 0 && (unsigned)ty >= HWLOC_OBJ_TYPE_MAX) mc_violation("c11.sscanf.range", "%s :: returned type %d", mc_case_text(), (int)ty);
          if (p == l && (rc != 0 || ty != (hwloc_obj_type_t)t)) mc_violation("c11.sscanf.type_string", "%s :: full type name parses as rc=%d type=%d", mc_case_text(), rc, (int)ty); }
        free(copy);
      }
    }
    static const char ALPHA[] = { 'l', '1', '2', 'i', 'd', 'u', 'c', 'a', 'o', 's', '[', ',', ']', '-' };
    int L = MC.thorough ? 5 : 4;
    for (int len = 0; len <= L; len++) {
      uint64_t total = 1; for (int i = 0; i < len; i++) total *= 14;
      for (uint64_t k = 0; k < total; k++, idx++) {
        if (!mc_mine(idx)) continue;
        char *s = malloc((size_t)len + 1); uint64_t q = k; for (int i = 0; i < len; i++) { s[i] = ALPHA[q % 14]; q /= 14; } s[len] = 0;
        int rc = -9;
        if (mc_case("type_sscanf(\"%s\")", s)) { if (MC_TRY(5000)) { rc = hwloc_type_sscanf(s, &ty, &attr, sizeof(attr)); mc_try_end(); } mc_report_faults("type_sscanf"); MC.transitions++;
          if (rc != 0 && rc != -1) mc_violation("c11.sscanf.rc", "%s :: returned %d", mc_case_text(), rc);
          if (rc == 0 && (unsigned)ty >= HWLOC_OBJ_TYPE_MAX) mc_violation("c11.sscanf.range", "%s :: returned type %d", mc_case_text(), (int)ty);
          /* small attribute structure: must not be overrun (attrsize honoured) */
          char *small = malloc(1); if (MC_TRY(5000)) { hwloc_type_sscanf(s, &ty, (union hwloc_obj_attr_u *)small, 1); hwloc_type_sscanf(s, &ty, NULL, 0); mc_try_end(); } mc_report_faults("type_sscanf-small-attr"); free(small); }
        free(s);
      }
    }
    /* mutations of printed texts: single-character deletions */
    for (size_t i = 0; i < ntexts; i++) { size_t l = strlen(texts[i]); for (size_t p = 0; p < l; p++) { char *m = malloc(l); memcpy(m, texts[i], p); memcpy(m + p, texts[i] + p + 1, l - p);
        if (mc_case("type_sscanf(\"%s\")", m)) { if (MC_TRY(5000)) { hwloc_type_sscanf(m, &ty, &attr, sizeof(attr)); mc_try_end(); } mc_report_faults("type_sscanf"); MC.transitions++; } free(m); } }
  }
  /* hwloc_compare_types and the kind predicates */
  if (MC.part == 0) {
    for (int a = HWLOC_OBJ_TYPE_MIN; a < HWLOC_OBJ_TYPE_MAX; a++) {
      hwloc_obj_type_t A = (hwloc_obj_type_t)a;
      int kinds = !!hwloc_obj_type_is_normal(A) + !!hwloc_obj_type_is_memory(A) + !!hwloc_obj_type_is_io(A) + (A == HWLOC_OBJ_MISC);
      if (kinds != 1) mc_violation("c11.kinds", "%s: %d kind predicates are true", hwloc_obj_type_string(A), kinds);
      if (hwloc_obj_type_is_cache(A) != (a >= HWLOC_OBJ_L1CACHE && a <= HWLOC_OBJ_L3ICACHE)) mc_violation("c11.kinds.cache", "%s: is_cache wrong", hwloc_obj_type_string(A));
      if (hwloc_obj_type_is_icache(A) != (a >= HWLOC_OBJ_L1ICACHE && a <= HWLOC_OBJ_L3ICACHE)) mc_violation("c11.kinds.icache", "%s: is_icache wrong", hwloc_obj_type_string(A));
      if (hwloc_obj_type_is_dcache(A) != (a >= HWLOC_OBJ_L1CACHE && a <= HWLOC_OBJ_L5CACHE)) mc_violation("c11.kinds.dcache", "%s: is_dcache wrong", hwloc_obj_type_string(A));
      for (int b = HWLOC_OBJ_TYPE_MIN; b < HWLOC_OBJ_TYPE_MAX; b++) {
        hwloc_obj_type_t B = (hwloc_obj_type_t)b;
        int ab = hwloc_compare_types(A, B), ba = hwloc_compare_types(B, A);
        MC.transitions++;
        if (ab == HWLOC_TYPE_UNORDERED || ba == HWLOC_TYPE_UNORDERED) { if (ab != ba) mc_violation("c11.compare.antisymmetry", "compare(%s,%s)=%d but compare(%s,%s)=%d", hwloc_obj_type_string(A), hwloc_obj_type_string(B), ab, hwloc_obj_type_string(B), hwloc_obj_type_string(A), ba); }
        else if ((ab > 0) != (ba < 0) || (ab == 0) != (ba == 0)) mc_violation("c11.compare.antisymmetry", "compare(%s,%s)=%d but compare(%s,%s)=%d", hwloc_obj_type_string(A), hwloc_obj_type_string(B), ab, hwloc_obj_type_string(B), hwloc_obj_type_string(A), ba);
        if ((a == b) != (ab == 0) && ab != HWLOC_TYPE_UNORDERED) mc_violation("c11.compare.zero", "compare(%s,%s)=%d", hwloc_obj_type_string(A), hwloc_obj_type_string(B), ab);
        if (hwloc_obj_type_is_normal(A) && hwloc_obj_type_is_normal(B)) {
          if (ab == HWLOC_TYPE_UNORDERED) mc_violation("c11.compare.normal-unordered", "compare(%s,%s) unordered", hwloc_obj_type_string(A), hwloc_obj_type_string(B));
          if (A == HWLOC_OBJ_MACHINE && a != b && !(ab < 0)) mc_violation("c11.compare.machine-highest", "compare(Machine,%s)=%d", hwloc_obj_type_string(B), ab);
          if (A == HWLOC_OBJ_PU && a != b && !(ab > 0)) mc_violation("c11.compare.pu-deepest", "compare(PU,%s)=%d", hwloc_obj_type_string(B), ab);
        }
      }
    }
    MC.states += HWLOC_OBJ_TYPE_MAX;
  }
  if (ntexts) { mc_sample("printed type text \"%s\"", texts[0]); mc_sample("printed type text \"%s\"", texts[ntexts / 2]); mc_sample("printed type text \"%s\"", texts[ntexts - 1]); }
  mc_count_max("distinct_type_texts", ntexts);
  return mc_finish(1);
}
