/* C07 - synthetic descriptions: safe parsing, faithful build, export/import round trip.
 *
 * Stages (--stage):
 *   gen     every generated description of the synthetic universe: accept/reject contract,
 *           faithful build against what the generator wrote, export round trip for all 16
 *           export flag words, snprintf contract of the export at every buffer length.
 *   bound   the level-count boundary family (117..131 levels x 5 shapes).
 *   tokens  every string of <= 4 tokens over the token alphabet, every single-character
 *           deletion of a set of base descriptions (exact-size heap copies).
 */
#include "hwmc.h"
#include <ctype.h>
#include "univ.h"
#include "canon.h"
#include "wf.h"
#include <inttypes.h>

static int load_syn(hwloc_topology_t *tp, const char *desc, int keepall, int *errp)
{
  hwloc_topology_t t; int rc;
  *tp = NULL;
  if (hwloc_topology_init(&t) < 0) return -3;
  if (keepall) hwloc_topology_set_all_types_filter(t, HWLOC_TYPE_FILTER_KEEP_ALL);
  size_t l = strlen(desc); char *copy = malloc(l + 1); memcpy(copy, desc, l + 1);   /* exact size: ASan sees over-reads */
  errno = 0;
  rc = hwloc_topology_set_synthetic(t, copy); *errp = errno;
  free(copy);
  if (rc < 0) { hwloc_topology_destroy(t); return -1; }
  if (hwloc_topology_load(t) < 0) { *errp = errno; hwloc_topology_destroy(t); return -2; }
  *tp = t;
  return 0;
}

static unsigned count_type(hwloc_topology_t t, hwloc_obj_type_t ty)
{
  hwloc_obj_t *objs; unsigned n = canon_walk(t, &objs), c = 0;
  for (unsigned i = 0; i < n; i++) if (objs[i]->type == ty) c++;
  free(objs);
  return c;
}

/* structural signature used by the round-trip oracle */
static void signature(hwloc_topology_t t, struct sb *b, int with_types, int with_indexes, int with_sizes, int with_memory)
{
  int depth = hwloc_topology_get_depth(t);
  sb_reset(b);
  for (int d = 0; d < depth; d++) {
    hwloc_obj_t o = hwloc_get_obj_by_depth(t, d, 0);
    sb_printf(b, "L%d:", d);
    if (with_types) sb_printf(b, "%s", hwloc_obj_type_string(o->type));
    sb_printf(b, "x%u", hwloc_get_nbobjs_by_depth(t, d));
    if (with_sizes && o->type >= HWLOC_OBJ_L1CACHE && o->type <= HWLOC_OBJ_L3ICACHE) sb_printf(b, "(size=%" PRIu64 ")", o->attr->cache.size);
    sb_putc(b, ' ');
  }
  if (with_indexes) {
    sb_puts(b, "PU:");
    for (hwloc_obj_t p = hwloc_get_obj_by_type(t, HWLOC_OBJ_PU, 0); p; p = p->next_cousin) sb_printf(b, "%u,", p->os_index);
  }
  if (with_memory) {
    sb_puts(b, " NUMA:");
    for (hwloc_obj_t n = hwloc_get_obj_by_type(t, HWLOC_OBJ_NUMANODE, 0); n; n = n->next_cousin) {
      hwloc_obj_t p = n->parent; while (p && hwloc_obj_type_is_memory(p->type)) p = p->parent;
      sb_printf(b, "@%d", p ? p->depth : -1);
      if (with_indexes) sb_printf(b, "#%u", n->os_index);
      if (with_sizes) sb_printf(b, "(mem=%" PRIu64 ")", n->attr->numanode.local_memory);
      /* memory-side caches in front of the node, innermost first */
      if (with_sizes) for (hwloc_obj_t mc = n->parent; mc && mc->type == HWLOC_OBJ_MEMCACHE; mc = mc->parent) sb_printf(b, "(msc=%" PRIu64 ")", mc->attr->cache.size);
      sb_putc(b, ',');
    }
  } else sb_printf(b, " NUMAcount-ignored");
}

static void export_roundtrip(hwloc_topology_t t, const char *desc, int contract_all_lengths)
{
  static struct sb s1, s2; if (!s1.s) { sb_init(&s1); sb_init(&s2); }
  char buf[4096], buf2[4096];
  for (unsigned long fl = 0; fl < 16; fl++) {
    errno = 0;
    int n = hwloc_topology_export_synthetic(t, buf, sizeof(buf), fl), e = errno;
    MC.transitions++;
    if (n < 0) {
      mc_outcome("export_failures", "flags=%#lx errno=%d", fl, e);
      if (e != EINVAL) mc_violation("c07.export.errno", "%s :: export flags %#lx failed with errno %d", desc, fl, e);
      /* a topology born from a synthetic description is symmetric with symmetric memory: the plain export must succeed */
      if (fl == 0 || fl == HWLOC_TOPOLOGY_EXPORT_SYNTHETIC_FLAG_NO_ATTRS || fl == HWLOC_TOPOLOGY_EXPORT_SYNTHETIC_FLAG_IGNORE_MEMORY)
        mc_violation("c07.export.fails", "%s :: export flags %#lx fails on a symmetric topology", desc, fl);
      continue;
    }
    if ((size_t)n != strlen(buf)) mc_violation("c07.export.length", "%s :: export flags %#lx returned %d, strlen %zu", desc, fl, n, strlen(buf));
    /* snprintf contract at every length */
    if (contract_all_lengths || fl == 0) {
      int r0 = hwloc_topology_export_synthetic(t, NULL, 0, fl);
      if (r0 != n) mc_violation("c07.export.snprintf.null", "%s :: export(NULL,0) flags %#lx = %d, needed %d", desc, fl, r0, n);
      int step = contract_all_lengths ? 1 : 7;
      for (int len = 1; len <= n + 2; len += step) {
        char *hb = malloc((size_t)len); memset(hb, 0x5a, (size_t)len);
        int r = hwloc_topology_export_synthetic(t, hb, (size_t)len, fl);
        MC.transitions++;
        if (r != n) mc_violation("c07.export.snprintf.return", "%s :: export flags %#lx buflen %d returned %d, needed %d", desc, fl, len, r, n);
        size_t sl = strnlen(hb, (size_t)len);
        if (sl == (size_t)len) mc_violation("c07.export.snprintf.nul", "%s :: export flags %#lx buflen %d not NUL-terminated", desc, fl, len);
        else if (strncmp(hb, buf, sl)) mc_violation("c07.export.snprintf.prefix", "%s :: export flags %#lx buflen %d: \"%s\" is not a prefix of \"%s\"", desc, fl, len, hb, buf);
        else if (len > n && sl != (size_t)n) mc_violation("c07.export.snprintf.truncated", "%s :: export flags %#lx buflen %d truncates", desc, fl, len);
        free(hb);
      }
    }
    /* reload */
    hwloc_topology_t t2; int e2;
    int rc = load_syn(&t2, buf, 1, &e2);
    const char *sfx = (fl & (HWLOC_TOPOLOGY_EXPORT_SYNTHETIC_FLAG_NO_EXTENDED_TYPES | HWLOC_TOPOLOGY_EXPORT_SYNTHETIC_FLAG_V1)) ? ".compat" : (fl & HWLOC_TOPOLOGY_EXPORT_SYNTHETIC_FLAG_IGNORE_MEMORY) ? ".nomem" : "";
    char key[96];
    if (rc < 0) { snprintf(key, sizeof(key), "c07.export.reload%s", sfx); mc_violation(key, "%s :: export flags %#lx gives \"%s\" which does not load (rc %d errno %d)", desc, fl, buf, rc, e2); continue; }
    int attrs = !(fl & HWLOC_TOPOLOGY_EXPORT_SYNTHETIC_FLAG_NO_ATTRS);
    int mem = !(fl & (HWLOC_TOPOLOGY_EXPORT_SYNTHETIC_FLAG_V1 | HWLOC_TOPOLOGY_EXPORT_SYNTHETIC_FLAG_IGNORE_MEMORY));
    int types = !(fl & (HWLOC_TOPOLOGY_EXPORT_SYNTHETIC_FLAG_NO_EXTENDED_TYPES | HWLOC_TOPOLOGY_EXPORT_SYNTHETIC_FLAG_V1));
    if (mem) {
      /* normal-level structure, indexes, sizes, memory attachment */
      signature(t, &s1, types, attrs, attrs, 1); signature(t2, &s2, types, attrs, attrs, 1);
      snprintf(key, sizeof(key), "c07.roundtrip.structure%s", sfx);
      if (strcmp(s1.s, s2.s)) mc_violation(key, "%s :: export flags %#lx \"%s\": original %s, reloaded %s", desc, fl, buf, s1.s, s2.s);
    } else {
      /* memory is not exported as attached (V1 turns NUMA nodes into levels, IGNORE_MEMORY drops them): PU count and indexes only */
      unsigned p1 = hwloc_get_nbobjs_by_type(t, HWLOC_OBJ_PU), p2 = hwloc_get_nbobjs_by_type(t2, HWLOC_OBJ_PU);
      if (p1 != p2) mc_violation("c07.roundtrip.pus", "%s :: export flags %#lx \"%s\": %u PUs, reloaded %u", desc, fl, buf, p1, p2);
      if (attrs) for (hwloc_obj_t a = hwloc_get_obj_by_type(t, HWLOC_OBJ_PU, 0), b = hwloc_get_obj_by_type(t2, HWLOC_OBJ_PU, 0); a && b; a = a->next_cousin, b = b->next_cousin)
        if (a->os_index != b->os_index) { mc_violation("c07.roundtrip.indexes", "%s :: export flags %#lx \"%s\": PU L#%u is P#%u, reloaded P#%u", desc, fl, buf, a->logical_index, a->os_index, b->os_index); break; }
    }
    /* exporting the reloaded topology again gives the same string */
    int n2 = hwloc_topology_export_synthetic(t2, buf2, sizeof(buf2), fl);
    snprintf(key, sizeof(key), "c07.roundtrip.fixpoint%s", sfx);
    if (n2 < 0 || strcmp(buf, buf2)) mc_violation(key, "%s :: export flags %#lx: \"%s\" re-exports as \"%s\"", desc, fl, buf, n2 < 0 ? "(failure)" : buf2);
    hwloc_topology_destroy(t2);
    mc_count("export_roundtrips", 1);
  }
}

/* expected counts written by the generator */
static void faithful(hwloc_topology_t t, const struct syn_desc *d)
{
  uint64_t width = 1, typed_width[HWLOC_OBJ_TYPE_MAX]; int typed_n[HWLOC_OBJ_TYPE_MAX];
  uint64_t numa_expected = 0; int numa_level = 0;
  memset(typed_width, 0, sizeof(typed_width)); memset(typed_n, 0, sizeof(typed_n));
  for (int i = 0; i < d->nlevels; i++) {
    width *= d->lv[i].arity;
    int ty = d->lv[i].type; if (i == d->nlevels - 1) ty = HWLOC_OBJ_PU;
    if (ty >= 0) { typed_width[ty] += width; typed_n[ty]++; }
    if (ty == HWLOC_OBJ_NUMANODE) numa_level = 1;
    numa_expected += (uint64_t)d->lv[i].attached_numa * width;
  }
  if (numa_level) numa_expected = typed_width[HWLOC_OBJ_NUMANODE];
  if (!numa_expected) numa_expected = 1;   /* documented: a NUMA level with a single node is added */
  unsigned pus = count_type(t, HWLOC_OBJ_PU);
  if (pus != width) mc_violation("c07.faithful.pus", "%s :: %u PUs, the description multiplies to %" PRIu64, d->text, pus, width);
  unsigned numas = count_type(t, HWLOC_OBJ_NUMANODE);
  int untyped_mid = 0; for (int i = 0; i < d->nlevels - 1; i++) if (d->lv[i].type < 0) untyped_mid = 1;
  /* untyped intermediate levels receive default types (NUMA first): the count is only determined otherwise */
  if ((!untyped_mid || numa_expected > 1) && typed_n[HWLOC_OBJ_NUMANODE] <= 1 && numas != numa_expected) mc_violation("c07.faithful.numa", "%s :: %u NUMA nodes, the description gives %" PRIu64, d->text, numas, numa_expected);
  /* typed CPU-side levels (loaded with every type kept; Groups stay subject to merging) */
  int all_typed = 1; for (int i = 0; i < d->nlevels - 1; i++) if (d->lv[i].type < 0) all_typed = 0;
  if (all_typed) for (int ty = 0; ty < HWLOC_OBJ_TYPE_MAX; ty++) {
    if (typed_n[ty] != 1 || ty == HWLOC_OBJ_GROUP || ty == HWLOC_OBJ_NUMANODE || ty == HWLOC_OBJ_PU) continue;   /* a type written twice: identical levels merge */
    /* Die levels identical to their Package level are merged by design */
    if (ty == HWLOC_OBJ_DIE) continue;
    unsigned c = count_type(t, (hwloc_obj_type_t)ty);
    if (c != typed_width[ty]) mc_violation("c07.faithful.level", "%s :: %u objects of type %s, the description gives %" PRIu64, d->text, c, hwloc_obj_type_string((hwloc_obj_type_t)ty), typed_width[ty]);
  }
  /* sizes */
  for (int i = 0; i < d->nlevels; i++) {
    const struct syn_level *l = &d->lv[i];
    if (l->size && l->type >= HWLOC_OBJ_L1CACHE && l->type <= HWLOC_OBJ_L3ICACHE && typed_n[l->type] == 1) {
      for (hwloc_obj_t o = hwloc_get_obj_by_type(t, (hwloc_obj_type_t)l->type, 0); o; o = o->next_cousin)
        if (o->attr->cache.size != l->size) { mc_violation("c07.faithful.size", "%s :: %s has size %" PRIu64 ", written %llu", d->text, hwloc_obj_type_string(o->type), o->attr->cache.size, l->size); break; }
    }
    if (l->memory && (l->type == HWLOC_OBJ_NUMANODE || l->attached_numa)) {
      int other = 0; for (int j = 0; j < d->nlevels; j++) if (j != i && (d->lv[j].attached_numa || d->lv[j].type == HWLOC_OBJ_NUMANODE)) other = 1;
      if (!other) for (hwloc_obj_t o = hwloc_get_obj_by_type(t, HWLOC_OBJ_NUMANODE, 0); o; o = o->next_cousin)
        if (o->attr->numanode.local_memory != l->memory) { mc_violation("c07.faithful.memory", "%s :: NUMA node has %" PRIu64 " bytes, written %llu", d->text, o->attr->numanode.local_memory, l->memory); break; }
    }
    /* explicit index lists on the PU level */
    if (l->indexes && i == d->nlevels - 1 && strchr(l->indexes, ',') && !strchr(l->indexes, ':') && !strchr(l->indexes, '*')) {
      unsigned long want[64]; int nw = 0; const char *p = l->indexes;
      while (*p && nw < 64) { want[nw++] = strtoul(p, (char **)&p, 10); if (*p == ',') p++; }
      if ((uint64_t)nw == width) {
        /* a list that is not a permutation is documented to be ignored: only check permutations */
        int perm = 1; for (int a = 0; a < nw; a++) { if (want[a] >= (unsigned long)nw) perm = 0; for (int b2 = 0; b2 < a; b2++) if (want[a] == want[b2]) perm = 0; }
        /* children are kept sorted by cpuset, so logical order is not description order: what the description
         * determines is which PUs share a parent (consecutive groups of <arity> entries of the list) */
        if (perm) {
          unsigned a = l->arity; uint64_t want_sets[64], got_sets[64]; int nws = 0, ngs = 0;
          for (int k = 0; k + (int)a <= nw; k += (int)a) { uint64_t m = 0; for (unsigned j = 0; j < a; j++) m |= 1ULL << want[k + (int)j]; want_sets[nws++] = m; }
          hwloc_obj_t prevp = NULL;
          for (hwloc_obj_t o = hwloc_get_obj_by_type(t, HWLOC_OBJ_PU, 0); o; o = o->next_cousin) {
            if (o->parent != prevp) { if (ngs < 64) got_sets[ngs++] = 0; prevp = o->parent; }
            got_sets[ngs - 1] |= 1ULL << o->os_index;
          }
          /* PU parents may hold several description groups when a level was merged: every written group must lie inside one parent */
          for (int x = 0; x < nws; x++) { int ok = 0; for (int y = 0; y < ngs; y++) if ((want_sets[x] & got_sets[y]) == want_sets[x]) ok = 1;
            if (!ok) { mc_violation("c07.faithful.indexes", "%s :: PUs %#" PRIx64 " written as siblings do not share a parent", d->text, want_sets[x]); break; } }
        }
      }
    } else if (l->indexes && i == d->nlevels - 1 && (strchr(l->indexes, ':') || strchr(l->indexes, '*') || isalpha((unsigned char)l->indexes[0])) && !strchr(l->indexes, ',') && width <= 64) {
      /* interleaved indexes.  "t1:t2:..." = consecutive OS indexes go to successive t1 objects (inside the closest listed
       * level above t1, the machine if none), then to successive t2 objects, ..., finally to what is left below the deepest
       * listed level; "s*n:..." gives the loops directly (position / s modulo n).  E[j] is the OS index of the j-th PU in
       * description order; what the topology must show is, for every level, which OS indexes share an object. */
      unsigned total = (unsigned)width, E[64] = {0}, step[9], nb[9]; int nloops = 0, valid = 1;
      uint64_t w_at[SYN_MAXLEVELS]; { uint64_t w = 1; for (int k = 0; k < d->nlevels; k++) { w *= d->lv[k].arity; w_at[k] = w; } }
      if (isdigit((unsigned char)l->indexes[0])) {
        const char *p = l->indexes;
        while (*p && nloops < 8) { char *e; unsigned s = (unsigned)strtoul(p, &e, 10); if (e == p || *e != '*') { valid = 0; break; } p = e + 1; unsigned n = (unsigned)strtoul(p, &e, 10); if (e == p || !s || !n) { valid = 0; break; } step[nloops] = s; nb[nloops] = n; nloops++; p = e; if (*p == ':') p++; else if (*p) { valid = 0; break; } }
      } else {
        int lev[8]; const char *p = l->indexes;
        while (*p && nloops < 8) {
          size_t n = strcspn(p, ":"); int found = -1;
          /* the level that carries the attribute cannot be named (the loader looks among the levels that have children): such a spec is ignored */
          for (int k = 0; k < d->nlevels - 1; k++) { const char *tn = d->lv[k].type == HWLOC_OBJ_PACKAGE ? "package" : d->lv[k].type == HWLOC_OBJ_NUMANODE ? "numa" : d->lv[k].type == HWLOC_OBJ_CORE ? "core" : d->lv[k].type == HWLOC_OBJ_PU ? "pu" : NULL; if (tn && strlen(tn) == n && !strncmp(tn, p, n) && typed_n[d->lv[k].type] == 1) found = k; }
          if (found < 0) { valid = 0; break; }
          for (int q = 0; q < nloops; q++) if (lev[q] == found) valid = 0;
          lev[nloops++] = found; p += n; if (*p == ':') p++;
        }
        for (int q = 0; valid && q < nloops; q++) { int prev = -1; for (int r = 0; r < nloops; r++) if (lev[r] < lev[q] && lev[r] > prev) prev = lev[r]; step[q] = (unsigned)(total / w_at[lev[q]]); nb[q] = (unsigned)(w_at[lev[q]] / (prev >= 0 ? w_at[prev] : 1)); }
      }
      if (valid) {
        unsigned long nbs = 1; unsigned minstep = total; for (int q = 0; q < nloops; q++) { nbs *= nb[q]; if (step[q] < minstep) minstep = step[q]; }
        if (nbs != total) { if (nbs && total % nbs == 0 && minstep == total / nbs) { step[nloops] = 1; nb[nloops] = (unsigned)(total / nbs); nloops++; } else valid = 0; }
      }
      if (valid) {
        unsigned mul = 1; for (int q = 0; q < nloops; q++) { for (unsigned j = 0; j < total; j++) E[j] += ((j / step[q]) % nb[q]) * mul; mul *= nb[q]; }
        uint64_t seen = 0; for (unsigned j = 0; j < total; j++) { if (E[j] >= total || (seen >> E[j]) & 1) valid = 0; else seen |= 1ULL << E[j]; }
      }
      if (valid) {
        mc_count("interleavings_checked_against_the_reference", 1);
        for (int k = 0; k < d->nlevels; k++) {
          int ty = d->lv[k].type; if (ty < 0 || typed_n[ty] != 1 || ty == HWLOC_OBJ_DIE || ty == HWLOC_OBJ_GROUP) continue;
          if (count_type(t, (hwloc_obj_type_t)ty) != w_at[k]) continue;
          uint64_t want[64], got[64]; unsigned nw = 0, ng = 0, per = (unsigned)(total / w_at[k]);
          for (unsigned b0 = 0; b0 < w_at[k] && nw < 64; b0++) { uint64_t m = 0; for (unsigned j = 0; j < per; j++) m |= 1ULL << E[b0 * per + j]; want[nw++] = m; }
          for (hwloc_obj_t o = hwloc_get_obj_by_type(t, (hwloc_obj_type_t)ty, 0); o && ng < 64; o = o->next_cousin) { uint64_t m = 0; int b1; hwloc_bitmap_foreach_begin(b1, o->cpuset) { if (b1 < 64) m |= 1ULL << b1; } hwloc_bitmap_foreach_end(); got[ng++] = m; }
          int same = nw == ng; for (unsigned x = 0; same && x < nw; x++) { int f = 0; for (unsigned y = 0; y < ng; y++) if (want[x] == got[y]) f = 1; if (!f) same = 0; }
          if (!same) { mc_violation("c07.faithful.interleaving", "%s :: the %s objects do not hold the OS indexes that the interleaving defines (first expected set %#" PRIx64 ", first found %#" PRIx64 ")", d->text, hwloc_obj_type_string((hwloc_obj_type_t)ty), want[0], ng ? got[0] : 0); break; }
        }
      }
    } else if (i == d->nlevels - 1 && !l->indexes) {
      unsigned k = 0; for (hwloc_obj_t o = hwloc_get_obj_by_type(t, HWLOC_OBJ_PU, 0); o; o = o->next_cousin, k++)
        if (o->os_index != k) { mc_violation("c07.faithful.indexes.default", "%s :: PU L#%u is P#%u without any indexes attribute", d->text, k, o->os_index); break; }
    }
  }
}

static void numa_set_text(hwloc_topology_t t, struct sb *b)
{
  unsigned n = (unsigned)hwloc_get_nbobjs_by_type(t, HWLOC_OBJ_NUMANODE);
  for (unsigned want = 0, done = 0; done < n && want < 4096; want++)
    for (hwloc_obj_t o = hwloc_get_next_obj_by_type(t, HWLOC_OBJ_NUMANODE, NULL); o; o = hwloc_get_next_obj_by_type(t, HWLOC_OBJ_NUMANODE, o))
      if (o->os_index == want) { sb_printf(b, "%u:%" PRIu64 ";", o->os_index, o->attr->numanode.local_memory); done++; }
}
static void gen_one(const struct syn_desc *d, uint64_t index, void *ctx)
{
  (void)ctx;
  if (!mc_mine(index) || mc_deadline()) return;
  if (!mc_case("synthetic \"%s\"", d->text)) return;
  hwloc_topology_t t = NULL; int e = 0, rc = -9;
  MC.transitions++;
  if (MC_TRY(30000)) { rc = load_syn(&t, d->text, 1, &e); mc_try_end(); }
  if (mc_report_faults("load")) return;
  if (rc == -1) { mc_count("rejected", 1); if (e != EINVAL) mc_violation("c07.reject.errno", "%s :: set_synthetic failed with errno %d", d->text, e); return; }
  if (rc == -2) { mc_count("load_failed", 1); mc_violation("c07.load.fails", "%s :: set_synthetic accepted the description but load failed (errno %d)", d->text, e); return; }
  if (rc != 0) return;
  mc_count("accepted", 1); MC.states++;
  if (MC_TRY(60000)) {
    wf_check_mc(t, "synthetic");
    faithful(t, d);
    /* full-length contract on the attribute-bearing families, coarse elsewhere */
    export_roundtrip(t, d->text, d->family >= 3);
    /* memory does not depend on the filters of the normal levels: the set of NUMA nodes (OS index, local memory; the order in the level depends on where the nodes end up) of
     * the load with every type kept must be those of the load with the default filters and of the loads that drop one
     * normal type of the description (attached nodes of a dropped level go to the closest kept ancestor; seeded change
     * C07-attached-under-filtered-level attached them only when the level itself was created) */
    if (d->family == 3 || d->family == 5) {
      struct sb ref; sb_init(&ref);
      numa_set_text(t, &ref);
      for (int v = -1; v < d->nlevels - 1; v++) {
        int ty = v < 0 ? -1 : d->lv[v].type;
        if (v >= 0 && (ty < 0 || ty == HWLOC_OBJ_NUMANODE || ty == HWLOC_OBJ_MACHINE || ty == HWLOC_OBJ_PU)) continue;
        hwloc_topology_t tf; if (hwloc_topology_init(&tf) < 0) continue;
        if (v >= 0) { hwloc_topology_set_all_types_filter(tf, HWLOC_TYPE_FILTER_KEEP_ALL); hwloc_topology_set_type_filter(tf, (hwloc_obj_type_t)ty, HWLOC_TYPE_FILTER_KEEP_NONE); }
        MC.transitions++;
        if (hwloc_topology_set_synthetic(tf, d->text) == 0 && hwloc_topology_load(tf) == 0) {
          struct sb got; sb_init(&got);
          numa_set_text(tf, &got);
          if (strcmp(ref.s ? ref.s : "", got.s ? got.s : "")) mc_violation("c07.faithful.memory.filters", "%s :: NUMA nodes (os_index:memory) with every type kept: %s; %s%s: %s", d->text, ref.s, v < 0 ? "with the default filters" : "without ", v < 0 ? "" : hwloc_obj_type_string((hwloc_obj_type_t)ty), got.s);
          wf_check_mc(tf, "synthetic-filtered");
          sb_free(&got);
          mc_count("filtered_loads_compared", 1);
        } else mc_violation("c07.load.fails", "%s :: accepted with every type kept, %s the load fails", d->text, v < 0 ? "with the default filters" : "with one type filtered out");
        hwloc_topology_destroy(tf);
      }
      sb_free(&ref);
    }
    mc_try_end();
  }
  mc_report_faults("oracle");
  if (MC_TRY(30000)) { hwloc_topology_destroy(t); mc_try_end(); }
  mc_report_faults("destroy");
  if (index % 1499 == 0) mc_sample("\"%s\"", d->text);
}

/* accept/reject + safety only */
static void safety_one(const char *desc, const char *what)
{
  struct sb e; sb_init(&e); sb_put_escaped(&e, desc);
  int go = mc_case("%s %s", what, e.s);
  sb_free(&e);
  if (!go) return;
  hwloc_topology_t t = NULL; int err = 0, rc = -9;
  MC.transitions++;
  if (MC_TRY(60000)) { rc = load_syn(&t, desc, 0, &err); mc_try_end(); }
  if (mc_report_faults(what)) return;
  if (rc == -1) { mc_count("rejected", 1); if (err != EINVAL) mc_violation("c07.reject.errno", "%s :: errno %d", mc_case_text(), err); }
  else if (rc == -2) mc_violation("c07.load.fails", "%s :: accepted by set_synthetic, load failed (errno %d)", mc_case_text(), err);
  else if (rc == 0) {
    mc_count("accepted", 1); MC.states++;
    if (MC_TRY(60000)) {
      wf_check_mc(t, what);
      char buf[8192]; int n = hwloc_topology_export_synthetic(t, buf, sizeof(buf), 0);
      if (n >= 0) { hwloc_topology_t t2; int e2; if (load_syn(&t2, buf, 0, &e2) < 0) mc_violation("c07.export.reload", "%s :: export \"%.200s\" does not load", mc_case_text(), buf); else hwloc_topology_destroy(t2); }
      mc_try_end();
    }
    mc_report_faults("oracle");
    if (MC_TRY(30000)) { hwloc_topology_destroy(t); mc_try_end(); }
    mc_report_faults("destroy");
  }
}

int main(int argc, char **argv)
{
  mc_init(argc, argv, "C07");
  const char *stage = mc_opt("stage"); if (!stage) stage = "gen";
  if (!strcmp(stage, "gen")) {
    uint64_t n = univ_syn_enumerate(MC.thorough, gen_one, NULL);
    mc_count_max("descriptions", n);
  } else if (!strcmp(stage, "bound")) {
    /* level-count boundary: d levels in 117..131 x shapes */
    uint64_t idx = 0;
    for (int d = 117; d <= 131; d++) for (int shape = 0; shape < 6; shape++, idx++) {
      if (!mc_mine(idx)) continue;
      struct sb b; sb_init(&b);
      for (int i = 0; i < d - 1; i++) {
        switch (shape) {
        case 0: sb_puts(&b, "1 "); break;                                   /* untyped */
        case 1: sb_puts(&b, "group:1 "); break;                             /* all Group, no NUMA */
        case 2: sb_puts(&b, i == 3 ? "numa:1 " : "group:1 "); break;        /* with a NUMA level */
        case 3: sb_puts(&b, i == 3 ? "group:1 [numa] " : "group:1 "); break; /* attached NUMA in the middle */
        case 4: sb_puts(&b, i == d - 2 ? "group:1 [numa] " : "group:1 "); break; /* attached NUMA at the last intermediate level */
        case 5: sb_puts(&b, i % 2 ? "group:2 " : "group:1 "); if (i > 5) { /* keep the PU count small */ b.len -= 8; b.s[b.len] = 0; sb_puts(&b, "group:1 "); } break;
        }
      }
      sb_puts(&b, "pu:1");
      char what[32]; snprintf(what, sizeof(what), "boundary(%d levels, shape %d)", d, shape);
      /* the string is long: the case text names it by shape and depth */
      if (mc_case("%s", what)) {
        hwloc_topology_t t = NULL; int err = 0, rc = -9;
        MC.transitions++;
        if (MC_TRY(60000)) { rc = load_syn(&t, b.s, 0, &err); mc_try_end(); }
        if (!mc_report_faults("boundary")) {
          mc_outcome("boundary_outcomes", "levels=%d shape=%d rc=%d errno=%d", d, shape, rc, rc ? err : 0);
          if (rc == -1 && err != EINVAL) mc_violation("c07.reject.errno", "%s :: errno %d", what, err);
          if (rc == -2) mc_violation("c07.load.fails", "%s :: load failed after set_synthetic accepted", what);
          if (rc == 0) {
            MC.states++;
            if (MC_TRY(60000)) { wf_check_mc(t, "boundary"); if (count_type(t, HWLOC_OBJ_PU) != (shape == 5 ? 8u : 1u) && shape != 5) mc_violation("c07.faithful.pus", "%s :: wrong PU count", what); hwloc_topology_destroy(t); mc_try_end(); }
            mc_report_faults("boundary-oracle");
          }
        }
      }
      sb_free(&b);
    }
    mc_sample("boundary family: 117..131 levels x 6 shapes, e.g. 126 x \"group:1\" + \"pu:1\"");
  } else if (!strcmp(stage, "tokens")) {
    static const char *TOK[] = { "pu", "core", "numa", "group", "l2", "pack", ":", "1", "2", "0", "99999999999", "(", ")", "[", "]", "indexes=", "memory=", "size=", "1,0", "2*1", "numa:core", " ", "*", "ma" };
    const int NT = sizeof(TOK) / sizeof(TOK[0]);
    int maxtok = MC.thorough ? 5 : 4;
    uint64_t idx = 0;
    for (int len = 0; len <= maxtok; len++) {
      uint64_t total = 1; for (int i = 0; i < len; i++) total *= (uint64_t)NT;
      for (uint64_t k = 0; k < total; k++, idx++) {
        if (!mc_mine(idx)) continue;
        if ((idx & 0x3ff) == 0 && mc_deadline()) break;
        char s[256]; s[0] = 0; uint64_t q = k;
        for (int i = 0; i < len; i++) { strcat(s, TOK[q % (uint64_t)NT]); q /= (uint64_t)NT; }
        /* digit tokens concatenate: "1","2","1","1","1" is the legal arity 12111, a machine far outside the small scope
         * (minutes under ASan, not a hang): arities of 4 to 10 digits are left out, longer ones overflow and are rejected at once */
        { int big = 0; for (const char *p2 = s; *p2; ) { if (isdigit((unsigned char)*p2)) { int run = 0; while (isdigit((unsigned char)*p2)) { run++; p2++; } if (run >= 4 && run <= 10) big = 1; } else p2++; }
          if (big) { mc_count("token_strings_with_a_huge_legal_arity_skipped", 1); continue; } }
        safety_one(s, "tokens");
      }
    }
    mc_count_max("token_strings_max_tokens", (uint64_t)maxtok);
    /* single-character deletions of base descriptions */
    static const char *BASE[] = { "package:2 [numa(memory=1048576)] core:2 pu:2(indexes=3,2,1,0,7,6,5,4)", "numa:2(memory=1024 indexes=1,0) l2:2(size=65536) pu:1",
                                  "(memory=4096)group:2 [numa] [numa(memory=1)] l3:1 pu:2(indexes=2*2)", "pack:2 die:2 core:1 pu:2(indexes=numa:core)", "2 3 1 2" };
    for (unsigned bi = 0; bi < sizeof(BASE) / sizeof(BASE[0]); bi++) {
      size_t l = strlen(BASE[bi]); char *m = malloc(l + 2);
      for (size_t i = 0; i < l; i++, idx++) {
        if (!mc_mine(idx)) continue;
        memcpy(m, BASE[bi], i); memcpy(m + i, BASE[bi] + i + 1, l - i); safety_one(m, "deletion");
        memcpy(m, BASE[bi], i + 1); memcpy(m + i + 1, BASE[bi] + i, l - i + 1); safety_one(m, "duplication");
      }
      free(m);
    }
    mc_sample("token strings such as \"pack:2[numa]pu:1\", \"pu:1(indexes=1,0\"; deletions of \"%s\"", BASE[0]);
  }
  if (mc_leak_check()) mc_violation("c07.leak", "leak reported at the end of stage %s part %d", stage, MC.part);
  return mc_finish(1);
}
