/* C14 - memory attributes: stored values are returned, best-of queries are optimal.
 *
 * Explicit-state exploration of histories over {register, set_value, restrict, refresh,
 * switch-to-dup, switch-to-XML-reload} from roots with 1..5 NUMA nodes (CPU-less and
 * nested-locality nodes included), with a table reference model.  After every step the
 * complete query battery is compared with the table; best-of results must be *an* optimal
 * entry.  Stored cpuset initiators are kept pairwise disjoint (the domain the property
 * defines); overlapping sets are only used as queries.
 */
#include "hwmc.h"
#include "univ.h"
#include "canon.h"
#include "ops.h"
#include <inttypes.h>

#define MAXE 64
struct entry { int attr; hwloc_uint64_t tgp; int itype; /* 0 none, 1 cpuset, 2 object */ uint64_t iset; hwloc_uint64_t igp; hwloc_uint64_t value; };
struct mattr { char name[16]; unsigned long flags; };
struct mmodel { struct mattr a[4]; int na; /* custom attrs */ struct entry e[MAXE]; int ne; };

enum { M_REG = 1, M_SET, M_RESTRICT, M_REFRESH, M_DUP, M_XML };
struct mop { int kind, a, b, c, d; unsigned long flags; };
struct mhist { int root; int n; struct mop ops[5]; };

static const char *ROOTS[] = { "node:2 pu:2", "node:4 pu:1", "@cpuless.xml", "@nested.xml", "node:1 pu:2", "@hetero.xml" };
#define NROOTS 6
static const char *RNAMES[] = { "VerifA", "VerifB", "Capacity", NULL };

static void mop_print(struct sb *b, const struct mop *o)
{
  switch (o->kind) {
  case M_REG: sb_printf(b, "register(%s flags=%#lx)", RNAMES[o->a] ? RNAMES[o->a] : "NULL", o->flags); break;
  case M_SET: sb_printf(b, "set_value(attr=%d target=%d initiator=%d value=%d)", o->a, o->b, o->c, o->d); break;
  case M_RESTRICT: sb_printf(b, "restrict(%#x)", o->a); break;
  case M_REFRESH: sb_puts(b, "refresh"); break;
  case M_DUP: sb_puts(b, "switch-to-dup"); break;
  case M_XML: sb_puts(b, "switch-to-xml-reload"); break;
  }
}
static char *mhist_text(const struct mhist *h) { static struct sb b; if (!b.s) sb_init(&b); sb_reset(&b); sb_printf(&b, "root=\"%s\"", ROOTS[h->root]); for (int i = 0; i < h->n; i++) { sb_puts(&b, " ; "); mop_print(&b, &h->ops[i]); } return b.s; }

static hwloc_topology_t load_root(int r)
{
  struct usrc s; struct ucfg c; hwloc_topology_t t; static char path[512];
  ucfg_keepall(&c);
  if (ROOTS[r][0] == '@') { snprintf(path, sizeof(path), "%s/harness/fixtures/%s", univ_verif(), ROOTS[r] + 1); s.kind = USRC_XMLFILE; s.text = path; }
  else { s.kind = USRC_SYNTHETIC; s.text = (char *)ROOTS[r]; }
  s.name = (char *)ROOTS[r]; s.len = 0;
  if (univ_load(&t, &s, &c) < 0) return NULL;
  return t;
}

/* attribute codes: 0,1 = custom VerifA/VerifB (by name), 2 = Bandwidth, 3 = Capacity, 4 = Latency */
static int attr_id(hwloc_topology_t t, int code, hwloc_memattr_id_t *id)
{
  if (code < 2) return hwloc_memattr_get_by_name(t, RNAMES[code], id);
  *id = code == 2 ? HWLOC_MEMATTR_ID_BANDWIDTH : code == 3 ? HWLOC_MEMATTR_ID_CAPACITY : HWLOC_MEMATTR_ID_LATENCY;
  return 0;
}
static unsigned long attr_flags(const struct mmodel *m, int code)
{
  if (code < 2) { for (int i = 0; i < m->na; i++) if (!strcmp(m->a[i].name, RNAMES[code])) return m->a[i].flags; return ~0UL; }
  if (code == 2) return HWLOC_MEMATTR_FLAG_HIGHER_FIRST | HWLOC_MEMATTR_FLAG_NEED_INITIATOR;
  if (code == 3) return HWLOC_MEMATTR_FLAG_HIGHER_FIRST;
  return HWLOC_MEMATTR_FLAG_LOWER_FIRST | HWLOC_MEMATTR_FLAG_NEED_INITIATOR;
}

/* initiator codes: 0 NULL, 1 cpuset P1 (lower half of the PUs), 2 cpuset P2 (upper half), 3 sub of P1 (first PU), 4 superset (root, query only), 5 object PU0, 6 object first NUMA, 7 empty cpuset (invalid) */
static void halves(hwloc_topology_t t, uint64_t *p1, uint64_t *p2)
{
  uint64_t pu = ops_bitmap_to_mask(hwloc_get_root_obj(t)->cpuset); int n = __builtin_popcountll(pu), k = 0; *p1 = *p2 = 0;
  for (int i = 0; i < 64; i++) if (pu & (1ULL << i)) { if (k < (n + 1) / 2) *p1 |= 1ULL << i; else *p2 |= 1ULL << i; k++; }
}
static int make_initiator(hwloc_topology_t t, int code, struct hwloc_location *loc, hwloc_bitmap_t *tofree, int *itype, uint64_t *iset, hwloc_uint64_t *igp)
{
  uint64_t p1, p2; halves(t, &p1, &p2);
  *tofree = NULL; *itype = 0; *iset = 0; *igp = 0;
  switch (code) {
  case 0: return 0;
  case 1: case 2: case 3: case 4: case 7: {
    uint64_t m = code == 1 ? p1 : code == 2 ? p2 : code == 3 ? (p1 & -p1) : code == 4 ? ops_bitmap_to_mask(hwloc_get_root_obj(t)->cpuset) : 0;
    if (code == 2 && !p2) return -1;
    *tofree = ops_mask_to_bitmap(m, 0); loc->type = HWLOC_LOCATION_TYPE_CPUSET; loc->location.cpuset = *tofree; *itype = 1; *iset = m; return 1; }
  case 5: { hwloc_obj_t o = hwloc_get_obj_by_type(t, HWLOC_OBJ_PU, 0); if (!o) return -1; loc->type = HWLOC_LOCATION_TYPE_OBJECT; loc->location.object = o; *itype = 2; *igp = o->gp_index; return 1; }
  case 6: { hwloc_obj_t o = hwloc_get_obj_by_type(t, HWLOC_OBJ_NUMANODE, 0); if (!o) return -1; loc->type = HWLOC_LOCATION_TYPE_OBJECT; loc->location.object = o; *itype = 2; *igp = o->gp_index; return 1; }
  }
  return -1;
}
/* target codes: 0..3 NUMA node by logical index, 4 first PU (non-NUMA target), 5 NULL */
static hwloc_obj_t make_target(hwloc_topology_t t, int code)
{
  if (code < 4) return hwloc_get_obj_by_type(t, HWLOC_OBJ_NUMANODE, (unsigned)code);
  if (code == 4) return hwloc_get_obj_by_type(t, HWLOC_OBJ_PU, 0);
  return NULL;
}

/* model lookup: entry of (attr, target) whose stored initiator matches the query */
static struct entry *lookup(struct mmodel *m, int attr, hwloc_uint64_t tgp, int need_init, int itype, uint64_t iset, hwloc_uint64_t igp)
{
  for (int i = 0; i < m->ne; i++) {
    struct entry *e = &m->e[i];
    if (e->attr != attr || e->tgp != tgp) continue;
    if (!need_init) return e;
    if (itype != e->itype) continue;
    if (itype == 1 && iset && (iset & ~e->iset) == 0) return e;     /* query included in the stored cpuset */
    if (itype == 2 && igp == e->igp) return e;
  }
  return NULL;
}

static void apply(hwloc_topology_t *tp, struct mmodel *m, const struct mop *o, int check)
{
  hwloc_topology_t t = *tp;
  switch (o->kind) {
  case M_REG: {
    hwloc_memattr_id_t id = 9999; errno = 0;
    int rc = hwloc_memattr_register(t, RNAMES[o->a], o->flags, &id), e = errno;
    int order = !!(o->flags & HWLOC_MEMATTR_FLAG_HIGHER_FIRST) + !!(o->flags & HWLOC_MEMATTR_FLAG_LOWER_FIRST);
    int flags_ok = order == 1 && !(o->flags & ~7UL);
    int exists = 0; if (RNAMES[o->a]) { if (!strcmp(RNAMES[o->a], "Capacity")) exists = 1; for (int i = 0; i < m->na; i++) if (!strcmp(m->a[i].name, RNAMES[o->a])) exists = 1; }
    if (check) {
      if (!RNAMES[o->a]) { if (rc != -1) mc_violation("c14.register.null-name", "%s :: NULL name accepted", mc_case_text()); }
      else if (!flags_ok) { if (rc != -1 || e != EINVAL) mc_violation("c14.register.flags", "%s :: flags %#lx: rc=%d errno=%d, expected EINVAL", mc_case_text(), o->flags, rc, e); }
      else if (exists) { if (rc != -1 || e != EBUSY) mc_violation("c14.register.duplicate", "%s :: duplicate name: rc=%d errno=%d, expected EBUSY", mc_case_text(), rc, e); }
      else if (rc != 0) mc_violation("c14.register.refused", "%s :: valid registration refused (errno %d)", mc_case_text(), e);
    }
    if (rc == 0 && RNAMES[o->a] && flags_ok && !exists && m->na < 4) { snprintf(m->a[m->na].name, 16, "%s", RNAMES[o->a]); m->a[m->na].flags = o->flags; m->na++;
      if (check) { const char *nm = NULL; unsigned long fl = 0; if (hwloc_memattr_get_name(t, id, &nm) < 0 || strcmp(nm, RNAMES[o->a]) || hwloc_memattr_get_flags(t, id, &fl) < 0 || fl != o->flags) mc_violation("c14.register.readback", "%s :: name/flags of the new attribute read back differently", mc_case_text()); } }
    break; }
  case M_SET: {
    hwloc_memattr_id_t id;
    unsigned long fl = attr_flags(m, o->a);
    int have_attr = attr_id(t, o->a, &id) == 0;
    if (!have_attr) { if (check && fl != ~0UL) mc_violation("c14.get_by_name", "%s :: registered attribute not found by name", mc_case_text()); break; }
    hwloc_obj_t tg = make_target(t, o->b);
    struct hwloc_location loc; hwloc_bitmap_t tofree; int itype; uint64_t iset; hwloc_uint64_t igp;
    int ic = make_initiator(t, o->c, &loc, &tofree, &itype, &iset, &igp);
    if (ic < 0 || (o->b < 5 && !tg)) { hwloc_bitmap_free(tofree); break; }    /* no such node / no second half: not applicable */
    int need = !!(fl & HWLOC_MEMATTR_FLAG_NEED_INITIATOR);
    errno = 0;
    int rc = hwloc_memattr_set_value(t, id, tg, ic ? &loc : NULL, 0, (hwloc_uint64_t)o->d * 100), e = errno;
    int valid = tg && o->a != 3 /* Capacity is read-only */ && (!need || (ic == 1 && !(itype == 1 && !iset)));
    if (check) {
      if (valid && rc != 0) mc_violation("c14.set_value.refused", "%s :: valid set_value refused (errno %d)", mc_case_text(), e);
      if (!valid && rc == 0) mc_violation("c14.set_value.accepted-invalid", "%s :: invalid set_value accepted (target=%p need_initiator=%d initiator=%d)", mc_case_text(), (void *)tg, need, o->c);
      if (!valid && rc != 0 && e != EINVAL) mc_violation("c14.set_value.errno", "%s :: errno %d", mc_case_text(), e);
    }
    if (rc == 0 && valid) {
      struct entry *en = lookup(m, o->a, tg->gp_index, need, itype, iset, igp);
      if (!en && m->ne < MAXE) { en = &m->e[m->ne++]; memset(en, 0, sizeof(*en)); en->attr = o->a; en->tgp = tg->gp_index; en->itype = need ? itype : 0; en->iset = need ? iset : 0; en->igp = need ? igp : 0; }
      if (en) en->value = (hwloc_uint64_t)o->d * 100;
    }
    hwloc_bitmap_free(tofree);
    break; }
  case M_RESTRICT: {
    hwloc_bitmap_t s = ops_mask_to_bitmap((uint64_t)o->a, 0);
    int rc = hwloc_topology_restrict(t, s, o->b ? HWLOC_RESTRICT_FLAG_REMOVE_CPULESS : 0);
    hwloc_bitmap_free(s);
    if (rc == 0) {
      uint64_t topo = ops_bitmap_to_mask(hwloc_get_root_obj(t)->cpuset); int k = 0;
      for (int i = 0; i < m->ne; i++) {
        struct entry en = m->e[i];
        if (!ops_obj_by_gp(t, en.tgp)) continue;                                 /* removed target */
        if (en.itype == 1) { en.iset &= topo; if (!en.iset) continue; }           /* emptied initiator */
        if (en.itype == 2 && !ops_obj_by_gp(t, en.igp)) continue;                 /* removed initiator object */
        m->e[k++] = en;
      }
      m->ne = k;
    }
    break; }
  case M_REFRESH: hwloc_topology_refresh(t); break;
  case M_DUP: { hwloc_topology_t d = NULL; if (hwloc_topology_dup(&d, t) == 0) { hwloc_topology_destroy(t); *tp = d; } else if (check) mc_violation("c14.dup.fails", "%s", mc_case_text()); break; }
  case M_XML: {
    char *x = NULL; int l = 0;
    if (hwloc_topology_export_xmlbuffer(t, &x, &l, 0) == 0) {
      hwloc_topology_t r; hwloc_topology_init(&r); hwloc_topology_set_all_types_filter(r, HWLOC_TYPE_FILTER_KEEP_ALL);
      if (hwloc_topology_set_xmlbuffer(r, x, l) == 0 && hwloc_topology_load(r) == 0) { hwloc_free_xmlbuffer(t, x); hwloc_topology_destroy(t); *tp = r; }
      else { if (check) mc_violation("c14.xml.reload-fails", "%s", mc_case_text()); hwloc_free_xmlbuffer(t, x); hwloc_topology_destroy(r); }
    }
    break; }
  }
}

/* ---------------------------------------------------------------- query battery */
/* which query kinds the battery runs: 1 get_value, 2 get_initiators, 4 best_initiator, 8 get_targets, 16 best_target, 32 the rest.
 * Every getter refreshes the attribute lazily, so the full battery (get_value first) would hide a getter that forgets to:
 * after a restrict / dup / XML switch each kind is also run FIRST, alone, on a freshly rebuilt state. */
static int QMASK = 0x3f;
static int better(unsigned long fl, hwloc_uint64_t a, hwloc_uint64_t b) { return (fl & HWLOC_MEMATTR_FLAG_HIGHER_FIRST) ? a > b : a < b; }

static void battery(hwloc_topology_t t, struct mmodel *m)
{
  hwloc_obj_t root = hwloc_get_root_obj(t);
  unsigned nn = hwloc_get_nbobjs_by_type(t, HWLOC_OBJ_NUMANODE);
  static const int QINIT[] = { 0, 1, 2, 3, 4, 5, 6 };
  for (int code = 0; code < 5; code++) {
    hwloc_memattr_id_t id; unsigned long fl = attr_flags(m, code);
    if (attr_id(t, code, &id) < 0) { if (fl != ~0UL) mc_violation("c14.get_by_name", "%s :: attribute %d not found", mc_case_text(), code); continue; }
    if (fl == ~0UL) { mc_violation("c14.get_by_name.ghost", "%s :: unregistered attribute %s exists", mc_case_text(), RNAMES[code]); continue; }
    int need = !!(fl & HWLOC_MEMATTR_FLAG_NEED_INITIATOR);
    if (code == 3) {
      /* Capacity is always the node's local memory; Locality the weight of its cpuset */
      for (unsigned n = 0; n < nn; n++) { hwloc_obj_t nd = hwloc_get_obj_by_type(t, HWLOC_OBJ_NUMANODE, n); hwloc_uint64_t v = 0;
        MC.transitions++;
        if (hwloc_memattr_get_value(t, HWLOC_MEMATTR_ID_CAPACITY, nd, NULL, 0, &v) < 0 || v != nd->attr->numanode.local_memory) mc_violation("c14.capacity", "%s :: Capacity of node P#%u = %" PRIu64 ", local_memory %" PRIu64, mc_case_text(), nd->os_index, v, nd->attr->numanode.local_memory);
        int w = 0; for (int b = 0; b < 64; b++) if (hwloc_bitmap_isset(nd->cpuset, (unsigned)b)) w++;
        if (hwloc_memattr_get_value(t, HWLOC_MEMATTR_ID_LOCALITY, nd, NULL, 0, &v) < 0 || v != (hwloc_uint64_t)w) mc_violation("c14.locality", "%s :: Locality of node P#%u = %" PRIu64 ", cpuset weight %d", mc_case_text(), nd->os_index, v, w);
      }
      continue;
    }
    /* get_value for every (target, query initiator) */
    for (int tc = 0; tc < 5; tc++) {
      hwloc_obj_t tg = make_target(t, tc); if (!tg) continue;
      for (unsigned qi = 0; (QMASK & 1) && qi < 7; qi++) {
        struct hwloc_location loc; hwloc_bitmap_t tofree; int itype; uint64_t iset; hwloc_uint64_t igp;
        int ic = make_initiator(t, QINIT[qi], &loc, &tofree, &itype, &iset, &igp);
        if (ic < 0) { hwloc_bitmap_free(tofree); continue; }
        hwloc_uint64_t v = 0; errno = 0;
        int rc = hwloc_memattr_get_value(t, id, tg, ic ? &loc : NULL, 0, &v), e = errno;
        MC.transitions++;
        struct entry *en = (need && !ic) ? NULL : lookup(m, code, tg->gp_index, need, itype, iset, igp);
        if (en) { if (rc != 0 || v != en->value) mc_violation("c14.get_value", "%s :: get_value(attr %d, target %d, initiator %u) = rc %d value %" PRIu64 ", table says %" PRIu64, mc_case_text(), code, tc, qi, rc, v, en->value); }
        else if (rc == 0) mc_violation("c14.get_value.ghost", "%s :: get_value(attr %d, target %d, initiator %u) returns %" PRIu64 " but nothing is stored", mc_case_text(), code, tc, qi, v);
        else if (e != EINVAL && e != ENOENT) mc_violation("c14.get_value.errno", "%s :: errno %d", mc_case_text(), e);
        hwloc_bitmap_free(tofree);
      }
      /* get_initiators(target): exactly the stored entries, with the *nr convention */
      {
        struct entry *exp[MAXE]; unsigned ne = 0;
        if (need) for (int i = 0; i < m->ne; i++) if (m->e[i].attr == code && m->e[i].tgp == tg->gp_index) exp[ne++] = &m->e[i];
        int known_target = 0; for (int i = 0; i < m->ne; i++) if (m->e[i].attr == code && m->e[i].tgp == tg->gp_index) known_target = 1;
        for (int mode = 0; (QMASK & 2) && mode < 3; mode++) {
          unsigned cap = mode == 0 ? 0 : mode == 1 ? 1 : MAXE, nr = cap; struct hwloc_location ins[MAXE]; hwloc_uint64_t vals[MAXE];
          errno = 0;
          int rc = hwloc_memattr_get_initiators(t, id, tg, 0, &nr, cap ? ins : NULL, cap ? vals : NULL);
          MC.transitions++;
          if (rc < 0) { if (known_target && need) mc_violation("c14.get_initiators.rc", "%s :: get_initiators(attr %d, target %d) failed (errno %d) although values are stored", mc_case_text(), code, tc, errno); continue; }
          if (nr != ne) { mc_violation("c14.get_initiators.nr", "%s :: get_initiators(attr %d, target %d) room %u: *nr=%u, table has %u", mc_case_text(), code, tc, cap, nr, ne); continue; }
          unsigned stored = nr < cap ? nr : cap;
          for (unsigned i = 0; i < stored; i++) {
            int found = 0;
            for (unsigned k = 0; k < ne; k++) {
              if (exp[k]->value != vals[i]) continue;
              if (exp[k]->itype == 1 && ins[i].type == HWLOC_LOCATION_TYPE_CPUSET && ops_bitmap_to_mask(ins[i].location.cpuset) == exp[k]->iset) found = 1;
              if (exp[k]->itype == 2 && ins[i].type == HWLOC_LOCATION_TYPE_OBJECT && ins[i].location.object && ins[i].location.object->gp_index == exp[k]->igp && ops_obj_by_gp(t, exp[k]->igp) == ins[i].location.object) found = 1;
            }
            if (!found) mc_violation("c14.get_initiators.content", "%s :: get_initiators(attr %d, target %d): entry %u (value %" PRIu64 ") is not in the table", mc_case_text(), code, tc, i, vals[i]);
          }
        }
        /* best initiator */
        if (QMASK & 4) {
        struct hwloc_location best; hwloc_uint64_t bv = 0; errno = 0;
        int rc = hwloc_memattr_get_best_initiator(t, id, tg, 0, &best, &bv), e = errno;
        MC.transitions++;
        if (!need) { if (rc != -1 || e != EINVAL) mc_violation("c14.best_initiator.no-initiator-attr", "%s :: attr %d has no initiators but best_initiator rc=%d errno=%d", mc_case_text(), code, rc, e); }
        else if (!ne) { if (rc != -1 || (e != ENOENT && e != EINVAL)) mc_violation("c14.best_initiator.none", "%s :: attr %d target %d: nothing stored but rc=%d errno=%d", mc_case_text(), code, tc, rc, e); }
        else { int optimal = rc == 0; for (unsigned k = 0; optimal && k < ne; k++) if (better(fl, exp[k]->value, bv)) optimal = 0; int exists = 0; for (unsigned k = 0; k < ne; k++) if (exp[k]->value == bv) exists = 1;
          if (!optimal || !exists) mc_violation("c14.best_initiator.optimal", "%s :: attr %d target %d: best initiator value %" PRIu64 " (rc %d) is not an optimal stored value", mc_case_text(), code, tc, bv, rc); }
        }
      }
    }
    /* get_targets / best_target for every query initiator */
    for (unsigned qi = 0; qi < 7; qi++) {
      struct hwloc_location loc; hwloc_bitmap_t tofree; int itype; uint64_t iset; hwloc_uint64_t igp;
      int ic = make_initiator(t, QINIT[qi], &loc, &tofree, &itype, &iset, &igp);
      if (ic < 0) { hwloc_bitmap_free(tofree); continue; }
      /* expected targets: with an initiator, those having a value for it; without, all targets of the attribute */
      hwloc_uint64_t etg[MAXE], eval[MAXE]; unsigned ne = 0;
      for (int i = 0; i < m->ne; i++) {
        if (m->e[i].attr != code) continue;
        if (need && ic) { struct entry *en = lookup(m, code, m->e[i].tgp, 1, itype, iset, igp); if (en != &m->e[i]) continue; }
        int dup = 0; for (unsigned k = 0; k < ne; k++) if (etg[k] == m->e[i].tgp) dup = 1;
        if (!dup) { etg[ne] = m->e[i].tgp; eval[ne] = m->e[i].value; ne++; }
      }
      for (int mode = 0; (QMASK & 8) && mode < 3; mode++) {
        unsigned cap = mode == 0 ? 0 : mode == 1 ? 1 : MAXE, nr = cap; hwloc_obj_t tgs[MAXE]; hwloc_uint64_t vals[MAXE];
        int rc = hwloc_memattr_get_targets(t, id, ic ? &loc : NULL, 0, &nr, cap ? tgs : NULL, cap ? vals : NULL);
        MC.transitions++;
        if (rc < 0) { mc_violation("c14.get_targets.rc", "%s :: get_targets(attr %d, initiator %u) failed (errno %d)", mc_case_text(), code, qi, errno); continue; }
        if (nr != ne) { mc_violation("c14.get_targets.nr", "%s :: get_targets(attr %d, initiator %u) room %u: *nr=%u, table has %u", mc_case_text(), code, qi, cap, nr, ne); continue; }
        unsigned stored = nr < cap ? nr : cap;
        for (unsigned i = 0; i < stored; i++) {
          int found = 0; for (unsigned k = 0; k < ne; k++) if (tgs[i] && tgs[i]->gp_index == etg[k] && ops_obj_by_gp(t, etg[k]) == tgs[i]) { found = 1; if ((!need || ic) && vals[i] != eval[k]) mc_violation("c14.get_targets.value", "%s :: get_targets(attr %d, initiator %u): value %" PRIu64 " for target gp %" PRIu64 ", table %" PRIu64, mc_case_text(), code, qi, vals[i], etg[k], eval[k]); }
          if (!found) mc_violation("c14.get_targets.content", "%s :: get_targets(attr %d, initiator %u): entry %u is not a stored target of this topology", mc_case_text(), code, qi, i);
        }
      }
      /* best target */
      if ((QMASK & 16) && (!need || ic)) {
        hwloc_obj_t best = NULL; hwloc_uint64_t bv = 0; errno = 0;
        int rc = hwloc_memattr_get_best_target(t, id, ic ? &loc : NULL, 0, &best, &bv), e = errno;
        MC.transitions++;
        if (!ne) { if (rc != -1 || (e != ENOENT && e != EINVAL)) mc_violation("c14.best_target.none", "%s :: attr %d initiator %u: nothing matches but rc=%d errno=%d", mc_case_text(), code, qi, rc, e); }
        else { int ok = rc == 0 && best; for (unsigned k = 0; ok && k < ne; k++) if (better(fl, eval[k], bv)) ok = 0; int exists = 0; for (unsigned k = 0; best && k < ne; k++) if (etg[k] == best->gp_index && eval[k] == bv) exists = 1;
          if (!ok || !exists) mc_violation("c14.best_target.optimal", "%s :: attr %d initiator %u: best target value %" PRIu64 " (rc %d errno %d) is not an optimal stored entry", mc_case_text(), code, qi, bv, rc, e); }
      }
      hwloc_bitmap_free(tofree);
    }
  }
  if (!(QMASK & 32)) return;
  /* local NUMA nodes: every normal object x 8 flag words, against the definition */
  {
    hwloc_obj_t *objs; unsigned n = canon_walk(t, &objs);
    for (unsigned i = 0; i < n; i++) {
      hwloc_obj_t o = objs[i]; if (!o->cpuset || !hwloc_obj_type_is_normal(o->type)) continue;
      for (unsigned long fl = 0; fl < 8; fl++) for (int asobj = 0; asobj < 2; asobj++) {
        struct hwloc_location loc; if (asobj) { loc.type = HWLOC_LOCATION_TYPE_OBJECT; loc.location.object = o; } else { loc.type = HWLOC_LOCATION_TYPE_CPUSET; loc.location.cpuset = o->cpuset; }
        uint64_t lc = ops_bitmap_to_mask(o->cpuset), expect = 0, got = 0; unsigned ne = 0;
        for (unsigned k = 0; k < nn; k++) { hwloc_obj_t nd = hwloc_get_obj_by_type(t, HWLOC_OBJ_NUMANODE, k); uint64_t nc = ops_bitmap_to_mask(nd->cpuset);
          int sel = (fl & HWLOC_LOCAL_NUMANODE_FLAG_ALL) || nc == lc || ((fl & HWLOC_LOCAL_NUMANODE_FLAG_LARGER_LOCALITY) && (lc & ~nc) == 0) || ((fl & HWLOC_LOCAL_NUMANODE_FLAG_SMALLER_LOCALITY) && (nc & ~lc) == 0);
          if (sel) { expect |= 1ULL << nd->os_index; ne++; } }
        for (int mode = 0; mode < 2; mode++) {
          hwloc_obj_t nodes[64]; unsigned nr = mode ? 64 : 0;
          int rc = hwloc_get_local_numanode_objs(t, &loc, &nr, mode ? nodes : NULL, fl);
          MC.transitions++;
          if (rc < 0) { mc_violation("c14.local_nodes.rc", "%s :: failed for %s flags %#lx", mc_case_text(), hwloc_obj_type_string(o->type), fl); continue; }
          if (nr != ne) mc_violation("c14.local_nodes.nr", "%s :: local nodes of %s L#%u flags %#lx: *nr=%u, definition gives %u", mc_case_text(), hwloc_obj_type_string(o->type), o->logical_index, fl, nr, ne);
          if (mode) { got = 0; for (unsigned k = 0; k < nr && k < 64; k++) got |= 1ULL << nodes[k]->os_index; if (got != expect) mc_violation("c14.local_nodes.set", "%s :: local nodes of %s L#%u flags %#lx: %#" PRIx64 ", definition gives %#" PRIx64, mc_case_text(), hwloc_obj_type_string(o->type), o->logical_index, fl, got, expect); }
        }
      }
    }
    { unsigned nr = 0; if (hwloc_get_local_numanode_objs(t, NULL, &nr, NULL, 1UL << 3) != -1) mc_violation("c14.local_nodes.flags", "%s :: unknown flag accepted", mc_case_text()); }
    free(objs);
  }
  /* default nodeset: existing nodes with pairwise-disjoint cpusets */
  {
    hwloc_bitmap_t ns = hwloc_bitmap_alloc();
    int rc = hwloc_topology_get_default_nodeset(t, ns, 0);
    MC.transitions++;
    if (rc < 0) mc_violation("c14.default_nodeset.rc", "%s :: failed", mc_case_text());
    else {
      uint64_t got = ops_bitmap_to_mask(ns), all = ops_bitmap_to_mask(root->nodeset), cover = 0;
      if (got & ~all) mc_violation("c14.default_nodeset.existing", "%s :: default nodeset %#" PRIx64 " holds nodes outside the topology nodeset %#" PRIx64, mc_case_text(), got, all);
      if (!got) mc_violation("c14.default_nodeset.empty", "%s :: empty default nodeset", mc_case_text());
      for (unsigned k = 0; k < nn; k++) { hwloc_obj_t nd = hwloc_get_obj_by_type(t, HWLOC_OBJ_NUMANODE, k); if (!(got & (1ULL << nd->os_index))) continue; uint64_t nc = ops_bitmap_to_mask(nd->cpuset);
        if (nc & cover) mc_violation("c14.default_nodeset.disjoint", "%s :: default nodes have overlapping cpusets (node P#%u)", mc_case_text(), nd->os_index); cover |= nc; }
    }
    if (hwloc_topology_get_default_nodeset(t, ns, 1) != -1) mc_violation("c14.default_nodeset.flags", "%s :: flags accepted", mc_case_text());
    hwloc_bitmap_free(ns);
  }
}

/* ---------------------------------------------------------------- exploration */
static int alphabet(hwloc_topology_t t, const struct mmodel *m, struct mop *out, int lean)
{
  int n = 0; struct mop o;
  for (int nm = 0; nm < 4; nm++) for (unsigned long fl = 0; fl < 16; fl++) {
    if (lean && !(fl == 1 || fl == 6 || fl == 0)) continue;
    if (nm >= 2 && !(fl == 1 || fl == 3)) continue;
    memset(&o, 0, sizeof(o)); o.kind = M_REG; o.a = nm; o.flags = fl; out[n++] = o;
  }
  unsigned nn = hwloc_get_nbobjs_by_type(t, HWLOC_OBJ_NUMANODE);
  for (int at = 0; at < 5; at++) {
    if (at < 2 && attr_flags(m, at) == ~0UL) continue;
    for (int tg = 0; tg < 6; tg++) {
      if (tg < 4 && (unsigned)tg >= nn) continue;
      for (int in = 0; in < 8; in++) {
        if (in == 4) continue;                                  /* the superset is a query, never stored: stored cpusets stay disjoint */
        if (lean && (in == 6 || in == 7 || tg == 5 || (tg == 4 && in > 1))) continue;
        for (int v = 1; v <= (lean ? 2 : 3); v++) {
          if (lean && v == 2 && ((at + tg + in) & 1)) continue;
          memset(&o, 0, sizeof(o)); o.kind = M_SET; o.a = at; o.b = tg; o.c = in; o.d = v; out[n++] = o;
        }
      }
    }
  }
  uint64_t pu = ops_bitmap_to_mask(hwloc_get_root_obj(t)->cpuset);
  static const unsigned RS[] = { 0x3, 0x5, 0xc, 0x1, 0xe };
  for (int i = 0; i < 5; i++) if ((RS[i] & pu) && (RS[i] & pu) != pu) for (int f = 0; f < 2; f++) { memset(&o, 0, sizeof(o)); o.kind = M_RESTRICT; o.a = (int)RS[i]; o.b = f; out[n++] = o; }
  memset(&o, 0, sizeof(o)); o.kind = M_REFRESH; out[n++] = o; o.kind = M_DUP; out[n++] = o; o.kind = M_XML; out[n++] = o;
  return n;
}

static hwloc_topology_t build(const struct mhist *h, struct mmodel *m, int check_last)
{
  hwloc_topology_t t = load_root(h->root);
  if (!t) return NULL;
  memset(m, 0, sizeof(*m));
  for (int i = 0; i < h->n; i++) apply(&t, m, &h->ops[i], check_last && i == h->n - 1);
  return t;
}

static void model_key(hwloc_topology_t t, const struct mmodel *m, const struct mop *last, struct sb *b)
{
  sb_reset(b);
  sb_printf(b, "topo=%" PRIx64 "/%" PRIx64, ops_bitmap_to_mask(hwloc_get_root_obj(t)->cpuset), ops_bitmap_to_mask(hwloc_get_root_obj(t)->nodeset));
  for (int i = 0; i < m->na; i++) sb_printf(b, "|%s:%lx", m->a[i].name, m->a[i].flags);
  for (int i = 0; i < m->ne; i++) sb_printf(b, "|%d:%" PRIu64 ":%d:%" PRIx64 ":%" PRIu64 "=%" PRIu64, m->e[i].attr, m->e[i].tgp, m->e[i].itype, m->e[i].iset, m->e[i].igp, m->e[i].value);
  if (last && (last->kind == M_DUP || last->kind == M_XML || last->kind == M_REFRESH)) sb_printf(b, "|via%d", last->kind);
}

int main(int argc, char **argv)
{
  mc_init(argc, argv, "C14");
  int maxdepth = MC.thorough ? 3 : 2;
  mc_note("%d roots, depth %d (+ a third lean step in quick on set_value/restrict successors)", NROOTS, maxdepth);
  uint64_t idx = 0;
  static struct sb kb; if (!kb.s) sb_init(&kb);
  for (int r = 0; r < NROOTS; r++) {
    struct mhist *F = malloc(sizeof(*F) * 500000); size_t nF = 0;
    struct strset seen; strset_init(&seen);
    struct mhist h0; memset(&h0, 0, sizeof(h0)); h0.root = r; F[nF++] = h0;
    for (size_t fi = 0; fi < nF && !mc_deadline(); fi++) {
      struct mhist h = F[fi];
      struct mmodel m; hwloc_topology_t t = NULL;
      if (MC_TRY(30000)) { t = build(&h, &m, 0); mc_try_end(); }
      if (mc_fault[0] || !t) { mc_fault[0] = 0; mc_clear_san(); continue; }
      if (h.n == 0 && mc_mine(idx++) && mc_case("%s", mhist_text(&h))) { if (MC_TRY(60000)) { battery(t, &m); mc_try_end(); } mc_report_faults("battery"); MC.states++; }
      static struct mop ops[4096]; int nops = h.n < maxdepth + (MC.thorough ? 0 : 1) ? alphabet(t, &m, ops, h.n >= 1) : 0;
      /* quick: the extra (third) step only follows histories that stored something, and only tries restrict/refresh/dup/xml */
      int tail_only = !MC.thorough && h.n == maxdepth;
      if (tail_only && m.ne == 0) nops = 0;
      hwloc_topology_destroy(t);
      mc_count_max("alphabet_max", (uint64_t)nops);
      for (int oi = 0; oi < nops; oi++) {
        if (tail_only && (ops[oi].kind == M_REG || ops[oi].kind == M_SET)) continue;
        if (h.n == 0 && !mc_mine(idx++)) continue;
        struct mhist hn = h; hn.ops[hn.n++] = ops[oi];
        if (!mc_case("%s", mhist_text(&hn))) continue;
        struct mmodel mn; hwloc_topology_t tn = NULL;
        if (MC_TRY(30000)) { tn = build(&hn, &mn, 1); mc_try_end(); }
        MC.transitions++;
        if (mc_report_faults("op") || !tn) continue;
        if (MC_TRY(120000)) { battery(tn, &mn); mc_try_end(); }
        mc_report_faults("battery");
        /* each query kind first, alone, on a fresh copy of the state (see QMASK) */
        if (mn.ne && (ops[oi].kind == M_RESTRICT || ops[oi].kind == M_DUP || ops[oi].kind == M_XML)) {
          for (int qk = 1; qk <= 16; qk <<= 1) {
            struct mmodel m2; hwloc_topology_t t2 = NULL;
            if (MC_TRY(30000)) { t2 = build(&hn, &m2, 0); mc_try_end(); }
            if (mc_fault[0] || !t2) { mc_fault[0] = 0; mc_clear_san(); continue; }
            QMASK = qk;
            if (MC_TRY(120000)) { battery(t2, &m2); mc_try_end(); }
            QMASK = 0x3f;
            mc_report_faults(qk == 1 ? "first-get_value" : qk == 2 ? "first-get_initiators" : qk == 4 ? "first-best_initiator" : qk == 8 ? "first-get_targets" : "first-best_target");
            if (MC_TRY(30000)) { hwloc_topology_destroy(t2); mc_try_end(); }
            mc_report_faults("destroy");
            mc_count("first_query_passes", 1);
          }
        }
        model_key(tn, &mn, &ops[oi], &kb);
        if (strset_add(&seen, kb.s, kb.len)) { MC.states++; if (nF < 500000) F[nF++] = hn; if (MC.states % 1500 == 1) mc_sample("%s", mhist_text(&hn)); }
        if (MC_TRY(30000)) { hwloc_topology_destroy(tn); mc_try_end(); }
        mc_report_faults("destroy");
      }
    }
    free(F); strset_free(&seen);
  }
  if (mc_leak_check()) mc_violation("c14.leak", "leak at the end of part %d", MC.part);
  return mc_finish(1);
}
