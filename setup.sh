#!/bin/sh
# MANIFEST.setup_cmd: build the library variants and every harness once, offline.
set -e
cd "$(dirname "$0")"
python3 engine/setup_all.py
