/* The topology universe U (DESIGN.md section 4) and the configuration space. */
#ifndef UNIV_H
#define UNIV_H
#include "hwloc.h"
#include "hwmc.h"

/* ---- sources */
enum usrc_kind { USRC_SYNTHETIC, USRC_XMLFILE, USRC_XMLBUF };
struct usrc { enum usrc_kind kind; char *text; /* description, path or buffer */ int len; char *name; };

/* ---- configurations */
struct ucfg {
  unsigned long flags;
  int all_filter;                       /* -1, or a filter applied with set_all_types_filter first */
  int filt[HWLOC_OBJ_TYPE_MAX];         /* -1 = leave, else filter for that type (applied after all_filter) */
  int group_setter;                     /* 0 none, 1 cache, 2 icache, 3 io  (with group_filter) */
  int group_filter;
};
void ucfg_default(struct ucfg *c);
void ucfg_keepall(struct ucfg *c);      /* every type KEEP_ALL (Group: KEEP_STRUCTURE is what hwloc allows) */
void ucfg_print(struct sb *b, const struct ucfg *c);

/* load: returns 0 and *tp on success; -1 load failed; -2 a configuration call was rejected
 * (errno kept).  *tp is destroyed on failure. Runs unprotected: wrap in MC_TRY. */
int univ_load(hwloc_topology_t *tp, const struct usrc *s, const struct ucfg *c);

/* ---- generated synthetic descriptions */
#define SYN_MAXLEVELS 8
struct syn_level {
  int type;                /* hwloc_obj_type_t, or -1 when the description gives only an arity */
  unsigned arity;
  int attached_numa;       /* number of "[numa]" attached after this level */
  unsigned long long memory;  /* memory= attribute (NUMA level or attached numa), 0 = not given */
  unsigned long long size;    /* size= attribute (caches), 0 = not given */
  unsigned long long mscache; /* memorysidecachesize= attribute of the NUMA level or of the attached NUMA nodes, 0 = not given */
  const char *numa_attrs[3];  /* per-clause attribute text of the attached "[numa(...)]" clauses (family 5), NULL = rendered from memory/mscache */
  const char *indexes;     /* text of an indexes= attribute or NULL */
};
struct syn_desc { int nlevels; struct syn_level lv[SYN_MAXLEVELS]; char text[600]; int family; /* 1 full product, 2 deeper restricted product, 3 attached NUMA, 4 indexes/sizes, 5 attached clauses with their own attributes */ };
typedef void (*syn_cb)(const struct syn_desc *d, uint64_t index, void *ctx);
/* scope 0: quick, 1: thorough.  Calls cb for every description, returns their number. */
uint64_t univ_syn_enumerate(int scope, syn_cb cb, void *ctx);

/* ---- fixed lists */
/* U_small: roots for history exploration (<= 8 PUs) */
int univ_small_count(void);
const struct usrc *univ_small(int i);
/* fixtures (all of harness/fixtures/ *.xml) */
int univ_fix_count(void);
const struct usrc *univ_fix(int i);
/* corpus: tests/hwloc/xml/ *.xml of the repository */
int univ_corpus_count(void);
const struct usrc *univ_corpus(int i);

char *univ_read_file(const char *path, int *lenp);
const char *univ_repo(void);     /* VERIF_REPO or /repo */
const char *univ_verif(void);    /* VERIF_DIR or /verif */

/* all legal flag words over the load-time flags relevant offline (not the RESTRICT_TO_*BINDING ones) */
extern unsigned long UNIV_FLAGS[];   /* ordered by increasing number of flags; [0] = 0 */
extern const int UNIV_NFLAGS;

#endif
