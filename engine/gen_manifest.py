#!/usr/bin/env python3
"""Regenerates /verif/MANIFEST.json from engine/props.py (so that it is always consistent
with what ./check can run) and validates it against the schema."""
import sys, os, json
sys.path.insert(0, os.path.dirname(os.path.abspath(__file__)))
import props, build

VERIF = build.VERIF
ids = [json.loads(l)["id"] for l in open(os.path.join(VERIF, "properties.jsonl"))]
hook_commits = []
try:
    import subprocess
    out = subprocess.run(["git", "-C", build.REPO, "log", "--format=%h %s"], stdout=subprocess.PIPE, text=True).stdout
    hook_commits = [l.split()[0] for l in out.splitlines() if l.split(" ", 1)[1].startswith("verif hook")]
except Exception:
    pass

checks = []
na = []
for pid in ids:
    P = props.PROPS.get(pid)
    if not P or P.get("disabled"):
        na.append({"property_id": pid, "reason": (P or {}).get("disabled") or props.NOT_BUILT.get(pid, "check not built yet")})
        continue
    c = {
        "property_id": pid,
        "quick_cmd": "./check %s --tier quick" % pid,
        "thorough_cmd": "./check %s --tier thorough" % pid,
        "evidence_file": "/verif/evidence/%s.json" % pid,
        "replay_cmd_template": "./check %s --replay {path}" % pid,
        "engine": P.get("engine", "hwmc"),
        "level_claimed": {"category": "model_checking", "text": P["level_text"], "design_ref": P.get("design_ref", "DESIGN.md section 5")},
        "level_note": P.get("level_note", "; ".join(P.get("assumptions", []))),
        "technique": P.get("technique", "explicit-state exhaustive exploration of the real implementation within stated bounds"),
    }
    checks.append(c)

m = {
    "version": 1,
    "setup_cmd": "./setup.sh",
    "hooks": {
        "guard": "HWLOC_VERIF",
        "enable": "engine/build.py compiles /repo/hwloc/*.c of the working tree with -DHWLOC_VERIF into /verif/build/<variant>/libhwloc.a (clang; asan, fast and mon variants)",
        "baseline_off_cmd": "make -C /repo -j16 >/dev/null && make -C /repo check",
        "source_commits": hook_commits,
        "add_only": True,
    },
    "engines": [
        {"name": "hwmc", "path": "engine/", "serves_properties": [c["property_id"] for c in checks],
         "kind_free_text": "explicit-state / bounded-exhaustive exploration of the real library (history replay, canonical dump, reference models, in-process fault capture), libc seams for environment faults (file system, binding system calls), child-process driver for the tools"},
        {"name": "mcsched", "path": "engine/mcsched.c", "serves_properties": ["C17"],
         "kind_free_text": "stateless model checker for real threads: controlled scheduler, preemption-bounded depth-first exploration, scheduling points from interposed mutex operations and MMU-trapped accesses to the library's global variables, vector-clock race detector, read-only arena for the shared topology"},
    ],
    "checks": checks,
    "not_applicable": na,
    "notes": "All checks: ./check <ID> --tier quick|thorough; exit 0 held / 1 violation (VIOLATION line) / 2 engine error. Known findings: KNOWN_FINDINGS.txt. See DESIGN.md.",
}
path = os.path.join(VERIF, "MANIFEST.json")
json.dump(m, open(path, "w"), indent=1)
try:
    import jsonschema
    jsonschema.validate(m, json.load(open("/root/.vp/MANIFEST.schema.json")))
    print("MANIFEST.json valid: %d checks, %d not_applicable" % (len(checks), len(na)))
except ImportError:
    print("MANIFEST.json written (jsonschema not importable here): %d checks" % len(checks))
