#include "refset.h"
#include "hwmc.h"

void rs_print(struct sb *b, const refset *s)
{
  int first = 1;
  long i = 0;
  sb_putc(b, '{');
  while (i < RS_BITS) {
    if (!rs_isset(s, i)) { i++; continue; }
    long j = i;
    while (j + 1 < RS_BITS && rs_isset(s, j + 1)) j++;
    if (!first) sb_putc(b, ',');
    first = 0;
    if (j == RS_BITS - 1 && s->tail) { sb_printf(b, "%ld-", i); sb_putc(b, '}'); return; }
    if (j == i) sb_printf(b, "%ld", i); else sb_printf(b, "%ld-%ld", i, j);
    i = j + 1;
  }
  if (s->tail) { if (!first) sb_putc(b, ','); sb_printf(b, "%d-", RS_BITS); }
  sb_putc(b, '}');
}

char *rs_str(const refset *s)
{
  static struct sb bufs[8]; static int k;
  struct sb *b = &bufs[k++ & 7];
  if (!b->s) sb_init(b);
  sb_reset(b);
  rs_print(b, s);
  return b->s;
}
