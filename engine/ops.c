#include "ops.h"
#include "canon.h"
#include <inttypes.h>

/* ------------------------------------------------------------------ helpers */
hwloc_bitmap_t ops_mask_to_bitmap(uint64_t mask, int tail)
{
  hwloc_bitmap_t b = hwloc_bitmap_alloc();
  for (int i = 0; i < 64; i++) if (mask & (1ULL << i)) hwloc_bitmap_set(b, (unsigned)i);
  if (tail == 1) hwloc_bitmap_set_range(b, 64, -1);
  else if (tail == 2) hwloc_bitmap_set(b, 100);
  return b;
}
uint64_t ops_bitmap_to_mask(hwloc_const_bitmap_t b)
{
  uint64_t m = 0;
  if (!b) return 0;
  for (int i = 0; i < 64; i++) if (hwloc_bitmap_isset(b, (unsigned)i)) m |= 1ULL << i;
  return m;
}
hwloc_obj_t ops_obj_by_gp(hwloc_topology_t t, hwloc_uint64_t gp)
{
  hwloc_obj_t *objs, r = NULL; unsigned n = canon_walk(t, &objs);
  for (unsigned i = 0; i < n; i++) if (objs[i]->gp_index == gp) { r = objs[i]; break; }
  free(objs);
  return r;
}

#define TAGBASE 0x7a000000UL
void *hist_tag(hwloc_uint64_t gp) { return (void *)(uintptr_t)(TAGBASE + gp * 16); }

int hist_retag(hwloc_topology_t t, char *why, size_t whylen)
{
  hwloc_obj_t *objs; unsigned n = canon_walk(t, &objs); int bad = 0;
  for (unsigned i = 0; i < n; i++) {
    if (!objs[i]->userdata) objs[i]->userdata = hist_tag(objs[i]->gp_index);
    else if (objs[i]->userdata != hist_tag(objs[i]->gp_index)) {
      if (!bad && why) snprintf(why, whylen, "%s gp=%" PRIu64 " carries userdata %p, its tag is %p", hwloc_obj_type_string(objs[i]->type), objs[i]->gp_index, objs[i]->userdata, hist_tag(objs[i]->gp_index));
      bad++;
    }
  }
  free(objs);
  return bad;
}

/* ------------------------------------------------------------------ printing */
static const char *KNAME[] = { "?", "restrict", "insert_misc", "insert_group", "alloc_free_group", "allow", "distances_add", "distances_remove",
                               "distances_remove_by_depth", "memattr_register", "memattr_set_value", "cpukinds_register", "info", "set_subtype", "refresh" };
void op_print(struct sb *b, const struct op *o)
{
  sb_printf(b, "%s(", KNAME[o->kind]);
  switch (o->kind) {
  case OP_RESTRICT: sb_printf(b, "set=%#" PRIx64 "%s flags=%#lx", o->set, o->tail == 1 ? "+inf" : o->tail == 2 ? "+100" : "", o->flags); break;
  case OP_MISC: sb_printf(b, "parent=gp%d name=%s", o->a, o->b ? "\"m\"" : "NULL"); break;
  case OP_GROUP: sb_printf(b, "sets=%d cpuset=%#" PRIx64 " nodeset=%#" PRIx64 " dont_merge=%d kind=%d subkind=%d", o->c, o->set, o->set2, o->b, o->a, o->d); break;
  case OP_ALLOW: sb_printf(b, "flags=%#lx given=%d cpuset=%#" PRIx64 " nodeset=%#" PRIx64, o->flags, o->c, o->set, o->set2); break;
  case OP_DIST_ADD: sb_printf(b, "objs=%d matrix=%d kind=%#x name=%d addflags=%#lx", o->a, o->b, o->c, o->d, o->flags); break;
  case OP_DIST_REMOVE_DEPTH: sb_printf(b, "depthcode=%d", o->a); break;
  case OP_MEMATTR_REG: sb_printf(b, "name=%d flags=%#lx", o->a, o->flags); break;
  case OP_MEMATTR_SET: sb_printf(b, "attr=%d target=%d initiator=%d value=%d", o->a, o->b, o->c, o->d); break;
  case OP_CPUKIND_REG: sb_printf(b, "cpuset=%#" PRIx64 " eff=%d infos=%d flags=%#lx", o->set, o->a, o->b, o->flags); break;
  case OP_INFO: sb_printf(b, "obj=gp%d variant=%d", o->a, o->b); break;
  case OP_SUBTYPE: sb_printf(b, "obj=gp%d variant=%d", o->a, o->b); break;
  default: break;
  }
  sb_putc(b, ')');
}
void hist_print(struct sb *b, const struct hist *h)
{
  const struct usrc *r = univ_small(h->root);
  sb_printf(b, "root=\"%s\" cfg=%s", r->name, hist_cfg_name(h->cfg));
  for (int i = 0; i < h->n; i++) { sb_puts(b, " ; "); op_print(b, &h->ops[i]); }
}

/* ------------------------------------------------------------------ root configurations */
static const char *CFGNAMES[] = { "default", "keepall+disallowed", "structure", "keepall+support", "keepall+no-annotations" };
int hist_ncfg(void) { return 4; }
const char *hist_cfg_name(int i) { return CFGNAMES[i]; }
void hist_cfg(int i, struct ucfg *c)
{
  ucfg_default(c);
  switch (i) {
  case 0: break;
  case 1: c->all_filter = HWLOC_TYPE_FILTER_KEEP_ALL; c->flags = HWLOC_TOPOLOGY_FLAG_INCLUDE_DISALLOWED; break;
  case 2: c->all_filter = HWLOC_TYPE_FILTER_KEEP_STRUCTURE; c->group_setter = 3; c->group_filter = HWLOC_TYPE_FILTER_KEEP_ALL; c->filt[HWLOC_OBJ_MISC] = HWLOC_TYPE_FILTER_KEEP_ALL; break;
  case 4: c->all_filter = HWLOC_TYPE_FILTER_KEEP_ALL; c->flags = HWLOC_TOPOLOGY_FLAG_NO_DISTANCES | HWLOC_TOPOLOGY_FLAG_NO_MEMATTRS | HWLOC_TOPOLOGY_FLAG_NO_CPUKINDS; break;   /* extra configuration, not counted by hist_ncfg(): discovery of the three annotation kinds disabled, user-added ones still live (C19) */
  case 3: c->all_filter = HWLOC_TYPE_FILTER_KEEP_ALL; c->flags = HWLOC_TOPOLOGY_FLAG_IMPORT_SUPPORT; break;   /* support bits of the file (fixture support.xml) become part of the state */
  }
}

hwloc_topology_t hist_build(const struct hist *h)
{
  hwloc_topology_t t; struct ucfg c;
  hist_cfg(h->cfg, &c);
  if (univ_load(&t, univ_small(h->root), &c) < 0) return NULL;
  hist_retag(t, NULL, 0);
  for (int i = 0; i < h->n; i++) {
    struct opres r;
    op_apply(t, &h->ops[i], &r);
    hist_retag(t, NULL, 0);
  }
  return t;
}

/* ------------------------------------------------------------------ enumeration */
struct oplist { struct op *v; int n, cap; };
static void push(struct oplist *l, const struct op *o)
{
  if (l->n == l->cap) { l->cap = l->cap ? l->cap * 2 : 256; l->v = realloc(l->v, (size_t)l->cap * sizeof(*l->v)); }
  l->v[l->n++] = *o;
}
static void push_unique_mask(uint64_t *arr, int *n, int max, uint64_t m) { for (int i = 0; i < *n; i++) if (arr[i] == m) return; if (*n < max) arr[(*n)++] = m; }

/* candidate subsets of an os_index universe u: all subsets if small, else the masks of
 * objects (given in objm[]), their complements and the unions of two */
static int candidate_sets(uint64_t u, const uint64_t *objm, int nobj, int max_bits, uint64_t *out, int max)
{
  int n = 0, bits = __builtin_popcountll(u);
  if (bits <= max_bits) {
    /* all subsets of u (including empty and u itself) */
    uint64_t s = 0;
    do { push_unique_mask(out, &n, max, s); s = (s - u) & u; } while (s);
  } else {
    push_unique_mask(out, &n, max, 0); push_unique_mask(out, &n, max, u);
    for (int i = 0; i < nobj; i++) { push_unique_mask(out, &n, max, objm[i] & u); push_unique_mask(out, &n, max, u & ~objm[i]); }
    for (int i = 0; i < nobj; i++) for (int j = i + 1; j < nobj; j++) push_unique_mask(out, &n, max, (objm[i] | objm[j]) & u);
  }
  return n;
}

int ops_enumerate(hwloc_topology_t t, const struct opscope *sc, struct op **outp)
{
  struct oplist L = { NULL, 0, 0 };
  struct op o;
  hwloc_obj_t *objs; unsigned nobjs = canon_walk(t, &objs);
  hwloc_obj_t root = hwloc_get_root_obj(t);
  uint64_t pu = ops_bitmap_to_mask(root->cpuset), numa = ops_bitmap_to_mask(root->nodeset);
  uint64_t ccpu = ops_bitmap_to_mask(root->complete_cpuset), cnuma = ops_bitmap_to_mask(root->complete_nodeset);
  /* masks of normal objects */
  uint64_t objc[256], objn[256]; int noc = 0, non = 0;
  uint64_t pairc[256], pairn[256]; int npair = 0;   /* (cpuset, nodeset) of one object: compatible by construction */
  for (unsigned i = 0; i < nobjs; i++) if (objs[i]->cpuset && objs[i]->type != HWLOC_OBJ_NUMANODE && objs[i]->type != HWLOC_OBJ_MEMCACHE) {
    push_unique_mask(objc, &noc, 256, ops_bitmap_to_mask(objs[i]->cpuset));
    push_unique_mask(objn, &non, 256, ops_bitmap_to_mask(objs[i]->nodeset));
    if (npair < 256 && objs[i]->parent) { pairc[npair] = ops_bitmap_to_mask(objs[i]->cpuset); pairn[npair] = ops_bitmap_to_mask(objs[i]->nodeset); npair++; }
  }
  uint64_t csets[600], nsets[600];
  int ncs = candidate_sets(pu, objc, noc, sc->max_subset_bits, csets, 600);
  int nns = candidate_sets(numa, objn, non, sc->max_subset_bits, nsets, 600);

  if (sc->classes & OPC_RESTRICT) {
    static const unsigned long REDUCED[] = { 0, HWLOC_RESTRICT_FLAG_REMOVE_CPULESS, HWLOC_RESTRICT_FLAG_ADAPT_MISC | HWLOC_RESTRICT_FLAG_ADAPT_IO,
                                             HWLOC_RESTRICT_FLAG_REMOVE_CPULESS | HWLOC_RESTRICT_FLAG_ADAPT_MISC | HWLOC_RESTRICT_FLAG_ADAPT_IO,
                                             HWLOC_RESTRICT_FLAG_BYNODESET, HWLOC_RESTRICT_FLAG_BYNODESET | HWLOC_RESTRICT_FLAG_REMOVE_MEMLESS,
                                             HWLOC_RESTRICT_FLAG_BYNODESET | HWLOC_RESTRICT_FLAG_REMOVE_MEMLESS | HWLOC_RESTRICT_FLAG_ADAPT_MISC | HWLOC_RESTRICT_FLAG_ADAPT_IO };
    unsigned long fl[40]; int nfl = 0;
    if (sc->all_restrict_flags) for (unsigned long f = 0; f < 32; f++) fl[nfl++] = f;
    else for (unsigned i = 0; i < sizeof(REDUCED) / sizeof(REDUCED[0]); i++) { if (sc->lean && (i == 1 || i == 2 || i == 6)) continue; fl[nfl++] = REDUCED[i]; }
    for (int f = 0; f < nfl; f++) {
      int bynode = !!(fl[f] & HWLOC_RESTRICT_FLAG_BYNODESET);
      const uint64_t *S = bynode ? nsets : csets; int nS = bynode ? nns : ncs;
      for (int i = 0; i < nS; i++) {
        /* the full set is a no-op restrict: keep it once per flag word, it exercises the "nothing to do" path */
        memset(&o, 0, sizeof(o)); o.kind = OP_RESTRICT; o.flags = fl[f]; o.set = S[i]; push(&L, &o);
      }
      /* superset (infinite), superset with an unknown index, disjoint set */
      memset(&o, 0, sizeof(o)); o.kind = OP_RESTRICT; o.flags = fl[f]; o.set = bynode ? numa : pu; o.tail = 1; push(&L, &o);
      if (nS > 2) { o.set = S[nS / 2]; o.tail = 2; push(&L, &o); o.tail = 1; push(&L, &o); }
      o.tail = 0; o.set = ~(bynode ? cnuma : ccpu) & 0xff00000000000000ULL; push(&L, &o);
    }
    /* invalid words: once per state */
    memset(&o, 0, sizeof(o)); o.kind = OP_RESTRICT; o.set = pu; o.flags = 1UL << 5; push(&L, &o);
    o.flags = HWLOC_RESTRICT_FLAG_BYNODESET | HWLOC_RESTRICT_FLAG_REMOVE_CPULESS; o.set = numa; push(&L, &o);
    o.flags = HWLOC_RESTRICT_FLAG_REMOVE_MEMLESS; o.set = pu; push(&L, &o);
  }
  if (sc->classes & OPC_MISC) {
    for (unsigned i = 0; i < nobjs; i++) for (int nm = 0; nm < 2; nm++) {
      if (!sc->rich && nm == 0 && i > 0) continue;      /* NULL name once */
      if (sc->lean && !(i == 0 || i == nobjs - 1 || objs[i]->type == HWLOC_OBJ_NUMANODE || (objs[i]->type == HWLOC_OBJ_PU && objs[i]->logical_index == 0) || !objs[i]->cpuset)) continue;
      memset(&o, 0, sizeof(o)); o.kind = OP_MISC; o.a = (int)objs[i]->gp_index; o.b = nm; push(&L, &o);
    }
  }
  if (sc->classes & OPC_GROUP) {
    uint64_t gs[700]; int ngs = 0;
    for (int i = 0; i < noc; i++) push_unique_mask(gs, &ngs, 700, objc[i]);
    /* unions of two siblings */
    for (unsigned i = 0; i < nobjs; i++) for (hwloc_obj_t c = objs[i]->first_child; c && c->next_sibling; c = c->next_sibling) {
      push_unique_mask(gs, &ngs, 700, ops_bitmap_to_mask(c->cpuset) | ops_bitmap_to_mask(c->next_sibling->cpuset));
      if (c->next_sibling->next_sibling) push_unique_mask(gs, &ngs, 700, ops_bitmap_to_mask(c->cpuset) | ops_bitmap_to_mask(c->next_sibling->next_sibling->cpuset));
    }
    /* conflicting sets: one PU of each of the first two multi-PU objects; first and last PU */
    if (__builtin_popcountll(pu) >= 3) { uint64_t lo = pu & -pu, hi = 1ULL << (63 - __builtin_clzll(pu)); push_unique_mask(gs, &ngs, 700, lo | hi); }
    for (int i = 0; i < noc; i++) for (int j = i + 1; j < noc; j++) {
      uint64_t a = objc[i], b = objc[j];
      if (!(a & b) && __builtin_popcountll(a) >= 2 && __builtin_popcountll(b) >= 2) { push_unique_mask(gs, &ngs, 700, (a & -a) | (b & -b)); goto conflicts_done; }
    }
  conflicts_done:
    /* conflicting sets that adopt children before the conflict is met: two whole children of one parent (adjacent or not)
     * plus one PU of a later multi-PU child, and the mirror image (one PU of an earlier child plus two later children):
     * the rejected insertion has to put the adopted children back where they were */
    for (unsigned i = 0; i < nobjs; i++) {
      hwloc_obj_t ch[8]; int nch = 0;
      for (hwloc_obj_t c = objs[i]->first_child; c && nch < 8; c = c->next_sibling) ch[nch++] = c;
      int added = 0;
      for (int a = 0; a < nch && added < 6; a++) for (int b = a + 1; b < nch && added < 6; b++) for (int m = 0; m < nch && added < 6; m++) {
        if (m == a || m == b || (m > a && m < b)) continue;
        uint64_t ma = ops_bitmap_to_mask(ch[a]->cpuset), mb = ops_bitmap_to_mask(ch[b]->cpuset), mm = ops_bitmap_to_mask(ch[m]->cpuset);
        if (__builtin_popcountll(mm) < 2 || !ma || !mb) continue;
        { int before = ngs; push_unique_mask(gs, &ngs, 700, ma | mb | (mm & -mm)); if (ngs > before) added++; }
      }
    }
    for (int i = 0; i < ngs; i++) for (int dm = 0; dm < 2; dm++) for (int kd = 0; kd < (sc->rich ? 3 : 2); kd++) {
      if (sc->lean && dm == 0 && kd == 1) continue;
      memset(&o, 0, sizeof(o)); o.kind = OP_GROUP; o.c = 1; o.set = gs[i]; o.b = dm; o.a = kd == 0 ? 0 : kd == 1 ? 7 : -1 /* 0xffffffff */; o.d = kd; push(&L, &o);
    }
    /* nodeset-only groups, both sets, empty, superset of root, complete_cpuset only */
    for (int i = 0; i < non && i < 8; i++) { memset(&o, 0, sizeof(o)); o.kind = OP_GROUP; o.c = 2; o.set2 = objn[i]; push(&L, &o); o.b = 1; push(&L, &o); }
    /* both sets, only compatible ones (documented precondition): the two sets of one existing object */
    for (int i = 0; i < npair && i < 4; i++) { memset(&o, 0, sizeof(o)); o.kind = OP_GROUP; o.c = 3; o.set = pairc[i]; o.set2 = pairn[i]; o.b = i & 1; push(&L, &o); }
    memset(&o, 0, sizeof(o)); o.kind = OP_GROUP; o.c = 1; o.set = 0; push(&L, &o);           /* empty cpuset */
    o.c = 0; push(&L, &o);                                                                   /* no set at all */
    o.c = 1; o.set = pu | (1ULL << 62); push(&L, &o);                                        /* larger than the topology */
    if (noc > 1) { o.c = 4; o.set = objc[1]; push(&L, &o); }                                  /* complete_cpuset only */
    memset(&o, 0, sizeof(o)); o.kind = OP_GROUP_FREE; push(&L, &o);
  }
  if (sc->classes & OPC_ALLOW) {
    memset(&o, 0, sizeof(o)); o.kind = OP_ALLOW; o.flags = HWLOC_ALLOW_FLAG_ALL; push(&L, &o);
    o.flags = HWLOC_ALLOW_FLAG_LOCAL_RESTRICTIONS; push(&L, &o);
    o.flags = HWLOC_ALLOW_FLAG_ALL | HWLOC_ALLOW_FLAG_CUSTOM; push(&L, &o);       /* two flags: invalid */
    o.flags = 0; push(&L, &o); o.flags = 1UL << 3; push(&L, &o);
    o.flags = HWLOC_ALLOW_FLAG_ALL; o.c = 1; o.set = pu; push(&L, &o);            /* ALL with a set: invalid */
    for (int i = 0; i < ncs && i < (sc->rich ? 64 : 6); i++) { memset(&o, 0, sizeof(o)); o.kind = OP_ALLOW; o.flags = HWLOC_ALLOW_FLAG_CUSTOM; o.c = 1; o.set = csets[i]; push(&L, &o); }
    for (int i = 0; i < nns && i < (sc->rich ? 16 : 4); i++) { memset(&o, 0, sizeof(o)); o.kind = OP_ALLOW; o.flags = HWLOC_ALLOW_FLAG_CUSTOM; o.c = 2; o.set2 = nsets[i]; push(&L, &o); }
    memset(&o, 0, sizeof(o)); o.kind = OP_ALLOW; o.flags = HWLOC_ALLOW_FLAG_CUSTOM; o.c = 3; o.set = pu & -pu; o.set2 = numa & -numa; push(&L, &o);
    o.c = 3; o.set = pu & -pu; o.set2 = 1ULL << 61; push(&L, &o);                  /* valid cpuset, nodeset outside the topology: EINVAL, nothing may change */
    o.c = 0; push(&L, &o);                                                        /* CUSTOM without any set */
    o.c = 1; o.set = 1ULL << 61; push(&L, &o);                                    /* CUSTOM with nothing of the topology */
  }
  if (sc->classes & OPC_DIST) {
    static const int KINDS[] = { HWLOC_DISTANCES_KIND_FROM_USER | HWLOC_DISTANCES_KIND_VALUE_LATENCY, HWLOC_DISTANCES_KIND_FROM_USER | HWLOC_DISTANCES_KIND_VALUE_BANDWIDTH,
                                 HWLOC_DISTANCES_KIND_FROM_OS | HWLOC_DISTANCES_KIND_VALUE_HOPS, 0, HWLOC_DISTANCES_KIND_VALUE_LATENCY | HWLOC_DISTANCES_KIND_VALUE_BANDWIDTH, 1 << 7 };
    for (int ob = 0; ob < 6; ob++) for (int mx = 0; mx < 4; mx++) {
      if (sc->lean && (mx == 2 || (ob >= 2 && mx))) continue;
      for (int k = 0; k < (sc->rich ? 6 : 1); k++) for (int fl = 0; fl < 4; fl++) {
        if (!sc->rich && fl == 3 && (ob || mx)) continue;
        if (!sc->rich && ob >= 3 && mx) continue;
        memset(&o, 0, sizeof(o)); o.kind = OP_DIST_ADD; o.a = ob; o.b = mx; o.c = KINDS[k]; o.d = (ob + mx) % 3;
        o.flags = fl == 0 ? 0 : fl == 1 ? HWLOC_DISTANCES_ADD_FLAG_GROUP : fl == 2 ? (HWLOC_DISTANCES_ADD_FLAG_GROUP | HWLOC_DISTANCES_ADD_FLAG_GROUP_INACCURATE) : (1UL << 4);
        push(&L, &o);
      }
    }
    if (!sc->rich) for (int k = 1; k < 6; k++) { memset(&o, 0, sizeof(o)); o.kind = OP_DIST_ADD; o.a = 0; o.b = 1; o.c = KINDS[k]; push(&L, &o); }
    memset(&o, 0, sizeof(o)); o.kind = OP_DIST_REMOVE; push(&L, &o);
    for (int d = 0; d < 3; d++) { memset(&o, 0, sizeof(o)); o.kind = OP_DIST_REMOVE_DEPTH; o.a = d; push(&L, &o); }
  }
  if (sc->classes & OPC_MEMATTR) {
    for (int nm = 0; nm < 3; nm++) for (unsigned long fl = 0; fl < 8; fl++) {
      if (!sc->rich && nm && !(fl == 1 || fl == 6)) continue;
      memset(&o, 0, sizeof(o)); o.kind = OP_MEMATTR_REG; o.a = nm; o.flags = fl; push(&L, &o);
    }
    for (int at = 0; at < 4; at++) for (int tg = 0; tg < 3; tg++) for (int in = 0; in < 4; in++) {
      if (!sc->rich && (tg == 2 || in == 3) && at != 2) continue;
      if (sc->lean && at == 1) continue;
      memset(&o, 0, sizeof(o)); o.kind = OP_MEMATTR_SET; o.a = at; o.b = tg; o.c = in; o.d = 1 + (at + tg + in) % 3; push(&L, &o);
    }
  }
  if (sc->classes & OPC_CPUKIND) {
    int lim = sc->rich ? 16 : 5;
    for (int i = 0; i < ncs && i < lim; i++) for (int e = -1; e < 2; e++) {
      if (!sc->rich && e == 0) continue;
      memset(&o, 0, sizeof(o)); o.kind = OP_CPUKIND_REG; o.set = csets[i]; o.a = e; o.b = (i + e + 1) % 3; push(&L, &o);
    }
    memset(&o, 0, sizeof(o)); o.kind = OP_CPUKIND_REG; o.set = pu; o.a = -1; o.flags = 1; push(&L, &o);   /* non-zero flags */
    o.flags = 0; o.set = 1ULL << 60; push(&L, &o);                                                        /* outside the topology */
    o.b = 9; push(&L, &o);                                                                                /* NULL cpuset */
  }
  if (sc->classes & OPC_INFO) {
    for (unsigned i = 0; i < nobjs; i++) {
      if (!sc->rich && i > 2 && i != nobjs - 1) continue;
      if (sc->lean && i > 0 && i != nobjs - 1) continue;
      for (int v = 0; v < 6; v++) { memset(&o, 0, sizeof(o)); o.kind = OP_INFO; o.a = (int)objs[i]->gp_index; o.b = v; push(&L, &o); }
      for (int v = 0; v < 2; v++) { memset(&o, 0, sizeof(o)); o.kind = OP_SUBTYPE; o.a = (int)objs[i]->gp_index; o.b = v; push(&L, &o); }
    }
  }
  if (sc->classes & OPC_REFRESH) { memset(&o, 0, sizeof(o)); o.kind = OP_REFRESH; push(&L, &o); }
  free(objs);
  *outp = L.v;
  return L.n;
}

/* ------------------------------------------------------------------ application */
static unsigned pick_objs(hwloc_topology_t t, int code, hwloc_obj_t *out, unsigned max)
{
  unsigned n = 0;
  int depth;
  switch (code) {
  case 0: depth = hwloc_get_type_depth(t, HWLOC_OBJ_PU); break;
  case 1: depth = HWLOC_TYPE_DEPTH_NUMANODE; break;
  case 2: depth = hwloc_topology_get_depth(t) > 2 ? hwloc_topology_get_depth(t) - 2 : 0; break;
  case 3: { /* mixed: first two PUs + first NUMA node */
    hwloc_obj_t a = hwloc_get_obj_by_type(t, HWLOC_OBJ_PU, 0), b = hwloc_get_obj_by_type(t, HWLOC_OBJ_PU, 1), c = hwloc_get_obj_by_type(t, HWLOC_OBJ_NUMANODE, 0);
    if (a) out[n++] = a; if (b) out[n++] = b; if (c) out[n++] = c; return n; }
  case 4: { /* a single object: invalid (< 2) */
    out[n++] = hwloc_get_obj_by_type(t, HWLOC_OBJ_PU, 0); return n; }
  case 5: { /* I/O or Misc objects if any, else depth 1 */
    unsigned k = hwloc_get_nbobjs_by_depth(t, HWLOC_TYPE_DEPTH_OS_DEVICE);
    if (k >= 2) { for (unsigned i = 0; i < k && n < max; i++) out[n++] = hwloc_get_obj_by_depth(t, HWLOC_TYPE_DEPTH_OS_DEVICE, i); return n; }
    depth = hwloc_topology_get_depth(t) > 2 ? 1 : 0; break; }
  default: return 0;
  }
  unsigned w = hwloc_get_nbobjs_by_depth(t, depth);
  for (unsigned i = 0; i < w && n < max; i++) out[n++] = hwloc_get_obj_by_depth(t, depth, i);
  return n;
}

static void fill_matrix(int pattern, unsigned n, hwloc_uint64_t *v)
{
  for (unsigned i = 0; i < n; i++) for (unsigned j = 0; j < n; j++) {
    hwloc_uint64_t x;
    switch (pattern) {
    case 0: x = i == j ? 10 : 20; break;                                         /* flat */
    case 1: x = i == j ? 10 : ((i * 2 / n) == (j * 2 / n) ? 20 : 40); break;     /* two clusters */
    case 2: x = i == j ? 10 : (i / 2 == j / 2 ? 20 : ((i * 2 / n) == (j * 2 / n) ? 30 : 50)); break;  /* two-level clusters */
    default: x = 10 + i * 7 + j * 3; break;                                      /* asymmetric, all distinct */
    }
    v[i * n + j] = x;
  }
}

static const char *MEMATTR_NAMES[] = { "VerifA", "VerifB", "Capacity" };
static const char *DIST_NAMES[] = { NULL, "da", "db" };

void op_apply(hwloc_topology_t t, const struct op *o, struct opres *r)
{
  memset(r, 0, sizeof(*r));
  r->applicable = 1;
  errno = 0;
  switch (o->kind) {
  case OP_RESTRICT: {
    hwloc_bitmap_t s = ops_mask_to_bitmap(o->set, o->tail);
    r->rc = hwloc_topology_restrict(t, s, o->flags); r->err = errno;
    if (r->rc < 0 && r->err == EINVAL) r->must_be_unchanged = 1;
    hwloc_bitmap_free(s);
    break; }
  case OP_MISC: {
    hwloc_obj_t p = ops_obj_by_gp(t, (hwloc_uint64_t)o->a);
    if (!p) { r->applicable = 0; break; }
    hwloc_obj_t m = hwloc_topology_insert_misc_object(t, p, o->b ? "m" : NULL); r->err = errno;
    r->rc = m ? 0 : -1;
    if (!m) r->must_be_unchanged = 1;
    break; }
  case OP_GROUP: {
    hwloc_obj_t g = hwloc_topology_alloc_group_object(t);
    if (!g) { r->rc = -1; r->err = errno; r->must_be_unchanged = 1; break; }
    if (o->c & 1) { g->cpuset = ops_mask_to_bitmap(o->set, 0); }
    if (o->c & 2) { g->nodeset = ops_mask_to_bitmap(o->set2, 0); }
    if (o->c & 4) { g->complete_cpuset = ops_mask_to_bitmap(o->set, 0); }
    g->attr->group.dont_merge = (unsigned char)o->b;
    g->attr->group.kind = (unsigned)o->a; g->attr->group.subkind = (unsigned)o->d;
    hwloc_obj_t res = hwloc_topology_insert_group_object(t, g); r->err = errno;
    r->rc = res ? 0 : -1;
    if (!res) r->must_be_unchanged = 1;
    break; }
  case OP_GROUP_FREE: {
    hwloc_obj_t g = hwloc_topology_alloc_group_object(t);
    if (!g) { r->rc = -1; r->err = errno; break; }
    g->cpuset = ops_mask_to_bitmap(1, 0);
    r->rc = hwloc_topology_free_group_object(t, g); r->err = errno;
    r->must_be_unchanged = 1;   /* alloc + free never shows */
    break; }
  case OP_ALLOW: {
    hwloc_bitmap_t c = (o->c & 1) ? ops_mask_to_bitmap(o->set, 0) : NULL, n = (o->c & 2) ? ops_mask_to_bitmap(o->set2, 0) : NULL;
    r->rc = hwloc_topology_allow(t, c, n, o->flags); r->err = errno;
    if (r->rc < 0 && r->err == EINVAL) r->must_be_unchanged = 1;
    hwloc_bitmap_free(c); hwloc_bitmap_free(n);
    break; }
  case OP_DIST_ADD: {
    hwloc_obj_t objs[64]; unsigned n = pick_objs(t, o->a, objs, 16);
    hwloc_uint64_t *vals = malloc((n ? n * n : 1) * sizeof(*vals));
    fill_matrix(o->b, n, vals);
    hwloc_distances_add_handle_t h = hwloc_distances_add_create(t, DIST_NAMES[o->d % 3], (unsigned long)o->c, 0);
    if (!h) { r->rc = -1; r->err = errno; r->must_be_unchanged = 1; free(vals); break; }
    if (hwloc_distances_add_values(t, h, n, objs, vals, 0) < 0) { r->rc = -1; r->err = errno; r->must_be_unchanged = 1; free(vals); break; }
    r->rc = hwloc_distances_add_commit(t, h, o->flags); r->err = errno;
    if (r->rc < 0 && r->err == EINVAL) r->must_be_unchanged = 1;
    free(vals);
    break; }
  case OP_DIST_REMOVE: r->rc = hwloc_distances_remove(t); r->err = errno; break;
  case OP_DIST_REMOVE_DEPTH: {
    int d = o->a == 0 ? hwloc_get_type_depth(t, HWLOC_OBJ_PU) : o->a == 1 ? HWLOC_TYPE_DEPTH_NUMANODE : 1;
    r->rc = hwloc_distances_remove_by_depth(t, d); r->err = errno;
    break; }
  case OP_MEMATTR_REG: {
    hwloc_memattr_id_t id;
    r->rc = hwloc_memattr_register(t, MEMATTR_NAMES[o->a], o->flags, &id); r->err = errno;
    if (r->rc < 0) r->must_be_unchanged = 1;
    break; }
  case OP_MEMATTR_SET: {
    hwloc_memattr_id_t id;
    /* attr: 0/1 custom by name (may not exist), 2 Bandwidth, 3 Capacity (read-only) */
    if (o->a < 2) { if (hwloc_memattr_get_by_name(t, MEMATTR_NAMES[o->a], &id) < 0) { r->applicable = 0; break; } }
    else id = o->a == 2 ? HWLOC_MEMATTR_ID_BANDWIDTH : HWLOC_MEMATTR_ID_CAPACITY;
    hwloc_obj_t tg = o->b < 2 ? hwloc_get_obj_by_type(t, HWLOC_OBJ_NUMANODE, (unsigned)o->b) : hwloc_get_obj_by_type(t, HWLOC_OBJ_PU, 0);
    if (!tg) { r->applicable = 0; break; }
    struct hwloc_location loc, *lp = &loc;
    hwloc_bitmap_t is = NULL;
    hwloc_obj_t root = hwloc_get_root_obj(t);
    if (o->c == 0) lp = NULL;
    else if (o->c == 1) { loc.type = HWLOC_LOCATION_TYPE_CPUSET; is = hwloc_bitmap_dup(root->cpuset); loc.location.cpuset = is; }
    else if (o->c == 2) { loc.type = HWLOC_LOCATION_TYPE_CPUSET; is = hwloc_bitmap_alloc(); hwloc_bitmap_set(is, (unsigned)hwloc_bitmap_first(root->cpuset)); loc.location.cpuset = is; }
    else { loc.type = HWLOC_LOCATION_TYPE_OBJECT; loc.location.object = hwloc_get_obj_by_type(t, HWLOC_OBJ_PU, 0); }
    r->rc = hwloc_memattr_set_value(t, id, tg, lp, 0, (hwloc_uint64_t)o->d * 100); r->err = errno;
    if (r->rc < 0) r->must_be_unchanged = 1;
    hwloc_bitmap_free(is);
    break; }
  case OP_CPUKIND_REG: {
    hwloc_bitmap_t s = o->b == 9 ? NULL : ops_mask_to_bitmap(o->set, 0);
    struct hwloc_infos_s infos; struct hwloc_info_s arr[2];
    memset(&infos, 0, sizeof(infos));
    arr[0].name = (char *)"CoreType"; arr[0].value = (char *)(o->b == 1 ? "Big" : "Small"); arr[1].name = (char *)"VerifKind"; arr[1].value = (char *)"x";
    infos.array = arr; infos.count = o->b == 0 ? 0 : o->b == 1 ? 1 : 2; infos.allocated = 2;
    r->rc = hwloc_cpukinds_register(t, s, o->a, o->b == 0 ? NULL : &infos, o->flags); r->err = errno;
    if (r->rc < 0) r->must_be_unchanged = 1;
    hwloc_bitmap_free(s);
    break; }
  case OP_INFO: {
    hwloc_obj_t p = ops_obj_by_gp(t, (hwloc_uint64_t)o->a);
    if (!p) { r->applicable = 0; break; }
    switch (o->b) {
    case 0: r->rc = hwloc_obj_add_info(p, "VerifInfo", "v1"); break;
    case 1: r->rc = hwloc_modify_infos(&p->infos, HWLOC_MODIFY_INFOS_OP_ADD_UNIQUE, "VerifInfo", "v1"); break;
    case 2: r->rc = hwloc_modify_infos(&p->infos, HWLOC_MODIFY_INFOS_OP_REPLACE, "VerifInfo", "v2"); break;
    case 3: r->rc = hwloc_modify_infos(&p->infos, HWLOC_MODIFY_INFOS_OP_REMOVE, "VerifInfo", NULL); break;
    case 4: r->rc = hwloc_modify_infos(&p->infos, HWLOC_MODIFY_INFOS_OP_REMOVE, NULL, NULL); break;
    default: r->rc = hwloc_modify_infos(hwloc_topology_get_infos(t), HWLOC_MODIFY_INFOS_OP_ADD, "VerifTopoInfo", "t"); break;
    }
    r->err = errno; if (r->rc > 0) r->rc = 0;
    break; }
  case OP_SUBTYPE: {
    hwloc_obj_t p = ops_obj_by_gp(t, (hwloc_uint64_t)o->a);
    if (!p) { r->applicable = 0; break; }
    r->rc = hwloc_obj_set_subtype(t, p, o->b ? "VerifSub" : NULL); r->err = errno;
    break; }
  case OP_REFRESH: r->rc = hwloc_topology_refresh(t); r->err = errno; break;
  default: r->applicable = 0; break;
  }
}
