/* mcsched - stateless model checking of real threads (C17).
 *
 *  - a cooperative scheduler: the worker threads are real pthreads, exactly one runs at a time,
 *    control changes hands only at scheduling points;
 *  - scheduling points without source hooks: pthread_mutex_lock/unlock are interposed (modelled
 *    mutexes), and every access to the library's global variables traps (their sections are
 *    renamed at build time so that they form one page-aligned region, kept PROT_NONE while a
 *    schedule runs; the faulting instruction is single-stepped with the x86 trap flag and the page is
 *    protected again).  An access made while holding no modelled mutex is a scheduling point;
 *  - a happens-before race detector over those accesses (vector clocks, mutex release/acquire
 *    and thread start edges);
 *  - read-only regions (the shared topology, duplicated into an arena): any store is reported
 *    with the storing instruction;
 *  - a depth-first explorer over choice sequences with a preemption bound (iterative context
 *    bounding): every schedule with at most `bound` preemptions is executed.
 */
#ifndef MCSCHED_H
#define MCSCHED_H
#include <stdint.h>
#include <stddef.h>

#define MCS_MAXT 4

typedef void (*mcs_body_fn)(int tid, void *arg);
typedef void (*mcs_hook_fn)(void *arg);

struct mcs_cfg {
  int nthreads;
  mcs_body_fn body;        /* runs in worker thread tid under the scheduler */
  mcs_hook_fn before;      /* main thread, before the workers start (globals already reset), may be NULL */
  mcs_hook_fn after;       /* main thread, after all workers finished (globals accessible), may be NULL */
  void *arg;
  int bound;               /* preemption bound */
  uint64_t max_executions; /* 0 = none; a cap makes the result non-exhaustive */
  double deadline_s;       /* wall-clock budget, 0 = none */
};

struct mcs_stats {
  uint64_t executions, points, max_points, accesses, preempting_executions;
  uint64_t races, readonly_writes, deadlocks;
  int capped;              /* max_executions or deadline hit */
  int bound_completed;     /* largest bound fully explored, -1 if none */
};

/* [lo,hi): the library's global variables (page aligned) */
void mcs_init(void *glob_lo, void *glob_hi);
/* a region that must never be written while workers run (page aligned); returns an id */
int mcs_readonly_region(void *lo, size_t len, const char *name);
void mcs_readonly_clear(void);

/* reports: the harness turns them into violations */
struct mcs_report { const char *kind; /* "race", "readonly-write", "deadlock", "crash" */ char what[400]; char schedule[400]; };
typedef void (*mcs_report_fn)(const struct mcs_report *r);
void mcs_set_reporter(mcs_report_fn fn);

/* explores every schedule with at most cfg->bound preemptions (bounds 0..bound in turn) */
void mcs_explore(const struct mcs_cfg *cfg, struct mcs_stats *st);
/* replays one schedule ("1.0.2": the choice taken at each scheduling point where more than one thread was enabled) */
void mcs_replay(const struct mcs_cfg *cfg, const char *schedule, struct mcs_stats *st);

/* symbol (or symbol+offset) of an address inside the executable, for reports */
const char *mcs_symbol(uintptr_t addr, char *buf, size_t n);
/* address of a symbol of the executable (statics included), NULL if there is none of that name */
void *mcs_symbol_addr(const char *name);
/* the globals written during executions so far (for evidence) */
int mcs_written_globals(char *buf, size_t n);

#endif
