#!/usr/bin/env python3
"""Regenerates sections 8 (defects: fixed / findings, from KNOWN_FINDINGS.txt) and 9 (seeded changes, from seeded/*/meta.json)
of DESIGN.md.  The prose around the tables lives here."""
import re, json, os
VERIF = os.path.dirname(os.path.dirname(os.path.abspath(__file__)))
p = os.path.join(VERIF, 'DESIGN.md'); s = open(p).read()
fixed = []; findings = []
for l in open(os.path.join(VERIF, 'KNOWN_FINDINGS.txt')):
    l = l.rstrip('\n')
    m = re.match(r'fixed:\s+property=(\S+)\s+(\S+)\s+(.*)', l)
    if m: fixed.append(m.groups()); continue
    m = re.match(r'finding:\s+property=(\S+)\s+key=(\S+)\s+(.*)', l)
    if m: findings.append(m.groups())
cell = lambda t: t.replace('|', '\\|')
ncommits = len(set(c for (_, c, _) in fixed))
sec8 = '''## 8. Defects established on the current tree

What the checks found on the unchanged tree, after triage (section 6.5). **%d defects were
repaired** (%d `fix:` commits in `/repo`, one small unguarded commit each; the repository's
test suite, unedited, passes after each: 174/174 `make check`); each is a `fixed:` line in
`KNOWN_FINDINGS.txt` (suppresses nothing: the check reports the violation again if it
returns). **%d violation keys are recorded as known findings** (`finding:` lines): defects
whose repair is not small and safe, or would change golden files of the test suite, or is
a design decision for the maintainers. Round-0 expectations that did not hold: the
"two-step restrict with KEEP_STRUCTURE" suspicion (old 8.9) turned out to be the missing
`return res` of `hwloc_filter_levels_keep_structure()` (fixed, found through the XML
round trip of fixture `chain.xml`); the process-wide `static checked` caches (old 8.15) are
now *observed* by the C17 model checker rather than read off the source. Three of the
repaired defects were pointed out by authors of seeded changes while they read the tree
(cpukinds allocated count, `hwloc_distances_release_remove` on adopted topologies) or were
exposed by an input added to catch a seeded change (`chain.xml`, the NO_MEMATTRS
configuration); each was first reproduced by the strengthened check. Rounds 5 and 6 added six:
the maintenance steps skipped under NO_DISTANCES / NO_MEMATTRS / NO_CPUKINDS (`1bb0db3`,
found when those flag variants joined C17's reader topologies), `hwloc_topology_refresh()`
storing into an adopted read-only mapping (`ad448c7`, pointed out by the author of a seeded
change, reproduced once refresh() was driven on adopted topologies) and the `dont_merge`
Group merged away by a restrict (`2859fdb`, a parent/child mix-up in
`hwloc_filter_levels_keep_structure()`; raised by the C08 clause added at the very end of the
previous session, seen as an alarm by `vp check`, triaged as a genuine defect); a fourth,
`hwloc_bitmap_singlify_per_core()` doing nothing when Cores sit at several depths (found by C09's
new depth-2 states); and a fifth, the built-in XML exporter ignoring the length given to
`hwloc_export_obj_userdata()` (pointed out by the author of a round-6 change, reproduced once C05's
userdata table had a slice shorter than its buffer); and a sixth, `hwloc_topology_load()` returning with
lazy refresh work pending when RESTRICT_TO_CPUBINDING / RESTRICT_TO_MEMBINDING made it restrict the
topology (also pointed out by an author, reproduced by a new reader variant of C17).

### 8.1 Repaired (`fix:` commits, in the order they were found)

| property | commit | what failed |
|---|---|---|
''' % (len(fixed), ncommits, len(findings))
for (pid, c, t) in fixed:
    sec8 += '| %s | `%s` | %s |\n' % (pid, c, cell(t))
sec8 += '''
### 8.2 Recorded, not repaired (`finding:` lines; the key is a glob on the violation key)

| property | key | what fails and why it is not repaired here |
|---|---|---|
'''
for (pid, k, t) in findings:
    sec8 += '| %s | `%s` | %s |\n' % (pid, cell(k), cell(t))
sec8 += '''
Also seen, outside the listed properties and therefore only noted:
`merge_insert_equal` stores `linesize`/`associativity` into `cache.size`;
`hwloc__tma_dup_infos` frees index `i` instead of `j` on its (allocation-failure) error
path; `hwloc_topology_get_default_nodeset` tests `isset(nodeset, i)` with an array
position instead of an os_index; `hwloc_linux_set_thisthread_membind` fills the from-mask
of `migrate_pages` with `memset(.., 0xf, ..)` (nodes 0-3 of every byte, not all nodes);
`hwloc_alloc_membind_by_nodeset` frees with `free()` a buffer that `hwloc_alloc()` may have
obtained from a hook; `hwloc_obj_set_subtype()` and `hwloc_obj_add_info()` have no way to
refuse an object of an adopted (read-only) topology.


'''
rows = []
sd = os.path.join(VERIF, 'seeded')
for n in sorted(os.listdir(sd)):
    mp = os.path.join(sd, n, 'meta.json')
    if not os.path.exists(mp): continue
    m = json.load(open(mp))
    keys = []
    for c, k in m['detected_by'].items(): keys += ['%s: %s' % (c, x) for x in k[:2]]
    rows.append((n, ', '.join(m['files']), '; '.join(keys) if keys else '**not detected**', m['note'] if m['note'] != 'detected by the check as it was' else ''))
ndet = sum(1 for r in rows if 'not detected' not in r[2])
sec9 = '''## 9. Demonstrating detection

**9.1 Seeded changes from fresh sub-agents.** Realistic property-breaking changes were
obtained, in six rounds, from sub-agents that were given *only the text of the property*
and a scratch git worktree of `/repo` (nothing from `/verif`; in rounds 2 and 3 also the
nicknames of the earlier changes, to push them towards other clauses; in rounds 4 and 5 the
request stressed changes that need something specific to manifest: a multi-step sequence, an
unusual input or configuration, state left behind by an earlier call, two cooperating sites),
and were asked for a change that compiles, passes the repository's test suite, breaks the
property only for something specific, with a demonstration. Each change was then **confirmed
independently** in the scratch worktree (`seeded/confirm.sh`: applied on the pristine tree,
built, `make -k check` = 174/174 with the change - one test, `test-gather-topology.sh`,
compares live memory counters and is flaky on the shared machine; where it failed it was
re-run alone with the change applied - demonstration output different on the two trees) and
kept as `seeded/<property>-<name>/` (patch.diff, the demonstration, the author's README,
confirm.log, detect.json, meta.json). The checks were run against each
(`seeded/run_against.py`: `git apply`, `./check <ID>`, `git checkout -- .`) on scratch
worktrees of `/repo` through `VERIF_REPO`, with a scratch copy of `/verif`, so that `/repo`
itself never held a seeded change while other checks were being built from it. In rounds 5 and
especially 6 (ten agents on the properties whose checks had just been strengthened) independent
agents converged on hunks that earlier rounds already had - 10 of the 17 changes of round 6 were
such repeats (`next_dist_id` not copied by dup, the `different_types` argument of the distances
compaction, the reverse flag of the rollback loop, the header size in `get_length` ...): those are
kept once; it also says that the plausible small mistakes around these functions are by now
largely enumerated.
**%d changes, %d detected by the quick tier; %d of them were missed at first and led to a
strengthening, %d more were caught because the check had been strengthened before it was first
run against them** (last column). Two changes are reported by the check of a neighbouring
property, as noted. The worktrees are removed; nothing of this was ever committed to `/repo`.

| change | files | violation keys reported (first two) | strengthening it caused |
|---|---|---|---|
''' % (len(rows), ndet, sum(1 for r in rows if r[3].startswith('missed at first')), sum(1 for r in rows if r[3].startswith('strengthened before')))
for r in rows: sec9 += '| %s | %s | %s | %s |\n' % tuple(cell(x) for x in r)
sec9 += '''
**9.2 The repaired defects are detection demonstrations too**: each `fix:` commit's parent
is a tree on which the corresponding check reports the violation named in 8.1 (that is how
they were found), and is silent after it.

**9.3 Sanity mutations made by hand** while building (applied to `/repo`, check run,
reverted): C14 `>=` -> `<=` in `hwloc__update_best_target` (reported); C10 dropping the
"covers the topology -> complete set" replacement in `hwloc_fix_cpubind` (missed by the
first set universe, reported after the universe was extended, 6.6).


'''
a = s.index('## 8. Defects established on the current tree'); b = s.index('## 10. What is out of reach')
s = s[:a] + sec8 + sec9 + s[b:]
open(p, 'w').write(s)
print("fixed lines", len(fixed), "commits", ncommits, "findings", len(findings), "seeded", len(rows), "detected", ndet)
