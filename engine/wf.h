/* Independent well-formedness checker (clauses of C01), public API + reference set model. */
#ifndef WF_H
#define WF_H
#include "hwloc.h"
#include "hwmc.h"
typedef void (*wf_report_fn)(void *ctx, const char *clause, const char *detail);
/* returns the number of failed clauses */
int wf_check(hwloc_topology_t t, wf_report_fn rep, void *ctx);
/* records failures as violations "<clause>@<where>" with the current case text */
int wf_check_mc(hwloc_topology_t t, const char *where);
/* hwloc_topology_check() as secondary oracle (assertions captured) */
int wf_builtin_check_mc(hwloc_topology_t t, const char *where);
#endif
