#define _GNU_SOURCE
#include "hwmc.h"
#include <signal.h>
#include <unistd.h>
#include <fcntl.h>
#include <time.h>
#include <sys/time.h>
#include <sys/mman.h>
#include <ctype.h>

#if defined(__has_feature)
# if __has_feature(address_sanitizer)
#  define MC_ASAN 1
# endif
#endif
#ifdef MC_ASAN
#include <sanitizer/asan_interface.h>
#include <sanitizer/lsan_interface.h>
#endif

/* ------------------------------------------------------------------ strbuf */
void sb_init(struct sb *b) { b->cap = 256; b->s = malloc(b->cap); b->len = 0; b->s[0] = 0; }
void sb_reset(struct sb *b) { b->len = 0; if (b->s) b->s[0] = 0; }
void sb_free(struct sb *b) { free(b->s); b->s = NULL; b->len = b->cap = 0; }
static void sb_need(struct sb *b, size_t n)
{
  if (b->len + n + 1 > b->cap) {
    while (b->len + n + 1 > b->cap) b->cap *= 2;
    b->s = realloc(b->s, b->cap);
    if (!b->s) { fprintf(stderr, "hwmc: out of memory\n"); _exit(2); }
  }
}
void sb_putc(struct sb *b, char c) { sb_need(b, 1); b->s[b->len++] = c; b->s[b->len] = 0; }
void sb_putn(struct sb *b, const char *s, size_t n) { sb_need(b, n); memcpy(b->s + b->len, s, n); b->len += n; b->s[b->len] = 0; }
void sb_puts(struct sb *b, const char *s) { sb_putn(b, s, strlen(s)); }
void sb_printf(struct sb *b, const char *fmt, ...)
{
  va_list ap; int n;
  va_start(ap, fmt);
  sb_need(b, 128);
  n = vsnprintf(b->s + b->len, b->cap - b->len, fmt, ap);
  va_end(ap);
  if (n < 0) return;
  if ((size_t)n >= b->cap - b->len) {
    sb_need(b, (size_t)n + 1);
    va_start(ap, fmt);
    vsnprintf(b->s + b->len, b->cap - b->len, fmt, ap);
    va_end(ap);
  }
  b->len += (size_t)n;
}
void sb_put_escaped(struct sb *b, const char *s)
{
  if (!s) { sb_puts(b, "<null>"); return; }
  sb_putc(b, '"');
  for (; *s; s++) {
    unsigned char c = (unsigned char)*s;
    if (c == '"' || c == '\\') { sb_putc(b, '\\'); sb_putc(b, (char)c); }
    else if (c < 0x20 || c >= 0x7f) sb_printf(b, "\\x%02x", c);
    else sb_putc(b, (char)c);
  }
  sb_putc(b, '"');
}
char *sb_steal(struct sb *b) { char *s = b->s; b->s = NULL; b->len = b->cap = 0; return s; }

/* ------------------------------------------------------------------ hashing */
uint64_t mc_hash(const void *p, size_t n)
{
  const unsigned char *s = p; uint64_t h = 0xcbf29ce484222325ULL;
  for (size_t i = 0; i < n; i++) { h ^= s[i]; h *= 0x100000001b3ULL; }
  return h;
}
static uint64_t mc_hash2(const void *p, size_t n)
{
  const unsigned char *s = p; uint64_t h = 0x9e3779b97f4a7c15ULL;
  for (size_t i = 0; i < n; i++) { h = (h ^ s[i]) * 0xff51afd7ed558ccdULL; h ^= h >> 29; }
  return h | 1; /* never 0: 0 marks an empty slot together with h1 == 0 */
}
void strset_init(struct strset *s) { s->cap = 1024; s->n = 0; s->h1 = calloc(s->cap, 8); s->h2 = calloc(s->cap, 8); }
void strset_free(struct strset *s) { free(s->h1); free(s->h2); s->h1 = s->h2 = NULL; s->cap = s->n = 0; }
static int strset_put(struct strset *s, uint64_t a, uint64_t b, int add)
{
  size_t m = s->cap - 1, i = (size_t)a & m;
  while (s->h2[i]) {
    if (s->h1[i] == a && s->h2[i] == b) return 0;
    i = (i + 1) & m;
  }
  if (!add) return 1;
  s->h1[i] = a; s->h2[i] = b; s->n++;
  return 1;
}
int strset_add(struct strset *s, const char *key, size_t len)
{
  uint64_t a = mc_hash(key, len), b = mc_hash2(key, len);
  if ((s->n + 1) * 2 > s->cap) {
    struct strset o = *s; s->cap = o.cap * 2; s->n = 0;
    s->h1 = calloc(s->cap, 8); s->h2 = calloc(s->cap, 8);
    for (size_t i = 0; i < o.cap; i++) if (o.h2[i]) strset_put(s, o.h1[i], o.h2[i], 1);
    free(o.h1); free(o.h2);
  }
  return strset_put(s, a, b, 1);
}
int strset_has(struct strset *s, const char *key, size_t len)
{
  return !strset_put(s, mc_hash(key, len), mc_hash2(key, len), 0);
}

/* ------------------------------------------------------------------ context */
struct mc_ctx MC;
static int g_argc; static char **g_argv;
static double g_start;
static char *g_progress;          /* MAP_SHARED page */
#define PROGRESS_SIZE 16384
static char g_case[PROGRESS_SIZE];
static int g_fatal_fd = -1;
static int g_silent;

#define MAXCOUNTERS 256
static struct { char *name; uint64_t v; int ismax; } g_cnt[MAXCOUNTERS];
static int g_ncnt;
#define MAXSAMPLES 12
static char *g_samples[MAXSAMPLES]; static int g_nsamples;
#define MAXVIOL 400
static struct { char *key; uint64_t count; char *text[2]; } g_viol[MAXVIOL];
#define MAXOUTCLS 32
#define MAXOUTSTR 200
static struct { char *cls; struct strset set; char *strs[MAXOUTSTR]; int nstrs; } g_out[MAXOUTCLS];
static int g_nout;
#define MAXNOTES 40
static char *g_notes[MAXNOTES]; static int g_nnotes;

double mc_now(void) { struct timespec ts; clock_gettime(CLOCK_MONOTONIC, &ts); return ts.tv_sec + ts.tv_nsec * 1e-9; }

const char *mc_opt(const char *name)
{
  for (int i = 1; i + 1 < g_argc; i++)
    if (g_argv[i][0] == '-' && g_argv[i][1] == '-' && !strcmp(g_argv[i] + 2, name))
      return g_argv[i + 1];
  return NULL;
}

static void mc_install_handlers(void);

void mc_init(int argc, char **argv, const char *prop)
{
  const char *v;
  g_argc = argc; g_argv = argv;
  memset(&MC, 0, sizeof(MC));
  MC.prop = prop;
  MC.nparts = 1;
  if ((v = mc_opt("tier"))) MC.thorough = !strcmp(v, "thorough");
  if ((v = mc_opt("part"))) sscanf(v, "%d/%d", &MC.part, &MC.nparts);
  if ((v = mc_opt("seed"))) MC.seed = atol(v);
  if ((v = mc_opt("deadline"))) MC.deadline_s = atof(v);
  MC.only = mc_opt("only");
  MC.outpath = mc_opt("out");
  if (MC.outpath) { char fp[1200]; snprintf(fp, sizeof(fp), "%s.fatal", MC.outpath); g_fatal_fd = open(fp, O_WRONLY | O_CREAT | O_TRUNC, 0644); }
  g_start = mc_now();
  setvbuf(stdout, NULL, _IONBF, 0);
  if ((v = mc_opt("progress"))) {
    int fd = open(v, O_RDWR | O_CREAT | O_TRUNC, 0644);
    if (fd >= 0 && ftruncate(fd, PROGRESS_SIZE) == 0) {
      g_progress = mmap(NULL, PROGRESS_SIZE, PROT_READ | PROT_WRITE, MAP_SHARED, fd, 0);
      if (g_progress == MAP_FAILED) g_progress = NULL;
    }
    if (fd >= 0) close(fd);
  }
  mc_install_handlers();
}

int mc_mine(uint64_t index) { return (int)(index % (uint64_t)MC.nparts) == MC.part; }

int mc_deadline(void)
{
  if (MC.deadline_hit) return 1;
  if (MC.deadline_s > 0 && mc_now() - g_start > MC.deadline_s) { MC.deadline_hit = 1; return 1; }
  return 0;
}

static int cnt_find(const char *name, int ismax)
{
  for (int i = 0; i < g_ncnt; i++) if (!strcmp(g_cnt[i].name, name)) return i;
  if (g_ncnt == MAXCOUNTERS) return -1;
  g_cnt[g_ncnt].name = strdup(name); g_cnt[g_ncnt].v = 0; g_cnt[g_ncnt].ismax = ismax;
  return g_ncnt++;
}
void mc_count(const char *name, uint64_t n) { int i = cnt_find(name, 0); if (i >= 0) g_cnt[i].v += n; }
void mc_count_max(const char *name, uint64_t v) { int i = cnt_find(name, 1); if (i >= 0 && v > g_cnt[i].v) g_cnt[i].v = v; }

static char *vfmt(const char *fmt, va_list ap)
{
  va_list ap2; va_copy(ap2, ap);
  int n = vsnprintf(NULL, 0, fmt, ap2); va_end(ap2);
  char *s = malloc((size_t)n + 1);
  vsnprintf(s, (size_t)n + 1, fmt, ap);
  return s;
}

void mc_sample(const char *fmt, ...)
{
  if (g_nsamples >= MAXSAMPLES) return;
  va_list ap; va_start(ap, fmt); g_samples[g_nsamples++] = vfmt(fmt, ap); va_end(ap);
}

void mc_note(const char *fmt, ...)
{
  if (g_nnotes >= MAXNOTES) return;
  va_list ap; va_start(ap, fmt); g_notes[g_nnotes++] = vfmt(fmt, ap); va_end(ap);
}

void mc_outcome(const char *cls, const char *fmt, ...)
{
  int i;
  for (i = 0; i < g_nout; i++) if (!strcmp(g_out[i].cls, cls)) break;
  if (i == g_nout) {
    if (g_nout == MAXOUTCLS) return;
    g_out[i].cls = strdup(cls); strset_init(&g_out[i].set); g_out[i].nstrs = 0; g_nout++;
  }
  va_list ap; va_start(ap, fmt); char *s = vfmt(fmt, ap); va_end(ap);
  if (strset_add(&g_out[i].set, s, strlen(s)) && g_out[i].nstrs < MAXOUTSTR) g_out[i].strs[g_out[i].nstrs++] = s;
  else free(s);
}

void mc_violation(const char *key, const char *fmt, ...)
{
  va_list ap; int i;
  if (g_silent) return;
  MC.nviol_raw++;
  for (i = 0; i < MC.nviol; i++) if (!strcmp(g_viol[i].key, key)) break;
  if (i == MC.nviol) {
    if (MC.nviol == MAXVIOL) return;
    g_viol[i].key = strdup(key); g_viol[i].count = 0; g_viol[i].text[0] = g_viol[i].text[1] = NULL;
    MC.nviol++;
  }
  if (g_viol[i].count < 2) { va_start(ap, fmt); g_viol[i].text[g_viol[i].count] = vfmt(fmt, ap); va_end(ap); }
  g_viol[i].count++;
}

int mc_case(const char *fmt, ...)
{
  va_list ap; va_start(ap, fmt);
  vsnprintf(g_case, sizeof(g_case), fmt, ap);
  va_end(ap);
  if (g_progress) { size_t n = strlen(g_case); memcpy(g_progress, g_case, n + 1); }
  g_silent = 0;
  if (MC.only && strcmp(MC.only, g_case)) {
    /* replay of a history: its proper prefixes are executed silently so that the state is reached */
    size_t l = strlen(g_case);
    if (!strncmp(MC.only, g_case, l) && !strncmp(MC.only + l, " ; ", 3)) { g_silent = 1; return 2; }
    return 0;
  }
  return 1;
}
const char *mc_case_text(void) { return g_case; }

static void put_text(FILE *f, const char *s)
{
  for (; *s; s++) {
    if (*s == '\n') fputs("\\n", f);
    else if (*s == '\t') fputs("\\t", f);
    else if (*s == '\r') fputs("\\r", f);
    else fputc(*s, f);
  }
}

static void write_results(FILE *f, int exhaustive)
{
  fprintf(f, "S\tstates\t%llu\n", (unsigned long long)MC.states);
  fprintf(f, "S\ttransitions\t%llu\n", (unsigned long long)MC.transitions);
  fprintf(f, "S\tabandoned_calls\t%d\n", MC.ncrash);
  for (int i = 0; i < g_ncnt; i++) fprintf(f, "%s\t%s\t%llu\n", g_cnt[i].ismax ? "M" : "C", g_cnt[i].name, (unsigned long long)g_cnt[i].v);
  for (int i = 0; i < g_nsamples; i++) { fputs("X\t", f); put_text(f, g_samples[i]); fputc('\n', f); }
  for (int i = 0; i < g_nnotes; i++) { fputs("N\t", f); put_text(f, g_notes[i]); fputc('\n', f); }
  for (int i = 0; i < g_nout; i++) {
    fprintf(f, "Oc\t%s\t%llu\n", g_out[i].cls, (unsigned long long)g_out[i].set.n);
    for (int j = 0; j < g_out[i].nstrs; j++) { fprintf(f, "O\t%s\t", g_out[i].cls); put_text(f, g_out[i].strs[j]); fputc('\n', f); }
  }
  for (int i = 0; i < MC.nviol; i++)
    for (int j = 0; j < 2 && g_viol[i].text[j]; j++) {
      fprintf(f, "V\t%s\t%llu\t", g_viol[i].key, (unsigned long long)g_viol[i].count); put_text(f, g_viol[i].text[j]); fputc('\n', f);
    }
  fprintf(f, "E\texhaustive\t%d\n", exhaustive && !MC.deadline_hit);
  fprintf(f, "W\twall\t%.3f\n", mc_now() - g_start);
  fprintf(f, "D\tdone\n");
}

int mc_finish(int exhaustive)
{
  FILE *f = MC.outpath ? fopen(MC.outpath, "w") : stdout;
  if (!f) { perror(MC.outpath); return 2; }
  write_results(f, exhaustive);
  if (f != stdout) fclose(f);
  return 0;
}

/* ------------------------------------------------------------------ protected calls */
sigjmp_buf mc_jmp;
char mc_fault[512];
char mc_san[256];
static volatile int g_in_try;
static int g_leak_disabled;

void mc_try_begin(unsigned timeout_ms)
{
  mc_fault[0] = 0;
  g_in_try = 1;
  if (timeout_ms) {
    struct itimerval it; memset(&it, 0, sizeof(it));
    it.it_value.tv_sec = timeout_ms / 1000; it.it_value.tv_usec = (timeout_ms % 1000) * 1000;
    setitimer(ITIMER_REAL, &it, NULL);
  }
}
void mc_try_end(void)
{
  struct itimerval it; memset(&it, 0, sizeof(it));
  g_in_try = 0;
  setitimer(ITIMER_REAL, &it, NULL);
}
void mc_clear_san(void) { mc_san[0] = 0; }

static void abandon(void)
{
  struct itimerval it; memset(&it, 0, sizeof(it));
  setitimer(ITIMER_REAL, &it, NULL);
  g_in_try = 0;
  MC.ncrash++;
  g_leak_disabled = 1;
  siglongjmp(mc_jmp, 1);
}

static void fatal_outside_try(const char *what)
{
  /* a fault outside any protected block (or a watchdog expiry): record it with the case in flight and die.
   * Async-signal-safe on purpose (no malloc, no stdio streams): the interrupted code may hold the allocator lock.
   * The driver reads <out>.fatal when the regular result file is missing. */
  static char buf[PROGRESS_SIZE + 1024];
  int n = snprintf(buf, sizeof(buf), "S\tstates\t%llu\nS\ttransitions\t%llu\nV\t%s%s\t1\t", (unsigned long long)MC.states, (unsigned long long)MC.transitions,
                   strcmp(what, "hang") ? "crash:" : "", what);
  for (const char *p = g_case; *p && n < (int)sizeof(buf) - 64; p++) { if (*p == '\n' || *p == '\t' || *p == '\r') buf[n++] = ' '; else buf[n++] = *p; }
  n += snprintf(buf + n, sizeof(buf) - (size_t)n, "\nE\texhaustive\t0\nD\tdone\n");
  if (g_fatal_fd >= 0) { ssize_t w = write(g_fatal_fd, buf, (size_t)n); (void)w; }
  else { ssize_t w = write(2, buf, (size_t)n); (void)w; }
  _exit(3);
}

static void on_signal(int sig)
{
  const char *n = sig == SIGSEGV ? "SIGSEGV" : sig == SIGBUS ? "SIGBUS" : sig == SIGFPE ? "SIGFPE" :
                  sig == SIGABRT ? "SIGABRT" : sig == SIGALRM ? "hang" : "SIG?";
  if (sig == SIGALRM) {
    /* a watchdog expiry is fatal for the worker: the interrupted code may hold the allocator lock, so
     * jumping out of it could deadlock the next malloc. The case in flight is recorded and the worker ends;
     * the driver reports the partition as not exhaustive. */
    if (g_in_try) fatal_outside_try("hang");
    return;
  }
  if (g_in_try) {
    snprintf(mc_fault, sizeof(mc_fault), "signal:%s", n);
    abandon();
  }
  fatal_outside_try(n);
}

static void mc_install_handlers(void)
{
  static char altstack[1 << 16];
  stack_t ss; ss.ss_sp = altstack; ss.ss_size = sizeof(altstack); ss.ss_flags = 0;
  sigaltstack(&ss, NULL);
  struct sigaction sa; memset(&sa, 0, sizeof(sa));
  sa.sa_handler = on_signal; sa.sa_flags = SA_ONSTACK | SA_NODEFER;
  sigemptyset(&sa.sa_mask);
  sigaction(SIGSEGV, &sa, NULL); sigaction(SIGBUS, &sa, NULL); sigaction(SIGFPE, &sa, NULL);
  sigaction(SIGABRT, &sa, NULL); sigaction(SIGALRM, &sa, NULL);
}

/* glibc's assert() lands here */
void __assert_fail(const char *expr, const char *file, unsigned int line, const char *func)
{
  (void)func;
  const char *b = strrchr(file, '/'); b = b ? b + 1 : file;
  if (g_in_try) {
    /* no line number in the key: it must stay stable when unrelated lines move */
    (void)line;
    snprintf(mc_fault, sizeof(mc_fault), "assert:%s:%s", b, expr);
    abandon();
  }
  fprintf(stderr, "assertion failed outside a protected block: %s:%u: %s\n", b, line, expr);
  {
    char w[400]; snprintf(w, sizeof(w), "assert:%s:%u", b, line);
    fatal_outside_try(w);
  }
  _exit(3);
}

#ifdef MC_ASAN
void __asan_on_error(void)
{
  const char *d = __asan_get_report_description();
  if (!mc_san[0]) snprintf(mc_san, sizeof(mc_san), "asan:%s", d ? d : "?");
}
const char *__asan_default_options(void)
{
  return "halt_on_error=0:detect_leaks=1:leak_check_at_exit=0:handle_segv=0:handle_sigbus=0:"
         "handle_abort=0:handle_sigfpe=0:allocator_may_return_null=1:max_allocation_size_mb=3072:"
         "detect_stack_use_after_return=0:print_summary=0:abort_on_error=0:"
         "detect_odr_violation=0:malloc_context_size=8:symbolize=1";
}
const char *__ubsan_default_options(void) { return "print_stacktrace=0:halt_on_error=0:print_summary=0"; }
const char *__lsan_default_options(void) { return "print_suppressions=0:report_objects=0:max_leaks=3"; }
/* compiler-rt calls this weak hook whenever UBSan reports */
void __ubsan_get_current_report_data(const char **OutIssueKind, const char **OutMessage,
                                     const char **OutFilename, unsigned *OutLine,
                                     unsigned *OutCol, char **OutMemoryAddr);
void __ubsan_on_report(void)
{
  const char *kind = NULL, *msg = NULL, *file = NULL; unsigned line = 0, col = 0; char *addr = NULL;
  __ubsan_get_current_report_data(&kind, &msg, &file, &line, &col, &addr);
  if (!mc_san[0]) {
    const char *b = file ? strrchr(file, '/') : NULL; b = b ? b + 1 : (file ? file : "?");
    (void)line;
    snprintf(mc_san, sizeof(mc_san), "ubsan:%s:%s", kind ? kind : "?", b);
  }
}
int mc_leak_check(void)
{
  if (g_leak_disabled) return 0;
  return __lsan_do_recoverable_leak_check() != 0;
}
#else
int mc_leak_check(void) { return 0; }
#endif
void mc_leak_disable(void) { g_leak_disabled = 1; }

int mc_report_faults(const char *where)
{
  int r = 0;
  char key[900];
  if (mc_fault[0]) { snprintf(key, sizeof(key), "%s@%s", mc_fault, where); mc_violation(key, "%s", g_case); r = 1; }
  if (mc_san[0]) { snprintf(key, sizeof(key), "%s@%s", mc_san, where); mc_violation(key, "%s", g_case); r = 1; mc_san[0] = 0; }
  return r;
}
