#!/usr/bin/env python3
"""Builds every library variant and harness that the registered checks use."""
import sys, os
sys.path.insert(0, os.path.dirname(os.path.abspath(__file__)))
import build, props
from concurrent.futures import ThreadPoolExecutor

variants = set()
todo = []
for pid, P in props.PROPS.items():
    for tier in ("quick", "thorough"):
        stages = P["stages"](tier) if callable(P["stages"]) else P["stages"]
        for st in stages:
            for b in [st] + list(st.get("also_build", ())):
                if b.get("harness"):
                    key = (b["harness"], b.get("variant", "asan"), tuple(b.get("extra_sources", ())),
                           tuple(b.get("cflags", ())), tuple(b.get("ldflags", ())))
                    if key not in todo:
                        todo.append(key)
                        variants.add(key[1])
# hooks that must run before linking (objects placed on the link line) and data/tool preparation
for pid, P in props.PROPS.items():
    stages = P["stages"]("quick") if callable(P["stages"]) else P["stages"]
    done = set()
    for st in stages:
        for hook in ("prebuild", "prepare"):
            h = st.get(hook)
            if h and h not in done:
                done.add(h)
                h(st, "quick")
for v in sorted(variants):
    build.build_lib(v)
    build.build_engine(v)
with ThreadPoolExecutor(8) as ex:
    list(ex.map(lambda k: build.build_harness(k[0], k[1], extra_sources=k[2], extra_cflags=k[3], extra_ldflags=k[4]), todo))
print("setup ok: %d harnesses, variants %s" % (len(todo), sorted(variants)))
