"""Prepare step of C18: extract the snapshot tarballs bundled with the working tree
(tests/hwloc/linux, tests/hwloc/x86, tests/hwloc/x86+linux) under build/snap and write
build/snap/index.txt (kind name fsroot cpuid-dir).  Cached per tarball (size+mtime stamp)."""
import os, subprocess, shutil, glob
from concurrent.futures import ThreadPoolExecutor

VERIF = os.environ.get("VERIF_DIR") or os.path.dirname(os.path.dirname(os.path.abspath(__file__)))
REPO = os.environ.get("VERIF_REPO", "/repo")
SNAP = os.path.join(VERIF, "build", "snap")


def _extract(job):
    kind, tb = job
    name = os.path.basename(tb)[:-len(".tar.bz2")]
    dst = os.path.join(SNAP, kind, name)
    st = os.stat(tb)
    stamp = "%d %d\n" % (st.st_size, int(st.st_mtime))
    sf = os.path.join(dst, ".stamp")
    if not (os.path.exists(sf) and open(sf).read() == stamp):
        shutil.rmtree(dst, ignore_errors=True)
        os.makedirs(dst)
        subprocess.run(["tar", "-xjf", tb, "-C", dst], check=True)
        # the loader only reads; make sure directories are traversable
        subprocess.run(["chmod", "-R", "u+rwX", dst], check=False)
        open(sf, "w").write(stamp)
    subs = [d for d in sorted(os.listdir(dst)) if os.path.isdir(os.path.join(dst, d))]
    top = os.path.join(dst, subs[0]) if len(subs) == 1 else dst
    if kind == "linux":
        return (kind, name, top, "-")
    if kind == "x86":
        return (kind, name, "-", top)
    return (kind, name, os.path.join(top, "fsroot"), os.path.join(top, "cpuid"))


def prepare(stage=None, tier=None):
    jobs = []
    for kind in ("linux", "x86", "x86+linux"):
        for tb in sorted(glob.glob(os.path.join(REPO, "tests", "hwloc", kind, "*.tar.bz2"))):
            jobs.append((kind, tb))
    os.makedirs(SNAP, exist_ok=True)
    with ThreadPoolExecutor(16) as ex:
        rows = list(ex.map(_extract, jobs))
    tmp = os.path.join(SNAP, "index.txt.%d" % os.getpid())
    with open(tmp, "w") as f:
        for r in rows:
            f.write(" ".join(r) + "\n")
    os.replace(tmp, os.path.join(SNAP, "index.txt"))
    return rows


if __name__ == "__main__":
    for r in prepare():
        print(*r)
