/* The read-only battery: every consulting call the properties name, run on one topology,
 * its observable results appended to a digest.  Reentrant (no static buffers): C17 runs it
 * from several threads. */
#include "battery.h"
#include "canon.h"
#include "refset.h"
#include <inttypes.h>

static void put_bitmap_queries(struct sb *b, hwloc_const_bitmap_t s)
{
  char buf[256];
  if (!s) { sb_puts(b, "NULL;"); return; }
  hwloc_bitmap_list_snprintf(buf, sizeof(buf), s);
  sb_printf(b, "[%s w=%d f=%d l=%d z=%d]", buf, hwloc_bitmap_weight(s), hwloc_bitmap_first(s), hwloc_bitmap_last(s), hwloc_bitmap_iszero(s));
}

void battery_group(hwloc_topology_t t, int group, struct sb *b)
{
  hwloc_obj_t root = hwloc_get_root_obj(t);
  switch (group) {
  case BAT_TRAVERSAL:
    canon(b, t, CANON_ALL & ~(CANON_USERDATA | CANON_DIST | CANON_MEMATTR | CANON_CPUKINDS));
    break;
  case BAT_PRINT: {
    hwloc_obj_t *objs; unsigned n = canon_walk(t, &objs);
    static const unsigned long FL[] = { 0, HWLOC_OBJ_SNPRINTF_FLAG_LONG_NAMES, HWLOC_OBJ_SNPRINTF_FLAG_SHORT_NAMES, HWLOC_OBJ_SNPRINTF_FLAG_MORE_ATTRS | HWLOC_OBJ_SNPRINTF_FLAG_NO_UNITS,
                                        HWLOC_OBJ_SNPRINTF_FLAG_UNITS_1000 | HWLOC_OBJ_SNPRINTF_FLAG_OLD_VERBOSE };
    for (unsigned i = 0; i < n; i++) for (unsigned f = 0; f < sizeof(FL) / sizeof(FL[0]); f++) {
      char ty[128], at[1024];
      int a = hwloc_obj_type_snprintf(ty, sizeof(ty), objs[i], FL[f]);
      int c = hwloc_obj_attr_snprintf(at, sizeof(at), objs[i], " ", FL[f]);
      sb_printf(b, "%d:%s|%d:%s\n", a, ty, c, at);
    }
    free(objs);
    break; }
  case BAT_HELPERS: {
    hwloc_obj_t *objs; unsigned n = canon_walk(t, &objs);
    for (unsigned i = 0; i < n; i++) {
      hwloc_obj_t o = objs[i];
      if (!o->cpuset) { hwloc_obj_t p = hwloc_get_non_io_ancestor_obj(t, o); sb_printf(b, "nonio=%" PRIu64 ";", p ? p->gp_index : 0); continue; }
      hwloc_obj_t c = hwloc_bitmap_iszero(o->cpuset) ? NULL : hwloc_get_obj_covering_cpuset(t, o->cpuset);
      sb_printf(b, "cover=%" PRIu64 ";", c ? c->gp_index : 0);
      hwloc_obj_t o2 = objs[(i * 7 + 3) % n];
      if (hwloc_obj_type_is_normal(o->type) && hwloc_obj_type_is_normal(o2->type)) {   /* special depths are C09's business */
        hwloc_obj_t a = hwloc_get_common_ancestor_obj(t, o, o2);
        sb_printf(b, "anc=%" PRIu64 ";", a ? a->gp_index : 0);
      }
      hwloc_bitmap_t ns = hwloc_bitmap_alloc();
      hwloc_cpuset_to_nodeset(t, o->cpuset, ns); put_bitmap_queries(b, ns);
      hwloc_bitmap_free(ns);
      if (hwloc_obj_type_is_normal(o->type)) {
        hwloc_obj_t closest[4]; unsigned k = hwloc_get_closest_objs(t, o, closest, 4);
        for (unsigned j = 0; j < k; j++) sb_printf(b, "cl%" PRIu64 ",", closest[j]->gp_index);
      }
    }
    {
      hwloc_obj_t largest[64]; int k = hwloc_get_largest_objs_inside_cpuset(t, root->cpuset, largest, 64);
      sb_printf(b, "largest=%d;", k);
      /* zeroed first: on an ill-formed topology (C06 loads documents with inconsistent sets) hwloc_distrib() may return
       * without filling every slot; the battery must not read uninitialised pointers then (it did, and reported the
       * harness' own fault as a crash - see DESIGN.md 6.6) */
      hwloc_bitmap_t sets[5] = { NULL, NULL, NULL, NULL, NULL }; hwloc_obj_t r0 = root;
      if (hwloc_distrib(t, &r0, 1, sets, 5, INT_MAX, 0) == 0) for (int i = 0; i < 5; i++) { put_bitmap_queries(b, sets[i]); hwloc_bitmap_free(sets[i]); }
      for (int ty = HWLOC_OBJ_TYPE_MIN; ty < HWLOC_OBJ_TYPE_MAX; ty++) sb_printf(b, "td%d=%d,%d;", ty, hwloc_get_type_depth(t, (hwloc_obj_type_t)ty), hwloc_get_nbobjs_by_type(t, (hwloc_obj_type_t)ty));
    }
    free(objs);
    break; }
  case BAT_DISTANCES: {
    struct sb tmp; sb_init(&tmp);
    canon(&tmp, t, CANON_DIST | CANON_GP);
    /* keep the distances section only */
    const char *p = strstr(tmp.s, "distances["); if (p) sb_puts(b, p);
    sb_free(&tmp);
    unsigned nr = 8; struct hwloc_distances_s *d[8];
    if (hwloc_distances_get_by_type(t, HWLOC_OBJ_NUMANODE, &nr, d, 0, 0) == 0) { sb_printf(b, "bytype=%u;", nr); for (unsigned i = 0; i < nr && i < 8; i++) hwloc_distances_release(t, d[i]); }
    nr = 8;
    if (hwloc_distances_get_by_depth(t, hwloc_get_type_depth(t, HWLOC_OBJ_PU), &nr, d, 0, 0) == 0) { sb_printf(b, "bydepth=%u;", nr); for (unsigned i = 0; i < nr && i < 8; i++) hwloc_distances_release(t, d[i]); }
    nr = 8;
    if (hwloc_distances_get_by_name(t, "NUMALatency", &nr, d, 0) == 0) { sb_printf(b, "byname=%u;", nr); for (unsigned i = 0; i < nr && i < 8; i++) hwloc_distances_release(t, d[i]); }
    break; }
  case BAT_MEMATTRS: {
    struct sb tmp; sb_init(&tmp);
    canon(&tmp, t, CANON_MEMATTR | CANON_GP);
    const char *p = strstr(tmp.s, "memattr 0"); if (p) sb_puts(b, p);
    sb_free(&tmp);
    /* best-of queries and local nodes from every normal object */
    unsigned nn = hwloc_get_nbobjs_by_type(t, HWLOC_OBJ_NUMANODE);
    for (hwloc_obj_t o = root; o; o = o->first_child) {
      struct hwloc_location loc; loc.type = HWLOC_LOCATION_TYPE_CPUSET; loc.location.cpuset = o->cpuset;
      for (hwloc_memattr_id_t id = 0; id < 8; id++) {
        hwloc_obj_t best = NULL; hwloc_uint64_t v = 0;
        int rc = hwloc_memattr_get_best_target(t, id, &loc, 0, &best, &v);
        sb_printf(b, "best%u=%d:%" PRIu64 ":%" PRIu64 ";", id, rc, best ? best->gp_index : 0, rc == 0 ? v : 0);
      }
      for (unsigned long fl = 0; fl < 8; fl++) {
        hwloc_obj_t nodes[64]; unsigned nr = 64;
        int rc = hwloc_get_local_numanode_objs(t, &loc, &nr, nodes, fl);
        sb_printf(b, "local%lu=%d:%u;", fl, rc, nr);
      }
    }
    /* best initiator of every attribute for every NUMA node (the one getter the walk above does not reach) */
    for (unsigned k = 0; k < nn && k < 16; k++) {
      hwloc_obj_t node = hwloc_get_obj_by_type(t, HWLOC_OBJ_NUMANODE, k);
      for (hwloc_memattr_id_t id = 0; id < 10; id++) {
        struct hwloc_location best; hwloc_uint64_t v = 0; memset(&best, 0, sizeof(best));
        int rc = hwloc_memattr_get_best_initiator(t, id, node, 0, &best, &v);
        sb_printf(b, "bi%u/%u=%d:%" PRIu64 ";", k, id, rc, rc == 0 ? v : 0);
        if (rc == 0 && best.type == HWLOC_LOCATION_TYPE_CPUSET) put_bitmap_queries(b, best.location.cpuset);
        else if (rc == 0 && best.type == HWLOC_LOCATION_TYPE_OBJECT && best.location.object) sb_printf(b, "obj%" PRIu64 ";", best.location.object->gp_index);
      }
    }
    { hwloc_bitmap_t ns = hwloc_bitmap_alloc(); int rc = hwloc_topology_get_default_nodeset(t, ns, 0); sb_printf(b, "default=%d", rc); put_bitmap_queries(b, ns); hwloc_bitmap_free(ns); (void)nn; }
    break; }
  case BAT_CPUKINDS: {
    struct sb tmp; sb_init(&tmp);
    canon(&tmp, t, CANON_CPUKINDS);
    const char *p = strstr(tmp.s, "cpukinds["); if (p) sb_puts(b, p);
    sb_free(&tmp);
    for (hwloc_obj_t o = root; o; o = o->first_child) { errno = 0; int k = hwloc_cpukinds_get_by_cpuset(t, o->cpuset, 0); sb_printf(b, "kind_of=%d/%d;", k, k < 0 && (errno == EXDEV || errno == ENOENT) ? errno : 0); }   /* errno only means something after a failure */
    break; }
  case BAT_SETS:
    put_bitmap_queries(b, hwloc_topology_get_topology_cpuset(t)); put_bitmap_queries(b, hwloc_topology_get_complete_cpuset(t));
    put_bitmap_queries(b, hwloc_topology_get_allowed_cpuset(t)); put_bitmap_queries(b, hwloc_topology_get_topology_nodeset(t));
    put_bitmap_queries(b, hwloc_topology_get_complete_nodeset(t)); put_bitmap_queries(b, hwloc_topology_get_allowed_nodeset(t));
    break;
  case BAT_XML: {
    char *xml = NULL; int len = 0;
    int rc = hwloc_topology_export_xmlbuffer(t, &xml, &len, 0);
    sb_printf(b, "xml rc=%d len=%d hash=%" PRIx64 "\n", rc, len, rc == 0 ? mc_hash(xml, (size_t)len) : 0);
    if (rc == 0) hwloc_free_xmlbuffer(t, xml);
    rc = hwloc_topology_export_xmlbuffer(t, &xml, &len, HWLOC_TOPOLOGY_EXPORT_XML_FLAG_V2);
    sb_printf(b, "xmlv2 rc=%d len=%d hash=%" PRIx64 "\n", rc, len, rc == 0 ? mc_hash(xml, (size_t)len) : 0);
    if (rc == 0) hwloc_free_xmlbuffer(t, xml);
    break; }
  case BAT_LOOKUPS: {
    /* the consulting calls the other groups do not reach: lookups by index / type / name / bus id, cache and
     * locality helpers, per-level iterators with sets, the remaining bitmap printers, infos, support, memattr and
     * distances accessors */
    hwloc_obj_t *objs; unsigned n = canon_walk(t, &objs);
    char buf[512];
    hwloc_const_bitmap_t rc = root->cpuset, rn = root->nodeset;
    if (rc) { hwloc_bitmap_snprintf(buf, sizeof(buf), rc); sb_printf(b, "%s;", buf); hwloc_bitmap_taskset_snprintf(buf, sizeof(buf), rc); sb_printf(b, "%s;", buf); }
    if (rc && rn) {
      hwloc_bitmap_t tmp = hwloc_bitmap_alloc();
      hwloc_cpuset_from_nodeset(t, tmp, rn); put_bitmap_queries(b, tmp);
      hwloc_bitmap_copy(tmp, rc); hwloc_bitmap_singlify_per_core(t, tmp, 0); put_bitmap_queries(b, tmp);
      hwloc_bitmap_free(tmp);
    }
    sb_printf(b, "thissystem=%d flags=%lx mpd=%d;", hwloc_topology_is_thissystem(t), hwloc_topology_get_flags(t), hwloc_get_memory_parents_depth(t));
    { const struct hwloc_topology_support *sp = hwloc_topology_get_support(t); sb_printf(b, "sup=%d%d%d;", sp->discovery->pu, sp->cpubind->set_thisproc_cpubind, sp->membind->set_thisproc_membind); }
    for (unsigned i = 0; i < n; i++) {
      hwloc_obj_t o = objs[i];
      sb_printf(b, "%" PRIu64 ":", o->gp_index);
      for (unsigned k = 0; k < o->infos.count && k < 4; k++) { const char *v = hwloc_obj_get_info_by_name(o, o->infos.array[k].name); sb_printf(b, "i=%s,", v ? v : "(null)"); }
      sb_printf(b, "sub=%d,", hwloc_obj_is_in_subtree(t, o, root));
      for (int ty = HWLOC_OBJ_TYPE_MIN; ty < HWLOC_OBJ_TYPE_MAX; ty += 3) { hwloc_obj_t a = hwloc_get_ancestor_obj_by_type(t, (hwloc_obj_type_t)ty, o); if (a) sb_printf(b, "a%d=%" PRIu64 ",", ty, a->gp_index); }
      if (o->depth > 0) { hwloc_obj_t a = hwloc_get_ancestor_obj_by_depth(t, 0, o); sb_printf(b, "a0=%" PRIu64 ",", a ? a->gp_index : 0); }
      if (o->cpuset && !hwloc_bitmap_iszero(o->cpuset)) {
        hwloc_obj_t c = hwloc_get_cache_covering_cpuset(t, o->cpuset); sb_printf(b, "cc=%" PRIu64 ",", c ? c->gp_index : 0);
        if (hwloc_obj_type_is_normal(o->type)) { c = hwloc_get_shared_cache_covering_obj(t, o); sb_printf(b, "sc=%" PRIu64 ",", c ? c->gp_index : 0); }
        sb_printf(b, "in=%u,", hwloc_get_nbobjs_inside_cpuset_by_type(t, o->cpuset, HWLOC_OBJ_PU));
        hwloc_obj_t f = hwloc_get_first_largest_obj_inside_cpuset(t, o->cpuset); sb_printf(b, "fl=%" PRIu64 ",", f ? f->gp_index : 0);
        hwloc_obj_t it = NULL; unsigned cnt = 0; while ((it = hwloc_get_next_obj_covering_cpuset_by_type(t, o->cpuset, HWLOC_OBJ_CORE, it)) != NULL && cnt < 1000) cnt++; sb_printf(b, "cov=%u,", cnt);
        it = NULL; cnt = 0; while ((it = hwloc_get_next_obj_inside_cpuset_by_type(t, o->cpuset, HWLOC_OBJ_PU, it)) != NULL && cnt < 100000) cnt++; sb_printf(b, "ins=%u,", cnt);
        hwloc_obj_t ch = hwloc_get_child_covering_cpuset(t, o->cpuset, root); sb_printf(b, "chc=%" PRIu64 ",", ch ? ch->gp_index : 0);
      }
      if (o->cpuset && o->nodeset) {
        static const hwloc_obj_type_t TY[] = { HWLOC_OBJ_PACKAGE, HWLOC_OBJ_NUMANODE, HWLOC_OBJ_GROUP, HWLOC_OBJ_L3CACHE, HWLOC_OBJ_MACHINE };
        for (unsigned k = 0; k < sizeof(TY) / sizeof(TY[0]); k++) { hwloc_obj_t s = hwloc_get_obj_with_same_locality(t, o, TY[k], NULL, NULL, 0); if (s) sb_printf(b, "sl%u=%" PRIu64 ",", k, s->gp_index); }
      }
      if (o->type == HWLOC_OBJ_PU) { hwloc_obj_t q = hwloc_get_pu_obj_by_os_index(t, o->os_index); sb_printf(b, "pu=%" PRIu64 ",", q ? q->gp_index : 0); }
      if (o->type == HWLOC_OBJ_NUMANODE) { hwloc_obj_t q = hwloc_get_numanode_obj_by_os_index(t, o->os_index); sb_printf(b, "nn=%" PRIu64 ",", q ? q->gp_index : 0); }
      if (o->type == HWLOC_OBJ_PCI_DEVICE) {
        hwloc_obj_t q = hwloc_get_pcidev_by_busid(t, o->attr->pcidev.domain, o->attr->pcidev.bus, o->attr->pcidev.dev, o->attr->pcidev.func); sb_printf(b, "pci=%" PRIu64 ",", q ? q->gp_index : 0);
        snprintf(buf, sizeof(buf), "%04x:%02x:%02x.%01x", o->attr->pcidev.domain, o->attr->pcidev.bus, o->attr->pcidev.dev, o->attr->pcidev.func);
        q = hwloc_get_pcidev_by_busidstring(t, buf); sb_printf(b, "pcis=%" PRIu64 ",", q ? q->gp_index : 0);
      }
      if (o->type == HWLOC_OBJ_BRIDGE) sb_printf(b, "br=%d,", hwloc_bridge_covers_pcibus(o, 0, 1));
      sb_putc(b, '\n');
    }
    { hwloc_obj_t it = NULL; unsigned c1 = 0, c2 = 0, c3 = 0;
      while ((it = hwloc_get_next_pcidev(t, it)) != NULL && c1 < 100000) c1++;
      while ((it = hwloc_get_next_osdev(t, it)) != NULL && c2 < 100000) c2++;
      while ((it = hwloc_get_next_bridge(t, it)) != NULL && c3 < 100000) c3++;
      sb_printf(b, "io=%u/%u/%u;", c1, c2, c3); }
    { struct hwloc_infos_s *ti = hwloc_topology_get_infos(t); for (unsigned k = 0; ti && k < ti->count; k++) if (strcmp(ti->array[k].name, "ProcessName") && strcmp(ti->array[k].name, "hwlocVersion")) sb_printf(b, "ti=%s=%s;", ti->array[k].name, ti->array[k].value); }
    /* memory attribute accessors */
    for (hwloc_memattr_id_t id = 0; id < 10; id++) {
      const char *name = NULL; unsigned long fl = 0; hwloc_memattr_id_t back = 99;
      if (hwloc_memattr_get_name(t, id, &name) == 0 && name) { hwloc_memattr_get_flags(t, id, &fl); hwloc_memattr_get_by_name(t, name, &back); sb_printf(b, "ma%u=%s/%lx/%u;", id, name, fl, back); }
    }
    /* distances accessors */
    { unsigned nr = 8; struct hwloc_distances_s *d[8];
      if (hwloc_distances_get(t, &nr, d, 0, 0) == 0) for (unsigned i = 0; i < nr && i < 8; i++) {
        const char *nm = hwloc_distances_get_name(t, d[i]);
        sb_printf(b, "d%u=%s/%u:", i, nm ? nm : "(null)", d[i]->nbobjs);
        for (unsigned x = 0; x < d[i]->nbobjs && x < 4; x++) if (d[i]->objs[x]) {
          sb_printf(b, "%d,", hwloc_distances_obj_index(d[i], d[i]->objs[x]));
          hwloc_uint64_t v1 = 0, v2 = 0; if (d[i]->objs[0] && hwloc_distances_obj_pair_values(d[i], d[i]->objs[0], d[i]->objs[x], &v1, &v2) == 0) sb_printf(b, "%" PRIu64 "/%" PRIu64 ",", v1, v2);
        }
        hwloc_distances_release(t, d[i]);
      } }
    free(objs);
    break; }
  case BAT_SYNTHETIC: {
    char buf[2048];
    for (unsigned long fl = 0; fl < 16; fl += 5) { int n = hwloc_topology_export_synthetic(t, buf, sizeof(buf), fl); sb_printf(b, "syn%lu=%d:%s\n", fl, n, n >= 0 ? buf : ""); }
    break; }
  }
}

void battery_all(hwloc_topology_t t, struct sb *b)
{
  for (int g = 0; g < BAT_NGROUPS; g++) { sb_printf(b, "== group %d\n", g); battery_group(t, g, b); sb_putc(b, '\n'); }
}
