/* The read-only battery: every consulting call the properties name, run on one topology,
 * its observable results appended to a digest.  Reentrant (no static buffers): C17 runs it
 * from several threads. */
#include "battery.h"
#include "canon.h"
#include "refset.h"
#include <inttypes.h>

static void put_bitmap_queries(struct sb *b, hwloc_const_bitmap_t s)
{
  char buf[256];
  if (!s) { sb_puts(b, "NULL;"); return; }
  hwloc_bitmap_list_snprintf(buf, sizeof(buf), s);
  sb_printf(b, "[%s w=%d f=%d l=%d z=%d]", buf, hwloc_bitmap_weight(s), hwloc_bitmap_first(s), hwloc_bitmap_last(s), hwloc_bitmap_iszero(s));
}

void battery_group(hwloc_topology_t t, int group, struct sb *b)
{
  hwloc_obj_t root = hwloc_get_root_obj(t);
  switch (group) {
  case BAT_TRAVERSAL:
    canon(b, t, CANON_ALL & ~(CANON_USERDATA | CANON_DIST | CANON_MEMATTR | CANON_CPUKINDS));
    break;
  case BAT_PRINT: {
    hwloc_obj_t *objs; unsigned n = canon_walk(t, &objs);
    static const unsigned long FL[] = { 0, HWLOC_OBJ_SNPRINTF_FLAG_LONG_NAMES, HWLOC_OBJ_SNPRINTF_FLAG_SHORT_NAMES, HWLOC_OBJ_SNPRINTF_FLAG_MORE_ATTRS | HWLOC_OBJ_SNPRINTF_FLAG_NO_UNITS,
                                        HWLOC_OBJ_SNPRINTF_FLAG_UNITS_1000 | HWLOC_OBJ_SNPRINTF_FLAG_OLD_VERBOSE };
    for (unsigned i = 0; i < n; i++) for (unsigned f = 0; f < sizeof(FL) / sizeof(FL[0]); f++) {
      char ty[128], at[1024];
      int a = hwloc_obj_type_snprintf(ty, sizeof(ty), objs[i], FL[f]);
      int c = hwloc_obj_attr_snprintf(at, sizeof(at), objs[i], " ", FL[f]);
      sb_printf(b, "%d:%s|%d:%s\n", a, ty, c, at);
    }
    free(objs);
    break; }
  case BAT_HELPERS: {
    hwloc_obj_t *objs; unsigned n = canon_walk(t, &objs);
    for (unsigned i = 0; i < n; i++) {
      hwloc_obj_t o = objs[i];
      if (!o->cpuset) { hwloc_obj_t p = hwloc_get_non_io_ancestor_obj(t, o); sb_printf(b, "nonio=%" PRIu64 ";", p ? p->gp_index : 0); continue; }
      hwloc_obj_t c = hwloc_bitmap_iszero(o->cpuset) ? NULL : hwloc_get_obj_covering_cpuset(t, o->cpuset);
      sb_printf(b, "cover=%" PRIu64 ";", c ? c->gp_index : 0);
      hwloc_obj_t o2 = objs[(i * 7 + 3) % n];
      if (hwloc_obj_type_is_normal(o->type) && hwloc_obj_type_is_normal(o2->type)) {   /* special depths are C09's business */
        hwloc_obj_t a = hwloc_get_common_ancestor_obj(t, o, o2);
        sb_printf(b, "anc=%" PRIu64 ";", a ? a->gp_index : 0);
      }
      hwloc_bitmap_t ns = hwloc_bitmap_alloc();
      hwloc_cpuset_to_nodeset(t, o->cpuset, ns); put_bitmap_queries(b, ns);
      hwloc_bitmap_free(ns);
      if (hwloc_obj_type_is_normal(o->type)) {
        hwloc_obj_t closest[4]; unsigned k = hwloc_get_closest_objs(t, o, closest, 4);
        for (unsigned j = 0; j < k; j++) sb_printf(b, "cl%" PRIu64 ",", closest[j]->gp_index);
      }
    }
    {
      hwloc_obj_t largest[64]; int k = hwloc_get_largest_objs_inside_cpuset(t, root->cpuset, largest, 64);
      sb_printf(b, "largest=%d;", k);
      hwloc_bitmap_t sets[5]; hwloc_obj_t r0 = root;
      if (hwloc_distrib(t, &r0, 1, sets, 5, INT_MAX, 0) == 0) for (int i = 0; i < 5; i++) { put_bitmap_queries(b, sets[i]); hwloc_bitmap_free(sets[i]); }
      for (int ty = HWLOC_OBJ_TYPE_MIN; ty < HWLOC_OBJ_TYPE_MAX; ty++) sb_printf(b, "td%d=%d,%d;", ty, hwloc_get_type_depth(t, (hwloc_obj_type_t)ty), hwloc_get_nbobjs_by_type(t, (hwloc_obj_type_t)ty));
    }
    free(objs);
    break; }
  case BAT_DISTANCES: {
    struct sb tmp; sb_init(&tmp);
    canon(&tmp, t, CANON_DIST | CANON_GP);
    /* keep the distances section only */
    const char *p = strstr(tmp.s, "distances["); if (p) sb_puts(b, p);
    sb_free(&tmp);
    unsigned nr = 8; struct hwloc_distances_s *d[8];
    if (hwloc_distances_get_by_type(t, HWLOC_OBJ_NUMANODE, &nr, d, 0, 0) == 0) { sb_printf(b, "bytype=%u;", nr); for (unsigned i = 0; i < nr && i < 8; i++) hwloc_distances_release(t, d[i]); }
    nr = 8;
    if (hwloc_distances_get_by_depth(t, hwloc_get_type_depth(t, HWLOC_OBJ_PU), &nr, d, 0, 0) == 0) { sb_printf(b, "bydepth=%u;", nr); for (unsigned i = 0; i < nr && i < 8; i++) hwloc_distances_release(t, d[i]); }
    nr = 8;
    if (hwloc_distances_get_by_name(t, "NUMALatency", &nr, d, 0) == 0) { sb_printf(b, "byname=%u;", nr); for (unsigned i = 0; i < nr && i < 8; i++) hwloc_distances_release(t, d[i]); }
    break; }
  case BAT_MEMATTRS: {
    struct sb tmp; sb_init(&tmp);
    canon(&tmp, t, CANON_MEMATTR | CANON_GP);
    const char *p = strstr(tmp.s, "memattr 0"); if (p) sb_puts(b, p);
    sb_free(&tmp);
    /* best-of queries and local nodes from every normal object */
    unsigned nn = hwloc_get_nbobjs_by_type(t, HWLOC_OBJ_NUMANODE);
    for (hwloc_obj_t o = root; o; o = o->first_child) {
      struct hwloc_location loc; loc.type = HWLOC_LOCATION_TYPE_CPUSET; loc.location.cpuset = o->cpuset;
      for (hwloc_memattr_id_t id = 0; id < 8; id++) {
        hwloc_obj_t best = NULL; hwloc_uint64_t v = 0;
        int rc = hwloc_memattr_get_best_target(t, id, &loc, 0, &best, &v);
        sb_printf(b, "best%u=%d:%" PRIu64 ":%" PRIu64 ";", id, rc, best ? best->gp_index : 0, rc == 0 ? v : 0);
      }
      for (unsigned long fl = 0; fl < 8; fl++) {
        hwloc_obj_t nodes[64]; unsigned nr = 64;
        int rc = hwloc_get_local_numanode_objs(t, &loc, &nr, nodes, fl);
        sb_printf(b, "local%lu=%d:%u;", fl, rc, nr);
      }
    }
    { hwloc_bitmap_t ns = hwloc_bitmap_alloc(); int rc = hwloc_topology_get_default_nodeset(t, ns, 0); sb_printf(b, "default=%d", rc); put_bitmap_queries(b, ns); hwloc_bitmap_free(ns); (void)nn; }
    break; }
  case BAT_CPUKINDS: {
    struct sb tmp; sb_init(&tmp);
    canon(&tmp, t, CANON_CPUKINDS);
    const char *p = strstr(tmp.s, "cpukinds["); if (p) sb_puts(b, p);
    sb_free(&tmp);
    for (hwloc_obj_t o = root; o; o = o->first_child) sb_printf(b, "kind_of=%d/%d;", hwloc_cpukinds_get_by_cpuset(t, o->cpuset, 0), errno == EXDEV || errno == ENOENT ? errno : 0);
    break; }
  case BAT_SETS:
    put_bitmap_queries(b, hwloc_topology_get_topology_cpuset(t)); put_bitmap_queries(b, hwloc_topology_get_complete_cpuset(t));
    put_bitmap_queries(b, hwloc_topology_get_allowed_cpuset(t)); put_bitmap_queries(b, hwloc_topology_get_topology_nodeset(t));
    put_bitmap_queries(b, hwloc_topology_get_complete_nodeset(t)); put_bitmap_queries(b, hwloc_topology_get_allowed_nodeset(t));
    break;
  case BAT_XML: {
    char *xml = NULL; int len = 0;
    int rc = hwloc_topology_export_xmlbuffer(t, &xml, &len, 0);
    sb_printf(b, "xml rc=%d len=%d hash=%" PRIx64 "\n", rc, len, rc == 0 ? mc_hash(xml, (size_t)len) : 0);
    if (rc == 0) hwloc_free_xmlbuffer(t, xml);
    rc = hwloc_topology_export_xmlbuffer(t, &xml, &len, HWLOC_TOPOLOGY_EXPORT_XML_FLAG_V2);
    sb_printf(b, "xmlv2 rc=%d len=%d hash=%" PRIx64 "\n", rc, len, rc == 0 ? mc_hash(xml, (size_t)len) : 0);
    if (rc == 0) hwloc_free_xmlbuffer(t, xml);
    break; }
  case BAT_SYNTHETIC: {
    char buf[2048];
    for (unsigned long fl = 0; fl < 16; fl += 5) { int n = hwloc_topology_export_synthetic(t, buf, sizeof(buf), fl); sb_printf(b, "syn%lu=%d:%s\n", fl, n, n >= 0 ? buf : ""); }
    break; }
  }
}

void battery_all(hwloc_topology_t t, struct sb *b)
{
  for (int g = 0; g < BAT_NGROUPS; g++) { sb_printf(b, "== group %d\n", g); battery_group(t, g, b); sb_putc(b, '\n'); }
}
