#include "canon.h"
#include "refset.h"
#include "hwloc.h"
#include <inttypes.h>

static void put_set(struct sb *b, const char *tag, hwloc_const_bitmap_t s)
{
  refset r;
  sb_puts(b, tag);
  if (!s) { sb_puts(b, "NULL"); return; }
  rs_from_bitmap(&r, s);
  rs_print(b, &r);
}

static void put_infos(struct sb *b, const struct hwloc_infos_s *infos)
{
  if (!infos) { sb_puts(b, " infos=<none>"); return; }
  sb_printf(b, " infos[%u]=", infos->count);
  for (unsigned i = 0; i < infos->count; i++) {
    sb_put_escaped(b, infos->array[i].name); sb_putc(b, '='); sb_put_escaped(b, infos->array[i].value); sb_putc(b, ';');
  }
}

static void put_objref(struct sb *b, hwloc_obj_t o, unsigned flags)
{
  if (!o) { sb_puts(b, "NULL"); return; }
  if (flags & CANON_GP) sb_printf(b, "%s:gp%" PRIu64, hwloc_obj_type_string(o->type), o->gp_index);
  else sb_printf(b, "%s:L%u", hwloc_obj_type_string(o->type), o->logical_index);
}

static void put_pci(struct sb *b, const struct hwloc_pcidev_attr_s *p)
{
  sb_printf(b, "%04x:%02x:%02x.%01x class=%04x pif=%02x id=%04x:%04x sub=%04x:%04x rev=%02x link=%.6f",
            p->domain, p->bus, p->dev, p->func, p->class_id, p->prog_if, p->vendor_id, p->device_id,
            p->subvendor_id, p->subdevice_id, p->revision, (double)p->linkspeed);
}

static void put_attr(struct sb *b, hwloc_obj_t o)
{
  if (!o->attr) { sb_puts(b, " attr=NULL"); return; }
  switch (o->type) {
  case HWLOC_OBJ_NUMANODE:
    sb_printf(b, " local_memory=%" PRIu64 " page_types[%u]=", o->attr->numanode.local_memory, o->attr->numanode.page_types_len);
    for (unsigned i = 0; i < o->attr->numanode.page_types_len; i++)
      sb_printf(b, "%" PRIu64 "x%" PRIu64 ",", o->attr->numanode.page_types[i].size, o->attr->numanode.page_types[i].count);
    break;
  case HWLOC_OBJ_L1CACHE: case HWLOC_OBJ_L2CACHE: case HWLOC_OBJ_L3CACHE: case HWLOC_OBJ_L4CACHE: case HWLOC_OBJ_L5CACHE:
  case HWLOC_OBJ_L1ICACHE: case HWLOC_OBJ_L2ICACHE: case HWLOC_OBJ_L3ICACHE: case HWLOC_OBJ_MEMCACHE:
    sb_printf(b, " cache(size=%" PRIu64 " depth=%u line=%u assoc=%d type=%d)", o->attr->cache.size, o->attr->cache.depth,
              o->attr->cache.linesize, o->attr->cache.associativity, (int)o->attr->cache.type);
    break;
  case HWLOC_OBJ_GROUP:
    sb_printf(b, " group(depth=%u kind=%u subkind=%u dont_merge=%u)", o->attr->group.depth, o->attr->group.kind,
              o->attr->group.subkind, (unsigned)o->attr->group.dont_merge);
    break;
  case HWLOC_OBJ_PCI_DEVICE:
    sb_puts(b, " pci("); put_pci(b, &o->attr->pcidev); sb_putc(b, ')');
    break;
  case HWLOC_OBJ_BRIDGE:
    sb_printf(b, " bridge(up=%d down=%d depth=%u", (int)o->attr->bridge.upstream_type, (int)o->attr->bridge.downstream_type, o->attr->bridge.depth);
    if (o->attr->bridge.upstream_type == HWLOC_OBJ_BRIDGE_PCI) { sb_puts(b, " uppci="); put_pci(b, &o->attr->bridge.upstream.pci); }
    if (o->attr->bridge.downstream_type == HWLOC_OBJ_BRIDGE_PCI)
      sb_printf(b, " downpci=%04x:[%02x-%02x]", o->attr->bridge.downstream.pci.domain, o->attr->bridge.downstream.pci.secondary_bus, o->attr->bridge.downstream.pci.subordinate_bus);
    sb_putc(b, ')');
    break;
  case HWLOC_OBJ_OS_DEVICE:
    sb_printf(b, " osdev(types=%#lx)", (unsigned long)o->attr->osdev.types);
    break;
  default:
    break;
  }
}

static void put_obj(struct sb *b, hwloc_obj_t o, int indent, char list, unsigned flags)
{
  for (int i = 0; i < indent; i++) sb_putc(b, ' ');
  sb_printf(b, "%c %s os=%d", list, hwloc_obj_type_string(o->type), (int)o->os_index);
  if (flags & CANON_GP) sb_printf(b, " gp=%" PRIu64, o->gp_index);
  if (flags & CANON_LEVELS) {
    if (o->depth >= 0 || (flags & CANON_SPECIAL_ORDER)) sb_printf(b, " depth=%d L=%u rank=%u", o->depth, o->logical_index, o->sibling_rank);
    else sb_printf(b, " depth=%d rank=%u", o->depth, o->sibling_rank);
  }
  sb_printf(b, " arity=%u/%u/%u/%u", o->arity, o->memory_arity, o->io_arity, o->misc_arity);
  put_set(b, " cpuset=", o->cpuset); put_set(b, " complete_cpuset=", o->complete_cpuset);
  put_set(b, " nodeset=", o->nodeset); put_set(b, " complete_nodeset=", o->complete_nodeset);
  if (flags & CANON_ATTRS) {
    sb_puts(b, " subtype="); sb_put_escaped(b, o->subtype);
    sb_puts(b, " name="); sb_put_escaped(b, o->name);
    sb_printf(b, " total_memory=%" PRIu64, o->total_memory);
    put_attr(b, o);
  }
  if (flags & CANON_SYMM) sb_printf(b, " symm=%d", o->symmetric_subtree);
  if (flags & CANON_INFOS) put_infos(b, &o->infos);
  if (flags & CANON_USERDATA) sb_printf(b, " userdata=%p", o->userdata);
  sb_putc(b, '\n');
}

static void walk(struct sb *b, hwloc_obj_t o, int indent, char list, unsigned flags, unsigned *guard)
{
  hwloc_obj_t c;
  if (++*guard > 2000000) { sb_puts(b, "!!! walk does not terminate\n"); return; }
  put_obj(b, o, indent, list, flags);
  for (c = o->first_child; c; c = c->next_sibling) walk(b, c, indent + 1, 'N', flags, guard);
  for (c = o->memory_first_child; c; c = c->next_sibling) walk(b, c, indent + 1, 'M', flags, guard);
  for (c = o->io_first_child; c; c = c->next_sibling) walk(b, c, indent + 1, 'I', flags, guard);
  for (c = o->misc_first_child; c; c = c->next_sibling) walk(b, c, indent + 1, 'X', flags, guard);
}

static void walk_collect(hwloc_obj_t o, hwloc_obj_t **objs, unsigned *n, unsigned *cap)
{
  hwloc_obj_t c;
  if (*n > 2000000) return;
  if (*n == *cap) { *cap = *cap ? *cap * 2 : 256; *objs = realloc(*objs, *cap * sizeof(hwloc_obj_t)); }
  (*objs)[(*n)++] = o;
  for (c = o->first_child; c; c = c->next_sibling) walk_collect(c, objs, n, cap);
  for (c = o->memory_first_child; c; c = c->next_sibling) walk_collect(c, objs, n, cap);
  for (c = o->io_first_child; c; c = c->next_sibling) walk_collect(c, objs, n, cap);
  for (c = o->misc_first_child; c; c = c->next_sibling) walk_collect(c, objs, n, cap);
}

unsigned canon_walk(hwloc_topology_t t, hwloc_obj_t **objsp)
{
  unsigned n = 0, cap = 0;
  *objsp = NULL;
  walk_collect(hwloc_get_root_obj(t), objsp, &n, &cap);
  return n;
}

static const int SPECIAL_DEPTHS[] = { HWLOC_TYPE_DEPTH_NUMANODE, HWLOC_TYPE_DEPTH_BRIDGE, HWLOC_TYPE_DEPTH_PCI_DEVICE,
                                      HWLOC_TYPE_DEPTH_OS_DEVICE, HWLOC_TYPE_DEPTH_MISC, HWLOC_TYPE_DEPTH_MEMCACHE };

static void put_support(struct sb *b, hwloc_topology_t t)
{
  const struct hwloc_topology_support *s = hwloc_topology_get_support(t);
  const unsigned char *p;
  sb_puts(b, "support discovery=");
  p = (const unsigned char *)s->discovery; for (size_t i = 0; i < sizeof(*s->discovery); i++) sb_printf(b, "%u", p[i]);
  sb_puts(b, " cpubind=");
  p = (const unsigned char *)s->cpubind; for (size_t i = 0; i < sizeof(*s->cpubind); i++) sb_printf(b, "%u", p[i]);
  sb_puts(b, " membind=");
  p = (const unsigned char *)s->membind; for (size_t i = 0; i < sizeof(*s->membind); i++) sb_printf(b, "%u", p[i]);
  sb_puts(b, " misc=");
  p = (const unsigned char *)s->misc; for (size_t i = 0; i < sizeof(*s->misc); i++) sb_printf(b, "%u", p[i]);
  sb_putc(b, '\n');
}

static void put_distances(struct sb *b, hwloc_topology_t t, unsigned flags)
{
  unsigned nr = 0;
  if (hwloc_distances_get(t, &nr, NULL, 0, 0) < 0) { sb_puts(b, "distances: get failed\n"); return; }
  sb_printf(b, "distances[%u]\n", nr);
  if (!nr) return;
  struct hwloc_distances_s **d = calloc(nr, sizeof(*d));
  unsigned nr2 = nr;
  if (hwloc_distances_get(t, &nr2, d, 0, 0) < 0 || nr2 != nr) { sb_printf(b, " distances: second get returned %u\n", nr2); if (nr2 > nr) nr2 = nr; }
  /* the XML document lists homogeneous structures first, then heterogeneous ones (documented in the exporter): when the
   * dump serves an XML comparison (CANON_SPECIAL_ORDER off) the list is emitted in that order, list order inside each class */
  int passes = (flags & CANON_SPECIAL_ORDER) ? 1 : 2;
  for (int pass = 0; pass < passes; pass++)
  for (unsigned i = 0; i < nr2; i++) {
    if (passes == 2 && !!(d[i]->kind & HWLOC_DISTANCES_KIND_HETEROGENEOUS_TYPES) != pass) continue;
    const char *name = hwloc_distances_get_name(t, d[i]);
    sb_puts(b, " dist name="); sb_put_escaped(b, name);
    sb_printf(b, " kind=%#lx nbobjs=%u objs=", d[i]->kind, d[i]->nbobjs);
    for (unsigned j = 0; j < d[i]->nbobjs; j++) { put_objref(b, d[i]->objs[j], flags); sb_putc(b, ','); }
    sb_puts(b, " values=");
    for (unsigned j = 0; j < d[i]->nbobjs * d[i]->nbobjs; j++) sb_printf(b, "%" PRIu64 ",", d[i]->values[j]);
    sb_putc(b, '\n');
  }
  for (unsigned i = 0; i < nr2; i++) hwloc_distances_release(t, d[i]);
  free(d);
}

static void put_location(struct sb *b, const struct hwloc_location *l, unsigned flags)
{
  if (l->type == HWLOC_LOCATION_TYPE_CPUSET) put_set(b, "cpuset", l->location.cpuset);
  else if (l->type == HWLOC_LOCATION_TYPE_OBJECT) { sb_puts(b, "obj:"); put_objref(b, l->location.object, flags); }
  else sb_printf(b, "loctype%d", (int)l->type);
}

static void put_memattrs(struct sb *b, hwloc_topology_t t, unsigned flags)
{
  for (hwloc_memattr_id_t id = 0; id < 10000; id++) {
    const char *name = NULL; unsigned long fl = 0;
    if (hwloc_memattr_get_name(t, id, &name) < 0) break;
    hwloc_memattr_get_flags(t, id, &fl);
    sb_printf(b, "memattr %u name=", id); sb_put_escaped(b, name); sb_printf(b, " flags=%#lx\n", fl);
    unsigned nr = 0;
    if (hwloc_memattr_get_targets(t, id, NULL, 0, &nr, NULL, NULL) < 0) { sb_puts(b, "  get_targets failed\n"); continue; }
    if (!nr) continue;
    hwloc_obj_t *tg = calloc(nr, sizeof(*tg)); hwloc_uint64_t *vals = calloc(nr, sizeof(*vals));
    unsigned nr2 = nr;
    hwloc_memattr_get_targets(t, id, NULL, 0, &nr2, tg, vals);
    if (nr2 > nr) nr2 = nr;
    for (unsigned i = 0; i < nr2; i++) {
      sb_puts(b, "  target "); put_objref(b, tg[i], flags);
      if (fl & HWLOC_MEMATTR_FLAG_NEED_INITIATOR) {
        unsigned ni = 0;
        if (hwloc_memattr_get_initiators(t, id, tg[i], 0, &ni, NULL, NULL) < 0) { sb_puts(b, " get_initiators failed\n"); continue; }
        struct hwloc_location *in = calloc(ni ? ni : 1, sizeof(*in)); hwloc_uint64_t *iv = calloc(ni ? ni : 1, sizeof(*iv));
        unsigned ni2 = ni;
        hwloc_memattr_get_initiators(t, id, tg[i], 0, &ni2, in, iv);
        if (ni2 > ni) ni2 = ni;
        sb_printf(b, " initiators[%u]:", ni2);
        for (unsigned j = 0; j < ni2; j++) { sb_putc(b, ' '); put_location(b, &in[j], flags); sb_printf(b, "=%" PRIu64, iv[j]); }
        free(in); free(iv);
      } else {
        hwloc_uint64_t v = 0;
        int rc = hwloc_memattr_get_value(t, id, tg[i], NULL, 0, &v);
        sb_printf(b, " value=%" PRIu64 " rc=%d listed=%" PRIu64, v, rc, vals[i]);
      }
      sb_putc(b, '\n');
    }
    free(tg); free(vals);
  }
}

static void put_cpukinds(struct sb *b, hwloc_topology_t t)
{
  int nr = hwloc_cpukinds_get_nr(t, 0);
  sb_printf(b, "cpukinds[%d]\n", nr);
  hwloc_bitmap_t set = hwloc_bitmap_alloc();
  for (int i = 0; i < nr; i++) {
    int eff = -2; struct hwloc_infos_s *infos = NULL;
    int rc = hwloc_cpukinds_get_info(t, (unsigned)i, set, &eff, &infos, 0);
    sb_printf(b, " kind %d rc=%d eff=%d", i, rc, eff); put_set(b, " cpuset=", set);
    if (rc == 0) put_infos(b, infos);
    sb_putc(b, '\n');
  }
  hwloc_bitmap_free(set);
}

void canon(struct sb *b, hwloc_topology_t t, unsigned flags)
{
  unsigned guard = 0;
  walk(b, hwloc_get_root_obj(t), 0, 'R', flags, &guard);
  if (flags & CANON_LEVELS) {
    int depth = hwloc_topology_get_depth(t);
    sb_printf(b, "depth=%d memory_parents_depth=%d\n", depth, hwloc_get_memory_parents_depth(t));
    for (int d = 0; d < depth; d++)
      sb_printf(b, "level %d type=%s n=%u\n", d, hwloc_obj_type_string(hwloc_get_depth_type(t, d)), hwloc_get_nbobjs_by_depth(t, d));
    for (unsigned k = 0; k < sizeof(SPECIAL_DEPTHS) / sizeof(SPECIAL_DEPTHS[0]); k++) {
      int d = SPECIAL_DEPTHS[k]; unsigned n = hwloc_get_nbobjs_by_depth(t, d);
      sb_printf(b, "level %d n=%u:", d, n);
      if (flags & CANON_SPECIAL_ORDER) for (unsigned i = 0; i < n; i++) { hwloc_obj_t o = hwloc_get_obj_by_depth(t, d, i); sb_putc(b, ' '); if (o) sb_printf(b, "%s#%d", hwloc_obj_type_string(o->type), (int)o->os_index); else sb_puts(b, "NULL"); }
      sb_putc(b, '\n');
    }
  }
  put_set(b, "topology_cpuset=", hwloc_topology_get_topology_cpuset(t));
  put_set(b, " complete_cpuset=", hwloc_topology_get_complete_cpuset(t));
  put_set(b, " topology_nodeset=", hwloc_topology_get_topology_nodeset(t));
  put_set(b, " complete_nodeset=", hwloc_topology_get_complete_nodeset(t));
  sb_putc(b, '\n');
  if (flags & CANON_ALLOWED) {
    put_set(b, "allowed_cpuset=", hwloc_topology_get_allowed_cpuset(t));
    put_set(b, " allowed_nodeset=", hwloc_topology_get_allowed_nodeset(t));
    sb_putc(b, '\n');
  }
  if (flags & CANON_INFOS) { sb_puts(b, "topology"); put_infos(b, hwloc_topology_get_infos(t)); sb_putc(b, '\n'); }
  if (flags & CANON_CONFIG) {
    sb_printf(b, "flags=%#lx thissystem=%d filters=", hwloc_topology_get_flags(t), hwloc_topology_is_thissystem(t));
    for (int ty = HWLOC_OBJ_TYPE_MIN; ty < HWLOC_OBJ_TYPE_MAX; ty++) {
      enum hwloc_type_filter_e f = (enum hwloc_type_filter_e)-1;
      hwloc_topology_get_type_filter(t, (hwloc_obj_type_t)ty, &f);
      sb_printf(b, "%d", (int)f);
    }
    sb_putc(b, '\n');
  }
  if (flags & CANON_SUPPORT) put_support(b, t);
  if (flags & CANON_DIST) put_distances(b, t, flags);
  if (flags & CANON_MEMATTR) put_memattrs(b, t, flags);
  if (flags & CANON_CPUKINDS) put_cpukinds(b, t);
}

char *canon_str(hwloc_topology_t t, unsigned flags)
{
  struct sb b; sb_init(&b);
  canon(&b, t, flags);
  return sb_steal(&b);
}

const char *canon_diff(const char *a, const char *b)
{
  static char buf[1400];
  const char *la = a, *lb = b;
  int line = 1;
  while (*la && *lb) {
    const char *ea = strchr(la, '\n'), *eb = strchr(lb, '\n');
    size_t na = ea ? (size_t)(ea - la) : strlen(la), nb = eb ? (size_t)(eb - lb) : strlen(lb);
    if (na != nb || memcmp(la, lb, na)) {
      /* show the part of the line around the first differing column */
      size_t c = 0; while (c < na && c < nb && la[c] == lb[c]) c++;
      size_t s = c > 80 ? c - 80 : 0;
      snprintf(buf, sizeof(buf), "line %d col %zu: <<%.*s>> vs <<%.*s>> (line starts: %.60s)", line, c,
               (int)(na - s > 300 ? 300 : na - s), la + s, (int)(nb - s > 300 ? 300 : nb - s), lb + s, la);
      for (char *p = buf; *p; p++) if (*p == '\n') *p = ' ';
      return buf;
    }
    la += na + (ea ? 1 : 0); lb += nb + (eb ? 1 : 0); line++;
  }
  if (*la || *lb) { snprintf(buf, sizeof(buf), "line %d: one dump ends early: <<%.200s>> vs <<%.200s>>", line, la, lb); for (char *p = buf; *p; p++) if (*p == '\n') *p = ' '; return buf; }
  return "(identical)";
}
