#define _GNU_SOURCE
#include "mcsched.h"
#include <stdio.h>
#include <stdlib.h>
#include <string.h>
#include <signal.h>
#include <ucontext.h>
#include <pthread.h>
#include <unistd.h>
#include <errno.h>
#include <time.h>
#include <dlfcn.h>
#include <sys/mman.h>
#include <sys/syscall.h>
#include <linux/futex.h>

#define PAGE 4096UL
#define MAXP 8192          /* scheduling points with a choice, per execution */

/* ------------------------------------------------------------------ regions */
static char *G_lo, *G_hi, *G_snap;
static struct ro { char *lo; size_t len; char name[32]; } RO[8]; static int nro;
static mcs_report_fn reporter;
void mcs_set_reporter(mcs_report_fn fn) { reporter = fn; }

/* ------------------------------------------------------------------ symbols */
struct sym { uintptr_t addr; char type; char *name; };
static struct sym *SYM; static size_t nsym;
static void load_symbols(void)
{
  char exe[600], cmd[700]; ssize_t el = readlink("/proc/self/exe", exe, sizeof(exe) - 1); if (el <= 0) return; exe[el] = 0;
  snprintf(cmd, sizeof(cmd), "nm -n --defined-only '%s' 2>/dev/null", exe);
  FILE *p = popen(cmd, "r"); if (!p) return;
  char line[1024]; size_t cap = 0;
  while (fgets(line, sizeof(line), p)) {
    unsigned long a; char t; char name[900];
    if (sscanf(line, "%lx %c %899s", &a, &t, name) != 3) continue;
    if (nsym == cap) { cap = cap ? cap * 2 : 16384; SYM = realloc(SYM, cap * sizeof(*SYM)); }
    SYM[nsym].addr = a; SYM[nsym].type = t; SYM[nsym].name = strdup(name); nsym++;
  }
  pclose(p);
}
const char *mcs_symbol(uintptr_t addr, char *buf, size_t n)
{
  size_t lo = 0, hi = nsym;
  while (lo < hi) { size_t mid = (lo + hi) / 2; if (SYM[mid].addr <= addr) lo = mid + 1; else hi = mid; }
  if (!lo) { snprintf(buf, n, "%#lx", (unsigned long)addr); return buf; }
  /* prefer a non-pad symbol at the same address */
  const struct sym *s = &SYM[lo - 1];
  if (addr - s->addr) snprintf(buf, n, "%s+%lu", s->name, (unsigned long)(addr - s->addr)); else snprintf(buf, n, "%s", s->name);
  return buf;
}
void *mcs_symbol_addr(const char *name)
{
  for (size_t i = 0; i < nsym; i++) if (!strcmp(SYM[i].name, name)) return (void *)SYM[i].addr;
  return NULL;
}
/* name of the variable only (races and written globals are keyed by variable, not by byte) */
static const char *varname(uintptr_t addr, char *buf, size_t n)
{
  mcs_symbol(addr, buf, n); char *p = strchr(buf, '+'); if (p) *p = 0; return buf;
}

/* ------------------------------------------------------------------ threads and scheduler */
enum { ST_NONE, ST_RUNNABLE, ST_BLOCKED, ST_DONE };
struct thr {
  pthread_t th; int state; void *blocked_on; int go;
  uint32_t vc[MCS_MAXT]; int held;
  char *step[4]; int step_prot[4]; int nstep;
};
static struct thr T[MCS_MAXT];
static int nthreads, cur = -1, main_go;
static __thread int my_tid = -1;
static volatile int running;          /* workers are under the scheduler */
static const struct mcs_cfg *CFG;
static struct mcs_stats *ST;

struct mx { void *addr; int owner; uint32_t vc[MCS_MAXT]; };
static struct mx MX[64]; static int nmx;

static int prefix[MAXP], nprefix;
static struct point { unsigned char nen, me_enabled, chosen; } PT[MAXP];
static int npts, overflow_points, dead;

static void fwait(int *w) { while (__atomic_load_n(w, __ATOMIC_ACQUIRE) == 0) syscall(SYS_futex, w, FUTEX_WAIT, 0, NULL, NULL, 0); __atomic_store_n(w, 0, __ATOMIC_RELAXED); }
static void fwake(int *w) { __atomic_store_n(w, 1, __ATOMIC_RELEASE); syscall(SYS_futex, w, FUTEX_WAKE, 1, NULL, NULL, 0); }

static void schedule_text(char *buf, size_t n)
{
  size_t l = 0; buf[0] = 0;
  for (int i = 0; i < npts && l + 4 < n; i++) l += (size_t)snprintf(buf + l, n - l, "%s%d", i ? "." : "", PT[i].chosen);
}
static void report(const char *kind, const char *what)
{
  struct mcs_report r; memset(&r, 0, sizeof(r)); r.kind = kind; snprintf(r.what, sizeof(r.what), "%s", what); schedule_text(r.schedule, sizeof(r.schedule));
  if (reporter) reporter(&r);
}

/* picks the thread to run next; me = the calling thread (or -1 from main), returns -1 if none is enabled */
static int choose(int me)
{
  int en[MCS_MAXT], n = 0, me_enabled = 0;
  if (me >= 0 && T[me].state == ST_RUNNABLE) { en[n++] = me; me_enabled = 1; }
  for (int i = 0; i < nthreads; i++) if (i != me && T[i].state == ST_RUNNABLE) en[n++] = i;
  if (!n) return -1;
  ST->points++;
  if (n == 1) return en[0];
  int idx = 0;
  if (npts < nprefix) { idx = prefix[npts]; if (idx >= n) { report("crash", "replay diverged: a recorded choice is out of range (the execution is not deterministic)"); idx = 0; dead = 1; } }
  if (npts < MAXP) { PT[npts].nen = (unsigned char)n; PT[npts].me_enabled = (unsigned char)me_enabled; PT[npts].chosen = (unsigned char)idx; npts++; } else overflow_points = 1;
  return en[idx];
}
static void switch_from(int me, int next)
{
  if (next == me) return;
  cur = next; fwake(&T[next].go);
  if (T[me].state != ST_DONE) fwait(&T[me].go);
}
static void sched_point(int me)
{
  int next = choose(me);
  if (next < 0) return;           /* cannot happen while me is runnable */
  switch_from(me, next);
}
/* the calling thread cannot continue (blocked or done): hand over, or end the execution */
static void yield_blocked(int me)
{
  int next = choose(me);
  if (next < 0) {
    int blocked = 0; for (int i = 0; i < nthreads; i++) if (T[i].state == ST_BLOCKED) blocked++;
    if (blocked) { ST->deadlocks++; dead = 1; report("deadlock", "no thread is enabled although some have not finished (every remaining thread waits for a mutex)"); }
    fwake(&main_go);
    if (T[me].state != ST_DONE) fwait(&T[me].go);   /* never woken: the process ends soon */
    return;
  }
  switch_from(me, next);
}

/* ------------------------------------------------------------------ modelled mutexes */
static struct mx *mx_of(void *addr)
{
  for (int i = 0; i < nmx; i++) if (MX[i].addr == addr) return &MX[i];
  if (nmx == 64) return &MX[0];
  MX[nmx].addr = addr; MX[nmx].owner = -1; memset(MX[nmx].vc, 0, sizeof(MX[nmx].vc)); return &MX[nmx++];
}
static int (*real_lock)(pthread_mutex_t *), (*real_unlock)(pthread_mutex_t *), (*real_trylock)(pthread_mutex_t *);
static void resolve_real(void)
{
  real_lock = (int (*)(pthread_mutex_t *))dlsym(RTLD_NEXT, "pthread_mutex_lock");
  real_unlock = (int (*)(pthread_mutex_t *))dlsym(RTLD_NEXT, "pthread_mutex_unlock");
  real_trylock = (int (*)(pthread_mutex_t *))dlsym(RTLD_NEXT, "pthread_mutex_trylock");
}
int pthread_mutex_lock(pthread_mutex_t *m)
{
  if (my_tid < 0 || !running) { if (!real_lock) resolve_real(); return real_lock(m); }
  int me = my_tid; struct mx *x = mx_of(m);
  sched_point(me);
  while (x->owner >= 0 && x->owner != me) { T[me].state = ST_BLOCKED; T[me].blocked_on = m; yield_blocked(me); }
  x->owner = me; T[me].held++;
  for (int i = 0; i < MCS_MAXT; i++) if (x->vc[i] > T[me].vc[i]) T[me].vc[i] = x->vc[i];
  return 0;
}
int pthread_mutex_unlock(pthread_mutex_t *m)
{
  if (my_tid < 0 || !running) { if (!real_unlock) resolve_real(); return real_unlock(m); }
  int me = my_tid; struct mx *x = mx_of(m);
  memcpy(x->vc, T[me].vc, sizeof(x->vc)); T[me].vc[me]++;
  x->owner = -1; if (T[me].held > 0) T[me].held--;
  for (int i = 0; i < nthreads; i++) if (T[i].state == ST_BLOCKED && T[i].blocked_on == m) { T[i].state = ST_RUNNABLE; T[i].blocked_on = NULL; }
  sched_point(me);
  return 0;
}
int pthread_mutex_trylock(pthread_mutex_t *m)
{
  if (my_tid < 0 || !running) { if (!real_trylock) resolve_real(); return real_trylock(m); }
  int me = my_tid; struct mx *x = mx_of(m);
  sched_point(me);
  if (x->owner >= 0 && x->owner != me) return EBUSY;
  x->owner = me; T[me].held++;
  for (int i = 0; i < MCS_MAXT; i++) if (x->vc[i] > T[me].vc[i]) T[me].vc[i] = x->vc[i];
  return 0;
}

/* ------------------------------------------------------------------ race detector (happens-before) */
struct shadow { uintptr_t addr; int wtid; uint32_t wclk; uint32_t rclk[MCS_MAXT]; uintptr_t wip, rip[MCS_MAXT]; };
#define NSH 8192
static struct shadow SH[NSH];
static char written[64][64]; static int nwritten;          /* names of globals written by workers (all executions) */
static char raced[64][64]; static int nraced;

static struct shadow *shadow_of(uintptr_t a)
{
  a &= ~3UL;          /* 4-byte granules: the library's flags and counters are ints, neighbours must not be confused */
  size_t h = (a * 0x9E3779B97F4A7C15UL) >> 51;
  for (size_t k = 0; k < NSH; k++) { struct shadow *s = &SH[(h + k) % NSH]; if (s->addr == a) return s; if (!s->addr) { memset(s, 0, sizeof(*s)); s->addr = a; s->wtid = -1; return s; } }
  return &SH[h % NSH];
}
static void note_name(char tab[][64], int *n, const char *name) { for (int i = 0; i < *n; i++) if (!strcmp(tab[i], name)) return; if (*n < 64) snprintf(tab[(*n)++], 64, "%s", name); }
static void race(uintptr_t addr, int t, int w, uintptr_t ip, int u, int uw, uintptr_t uip)
{
  char v[128], f1[160], f2[160], what[400];
  varname(addr, v, sizeof(v)); mcs_symbol(ip, f1, sizeof(f1)); mcs_symbol(uip, f2, sizeof(f2));
  ST->races++;
  int known = 0; for (int i = 0; i < nraced; i++) if (!strcmp(raced[i], v)) known = 1;
  note_name(raced, &nraced, v);
  if (known) return;       /* one report per variable */
  snprintf(what, sizeof(what), "%s: %s by thread %d at %s is not ordered with the %s by thread %d at %s", v, w ? "write" : "read", t, f1, uw ? "write" : "read", u, f2);
  report("race", what);
}
static void access_event(int me, uintptr_t a, int w, uintptr_t ip)
{
  ST->accesses++;
  /* an access made while no modelled mutex is held is a scheduling point */
  if (!T[me].held) sched_point(me);
  struct shadow *s = shadow_of(a);
  if (w) {
    char v[128]; note_name(written, &nwritten, varname(a, v, sizeof(v)));
    for (int u = 0; u < nthreads; u++) if (u != me && s->rclk[u] > T[me].vc[u]) race(a, me, 1, ip, u, 0, s->rip[u]);
    if (s->wtid >= 0 && s->wtid != me && s->wclk > T[me].vc[s->wtid]) race(a, me, 1, ip, s->wtid, 1, s->wip);
    s->wtid = me; s->wclk = T[me].vc[me]; s->wip = ip;
  } else {
    if (s->wtid >= 0 && s->wtid != me && s->wclk > T[me].vc[s->wtid]) race(a, me, 0, ip, s->wtid, 1, s->wip);
    s->rclk[me] = T[me].vc[me]; s->rip[me] = ip;
  }
}
int mcs_written_globals(char *buf, size_t n) { size_t l = 0; buf[0] = 0; for (int i = 0; i < nwritten && l + 70 < n; i++) l += (size_t)snprintf(buf + l, n - l, "%s%s", i ? " " : "", written[i]); return nwritten; }

/* ------------------------------------------------------------------ memory monitor */
static struct sigaction prev_segv;
static char ro_reported[32][96]; static int nro_reported;

static void step_page(int me, char *page, int restore_prot)
{
  struct thr *t = &T[me];
  mprotect(page, PAGE, PROT_READ | PROT_WRITE);
  if (t->nstep < 4) { t->step[t->nstep] = page; t->step_prot[t->nstep] = restore_prot; t->nstep++; }
}
static void on_segv(int sig, siginfo_t *si, void *ctx)
{
  ucontext_t *uc = ctx; char *a = si->si_addr; int me = my_tid;
  int w = (uc->uc_mcontext.gregs[REG_ERR] & 2) != 0; uintptr_t ip = (uintptr_t)uc->uc_mcontext.gregs[REG_RIP];
  if (me >= 0 && running && a >= G_lo && a < G_hi) {
    if (!T[me].nstep) access_event(me, (uintptr_t)a, w, ip);      /* a second page touched by the same instruction is the same event */
    step_page(me, (char *)((uintptr_t)a & ~(PAGE - 1)), PROT_NONE);
    uc->uc_mcontext.gregs[REG_EFL] |= 0x100;
    return;
  }
  if (me >= 0 && running && w) for (int i = 0; i < nro; i++) if (a >= RO[i].lo && a < RO[i].lo + RO[i].len) {
    char f[160], what[400]; mcs_symbol(ip, f, sizeof(f)); ST->readonly_writes++;
    char key[96]; snprintf(key, sizeof(key), "%s", f); char *p = strchr(key, '+'); if (p) *p = 0;
    int known = 0; for (int k = 0; k < nro_reported; k++) if (!strcmp(ro_reported[k], key)) known = 1;
    if (!known) { if (nro_reported < 32) snprintf(ro_reported[nro_reported++], 96, "%s", key); snprintf(what, sizeof(what), "%s: thread %d stores into the shared %s (offset %ld) at %s", key, me, RO[i].name, (long)(a - RO[i].lo), f); report("readonly-write", what); }
    step_page(me, (char *)((uintptr_t)a & ~(PAGE - 1)), PROT_READ);
    uc->uc_mcontext.gregs[REG_EFL] |= 0x100;
    return;
  }
  /* not ours: the previous handler (hwmc's protected-call machinery) or the default action */
  if (prev_segv.sa_flags & SA_SIGINFO) { if (prev_segv.sa_sigaction) { prev_segv.sa_sigaction(sig, si, ctx); return; } }
  else if (prev_segv.sa_handler && prev_segv.sa_handler != SIG_DFL && prev_segv.sa_handler != SIG_IGN) { prev_segv.sa_handler(sig); return; }
  signal(SIGSEGV, SIG_DFL);
}
static void on_trap(int sig, siginfo_t *si, void *ctx)
{
  ucontext_t *uc = ctx; int me = my_tid; (void)sig; (void)si;
  if (me >= 0) { struct thr *t = &T[me]; for (int i = 0; i < t->nstep; i++) mprotect(t->step[i], PAGE, t->step_prot[i]); t->nstep = 0; }
  uc->uc_mcontext.gregs[REG_EFL] &= ~0x100L;
}

void mcs_init(void *lo, void *hi)
{
  G_lo = lo; G_hi = hi;
  G_snap = malloc((size_t)(G_hi - G_lo)); memcpy(G_snap, G_lo, (size_t)(G_hi - G_lo));
  load_symbols(); resolve_real();
  struct sigaction sa; memset(&sa, 0, sizeof(sa)); sa.sa_flags = SA_SIGINFO | SA_NODEFER; sigemptyset(&sa.sa_mask);
  sa.sa_sigaction = on_segv; sigaction(SIGSEGV, &sa, &prev_segv);
  sa.sa_sigaction = on_trap; sigaction(SIGTRAP, &sa, NULL);
}
/* takes the current content of the globals as the state every execution starts from */
void mcs_snapshot_globals(void);
void mcs_snapshot_globals(void) { memcpy(G_snap, G_lo, (size_t)(G_hi - G_lo)); }
int mcs_readonly_region(void *lo, size_t len, const char *name) { if (nro == 8) return -1; RO[nro].lo = lo; RO[nro].len = len; snprintf(RO[nro].name, sizeof(RO[nro].name), "%s", name); return nro++; }
void mcs_readonly_clear(void) { nro = 0; }

/* ------------------------------------------------------------------ one execution */
static void *worker(void *arg)
{
  my_tid = (int)(intptr_t)arg; int me = my_tid;
  fwait(&T[me].go);
  CFG->body(me, CFG->arg);
  T[me].state = ST_DONE;
  yield_blocked(me);
  /* the last thread to finish finds nobody to run: yield_blocked woke main */
  return NULL;
}
static double now(void) { struct timespec ts; clock_gettime(CLOCK_MONOTONIC, &ts); return (double)ts.tv_sec + 1e-9 * (double)ts.tv_nsec; }

static void run_once(void)
{
  nthreads = CFG->nthreads; npts = 0; overflow_points = 0; nmx = 0; dead = 0;
  memset(SH, 0, sizeof(SH));
  memcpy(G_lo, G_snap, (size_t)(G_hi - G_lo));
  if (CFG->before) CFG->before(CFG->arg);
  for (int i = 0; i < nthreads; i++) { memset(&T[i], 0, sizeof(T[i])); T[i].state = ST_RUNNABLE; T[i].vc[i] = 1; }
  main_go = 0;
  pthread_attr_t at; pthread_attr_init(&at); pthread_attr_setstacksize(&at, 1 << 20);
  for (int i = 0; i < nthreads; i++) pthread_create(&T[i].th, &at, worker, (void *)(intptr_t)i);
  pthread_attr_destroy(&at);
  for (int i = 0; i < nro; i++) mprotect(RO[i].lo, RO[i].len, PROT_READ);
  mprotect(G_lo, (size_t)(G_hi - G_lo), PROT_NONE);
  running = 1;
  int first = choose(-1);
  cur = first; fwake(&T[first].go);
  fwait(&main_go);
  running = 0;
  mprotect(G_lo, (size_t)(G_hi - G_lo), PROT_READ | PROT_WRITE);
  for (int i = 0; i < nro; i++) mprotect(RO[i].lo, RO[i].len, PROT_READ | PROT_WRITE);
  if (!dead) for (int i = 0; i < nthreads; i++) pthread_join(T[i].th, NULL);
  ST->executions++;
  if ((uint64_t)npts > ST->max_points) ST->max_points = (uint64_t)npts;
  if (overflow_points) ST->capped = 1;
  if (!dead && CFG->after) CFG->after(CFG->arg);
}

static int preemptions_before(int i) { int c = 0; for (int k = 0; k < i; k++) if (PT[k].me_enabled && PT[k].chosen) c++; return c; }

struct frame { int n; int *c; };
void mcs_explore(const struct mcs_cfg *cfg, struct mcs_stats *st)
{
  CFG = cfg; ST = st; memset(st, 0, sizeof(*st)); st->bound_completed = -1;
  double t0 = now();
  for (int bound = 0; bound <= cfg->bound && !st->capped && !dead; bound++) {
    /* depth-first over choice prefixes; a prefix is explored by running it and taking choice 0 afterwards */
    struct frame *stack = NULL; size_t ns = 0, cap = 0;
    { if (ns == cap) { cap = 1024; stack = malloc(cap * sizeof(*stack)); } stack[ns].n = 0; stack[ns].c = NULL; ns++; }
    while (ns && !st->capped && !dead) {
      struct frame f = stack[--ns];
      nprefix = f.n; if (f.n) memcpy(prefix, f.c, (size_t)f.n * sizeof(int)); free(f.c);
      /* at lower bounds the same executions were already run: only executions that use exactly `bound` preemptions are new,
       * but running the others again is what keeps the enumeration simple; count the new ones */
      run_once();
      int used = preemptions_before(npts);
      if (used == bound && bound) st->preempting_executions++;
      for (int i = npts - 1; i >= f.n; i--) {
        int cost = preemptions_before(i) + (PT[i].me_enabled ? 1 : 0);
        if (cost > bound) continue;
        for (int alt = 1; alt < PT[i].nen; alt++) {
          if (ns == cap) { cap *= 2; stack = realloc(stack, cap * sizeof(*stack)); }
          stack[ns].n = i + 1; stack[ns].c = malloc((size_t)(i + 1) * sizeof(int));
          for (int k = 0; k < i; k++) stack[ns].c[k] = PT[k].chosen; stack[ns].c[i] = alt; ns++;
        }
      }
      if (cfg->max_executions && st->executions >= cfg->max_executions) st->capped = 1;
      if (cfg->deadline_s > 0 && now() - t0 > cfg->deadline_s) st->capped = 1;
    }
    for (size_t k = 0; k < ns; k++) free(stack[k].c);
    free(stack);
    if (!st->capped && !dead) st->bound_completed = bound;
  }
}

void mcs_replay(const struct mcs_cfg *cfg, const char *schedule, struct mcs_stats *st)
{
  CFG = cfg; ST = st; memset(st, 0, sizeof(*st)); st->bound_completed = -1;
  nprefix = 0; const char *p = schedule;
  while (p && *p && nprefix < MAXP) { prefix[nprefix++] = (int)strtol(p, (char **)&p, 10); if (*p == '.') p++; }
  run_once();
}
