#!/usr/bin/env python3
"""Build step shared by every check.

Compiles the hwloc library sources of /repo's *working tree* (with the HWLOC_VERIF
hooks enabled) into /verif/build/<variant>/libhwloc.a and links harness executables
against it.  Dependency tracking is -MMD + mtimes, so an edit under /repo rebuilds
exactly what it touches.  A file lock serialises concurrent builders.
"""
import os, sys, subprocess, fcntl, shlex, hashlib, json, re
from concurrent.futures import ThreadPoolExecutor

REPO = os.environ.get("VERIF_REPO", "/repo")
VERIF = os.path.dirname(os.path.dirname(os.path.abspath(__file__)))
BUILD = os.environ.get("VERIF_BUILD", os.path.join(VERIF, "build"))

LIB_SOURCES = """topology traversal distances memattrs cpukinds components bind bitmap
pci-common diff shmem misc base64 topology-noos topology-synthetic topology-xml
topology-xml-nolibxml topology-xml-libxml topology-pci topology-linux
topology-hardwired topology-x86""".split()

COMMON_DEFS = ["-DHAVE_CONFIG_H", "-DHWLOC_VERIF",
               "-I%s/include" % REPO, "-I%s/hwloc" % REPO, "-I/usr/include/libxml2",
               "-I%s/engine" % VERIF]
LIB_DEFS = ["-DHWLOC_INSIDE_LIBHWLOC", '-DHWLOC_PLUGINS_PATH="/nonexistent/hwloc-plugins"',
            '-DRUNSTATEDIR="/nonexistent/run"']
LIBS = ["-lxml2", "-ludev", "-lpciaccess", "-lm", "-lpthread", "-ldl"]

VARIANTS = {
    # ASan+UBSan, recoverable so that the explorers can attribute a report to a case
    "asan": dict(cc="clang",
                 cflags=["-O1", "-g", "-fno-omit-frame-pointer", "-fsanitize=address,undefined",
                         "-fno-sanitize=pointer-overflow,null,object-size", "-fsanitize-recover=address,undefined",
                         "-Wno-unused-command-line-argument"],
                 ldflags=["-fsanitize=address,undefined"]),
    # optimised, no sanitizer: for the very large enumerations whose oracle is a reference model
    "fast": dict(cc="clang", cflags=["-O2", "-g"], ldflags=[]),
    # C17: no sanitizer; the library's writable data sections are renamed so that its global variables form one
    # region (hwdata) that the harness can protect; not position independent so that nm addresses are run-time addresses
    "mon": dict(cc="clang", cflags=["-O1", "-g", "-fno-omit-frame-pointer", "-fno-pie"], ldflags=["-no-pie"], rename_data=True),
    "tsan": dict(cc="clang",
                 cflags=["-O1", "-g", "-fno-omit-frame-pointer", "-fsanitize=thread"],
                 ldflags=["-fsanitize=thread"]),
}


def log(msg):
    if os.environ.get("VERIF_VERBOSE"):
        sys.stderr.write("[build] %s\n" % msg)


def _deps_newer(obj, depfile):
    """True if obj must be rebuilt."""
    if not os.path.exists(obj) or not os.path.exists(depfile):
        return True
    mt = os.path.getmtime(obj)
    try:
        txt = open(depfile).read()
    except OSError:
        return True
    txt = txt.replace("\\\n", " ")
    parts = txt.split(":", 1)
    if len(parts) != 2:
        return True
    for dep in shlex.split(parts[1]):
        try:
            if os.path.getmtime(dep) > mt:
                return True
        except OSError:
            return True      # a header vanished: rebuild (and fail loudly if really needed)
    return False


def _compile(cc, flags, src, obj):
    dep = obj[:-2] + ".d"
    sig = obj[:-2] + ".sig"
    cmd = [cc] + flags + ["-MMD", "-MF", dep, "-c", src, "-o", obj]
    cmdsig = hashlib.sha1(" ".join(cmd).encode()).hexdigest()
    old = open(sig).read() if os.path.exists(sig) else ""
    if old == cmdsig and not _deps_newer(obj, dep):
        return False
    log("cc " + src)
    r = subprocess.run(cmd, stdout=subprocess.PIPE, stderr=subprocess.STDOUT, text=True)
    if r.returncode != 0:
        sys.stderr.write(r.stdout)
        raise SystemExit("build failed: %s" % " ".join(cmd))
    open(sig, "w").write(cmdsig)
    return True


def ensure_configured():
    need = [os.path.join(REPO, "include/private/autogen/config.h"),
            os.path.join(REPO, "include/hwloc/autogen/config.h"),
            os.path.join(REPO, "hwloc/static-components.h")]
    if all(os.path.exists(p) for p in need):
        return
    sys.stderr.write("[build] generated headers missing, running ./configure in %s\n" % REPO)
    if not os.path.exists(os.path.join(REPO, "configure")):
        subprocess.check_call(["./autogen.sh"], cwd=REPO)
    subprocess.check_call(["./configure", "--enable-static"], cwd=REPO,
                          stdout=subprocess.DEVNULL)


def check_source_list():
    """cross-check the source list against the enabled static components"""
    sc = open(os.path.join(REPO, "hwloc/static-components.h")).read()
    comps = re.findall(r"&hwloc_(\w+)_component", sc)
    m = {"noos": "topology-noos", "xml": "topology-xml", "synthetic": "topology-synthetic",
         "xml_nolibxml": "topology-xml-nolibxml", "linux": "topology-linux",
         "pci": "topology-pci", "xml_libxml": "topology-xml-libxml", "x86": "topology-x86"}
    for c in comps:
        if m.get(c) not in LIB_SOURCES:
            raise SystemExit("component %s enabled in static-components.h is not in the verif source list" % c)


class Lock:
    def __init__(self, name):
        os.makedirs(BUILD, exist_ok=True)
        self.path = os.path.join(BUILD, name + ".lock")

    def __enter__(self):
        self.f = open(self.path, "w")
        fcntl.flock(self.f, fcntl.LOCK_EX)
        return self

    def __exit__(self, *a):
        fcntl.flock(self.f, fcntl.LOCK_UN)
        self.f.close()


def build_lib(variant):
    v = VARIANTS[variant]
    out = os.path.join(BUILD, variant)
    os.makedirs(os.path.join(out, "lib"), exist_ok=True)
    with Lock("lib-" + variant):
        ensure_configured()
        check_source_list()
        flags = v["cflags"] + COMMON_DEFS + LIB_DEFS
        jobs = []
        for s in LIB_SOURCES:
            src = os.path.join(REPO, "hwloc", s + ".c")
            obj = os.path.join(out, "lib", s + ".o")
            jobs.append((v["cc"], flags, src, obj))
        with ThreadPoolExecutor(16) as ex:
            changed = list(ex.map(lambda j: _compile(*j), jobs))
        lib = os.path.join(out, "libhwloc.a")
        objs = [j[3] for j in jobs]
        if v.get("rename_data"):
            # archive copies whose .data/.bss are renamed to "hwdata" (the originals stay for dependency tracking)
            rdir = os.path.join(out, "lib-renamed")
            os.makedirs(rdir, exist_ok=True)
            robjs = []
            for (o, ch) in zip(objs, changed):
                r = os.path.join(rdir, os.path.basename(o))
                if ch or not os.path.exists(r):
                    subprocess.check_call(["objcopy", "--rename-section", ".bss=hwdata,alloc,load,data,contents",
                                           "--rename-section", ".data=hwdata", o, r])
                    # completeness: no writable data may stay outside hwdata
                    hdr = subprocess.run(["objdump", "-h", r], stdout=subprocess.PIPE, text=True).stdout
                    for line in hdr.splitlines():
                        f = line.split()
                        if len(f) >= 3 and f[1] in (".bss", ".data", ".tbss", ".tdata") and int(f[2], 16) != 0:
                            raise SystemExit("mon build: %s still has a %s section of %s bytes" % (r, f[1], f[2]))
                        if len(f) >= 3 and (f[1].startswith(".bss.") or (f[1].startswith(".data.") and not f[1].startswith(".data.rel.ro"))) and int(f[2], 16) != 0:
                            raise SystemExit("mon build: %s has an unexpected writable section %s" % (r, f[1]))
                robjs.append(r)
            objs = robjs
        if any(changed) or not os.path.exists(lib):
            if os.path.exists(lib):
                os.unlink(lib)
            subprocess.check_call(["ar", "rcs", lib] + objs)
        return lib


ENGINE_SOURCES = ["refset.c", "canon.c", "wf.c", "hwmc.c", "univ.c", "ops.c", "battery.c"]


def build_engine(variant):
    v = VARIANTS[variant]
    out = os.path.join(BUILD, variant, "engine")
    os.makedirs(out, exist_ok=True)
    with Lock("engine-" + variant):
        flags = v["cflags"] + COMMON_DEFS + ["-Wall", "-Wno-unused-function"]
        jobs = []
        for s in ENGINE_SOURCES:
            src = os.path.join(VERIF, "engine", s)
            if not os.path.exists(src):
                continue
            obj = os.path.join(out, s[:-2] + ".o")
            jobs.append((v["cc"], flags, src, obj))
        with ThreadPoolExecutor(16) as ex:
            changed = list(ex.map(lambda j: _compile(*j), jobs))
        lib = os.path.join(BUILD, variant, "libengine.a")
        if any(changed) or not os.path.exists(lib):
            if os.path.exists(lib):
                os.unlink(lib)
            subprocess.check_call(["ar", "rcs", lib] + [j[3] for j in jobs])
        return lib


def build_harness(name, variant="asan", extra_sources=(), extra_cflags=(), extra_ldflags=(),
                  with_engine=True):
    """harness/<name>.c (+extra sources) -> build/<variant>/bin/<name>"""
    v = VARIANTS[variant]
    lib = build_lib(variant)
    eng = build_engine(variant) if with_engine else None
    out = os.path.join(BUILD, variant, "bin")
    objd = os.path.join(BUILD, variant, "hobj")
    os.makedirs(out, exist_ok=True)
    os.makedirs(objd, exist_ok=True)
    with Lock("h-%s-%s" % (variant, name)):
        flags = v["cflags"] + COMMON_DEFS + ["-Wall", "-Wno-unused-function"] + list(extra_cflags)
        objs = []
        changed = False
        for s in [os.path.join(VERIF, "harness", name + ".c")] + [os.path.join(VERIF, x) for x in extra_sources]:
            obj = os.path.join(objd, name + "__" + os.path.basename(s)[:-2] + ".o")
            changed |= _compile(v["cc"], flags, s, obj)
            objs.append(obj)
        exe = os.path.join(out, name)
        deps = [lib] + ([eng] if eng else [])
        if (changed or not os.path.exists(exe)
                or any(os.path.getmtime(d) > os.path.getmtime(exe) for d in deps)):
            cmd = [v["cc"]] + v["ldflags"] + objs + ([eng] if eng else []) + [lib] + LIBS + list(extra_ldflags) + ["-o", exe]
            r = subprocess.run(cmd, stdout=subprocess.PIPE, stderr=subprocess.STDOUT, text=True)
            if r.returncode != 0:
                sys.stderr.write(r.stdout)
                raise SystemExit("link failed: " + " ".join(cmd))
        return exe


# command-line tools of the working tree, compiled with the same instrumented flags and linked
# statically against the instrumented library (C20)
TOOLS = {
    "hwloc-calc": ["utils/hwloc/hwloc-calc.c"],
    "hwloc-distrib": ["utils/hwloc/hwloc-distrib.c"],
    "hwloc-diff": ["utils/hwloc/hwloc-diff.c"],
    "hwloc-patch": ["utils/hwloc/hwloc-patch.c"],
    "hwloc-info": ["utils/hwloc/hwloc-info.c"],
    "lstopo-no-graphics": ["utils/lstopo/lstopo.c", "utils/lstopo/lstopo-draw.c", "utils/lstopo/lstopo-tikz.c",
                           "utils/lstopo/lstopo-fig.c", "utils/lstopo/lstopo-svg.c", "utils/lstopo/lstopo-ascii.c",
                           "utils/lstopo/lstopo-text.c", "utils/lstopo/lstopo-xml.c", "utils/lstopo/lstopo-shmem.c",
                           "utils/hwloc/common-ps.c"],
}


def build_tools(variant="asan", names=None):
    """-> {name: path} under build/<variant>/tools"""
    v = VARIANTS[variant]
    lib = build_lib(variant)
    out = os.path.join(BUILD, variant, "tools")
    objd = os.path.join(BUILD, variant, "tobj")
    os.makedirs(out, exist_ok=True)
    os.makedirs(objd, exist_ok=True)
    res = {}
    with Lock("tools-" + variant):
        # the tools are not part of the library: no HWLOC_INSIDE_LIBHWLOC
        flags = v["cflags"] + [d for d in COMMON_DEFS if "INSIDE_LIBHWLOC" not in d] + ["-I" + os.path.join(REPO, "utils", "hwloc"), "-I" + os.path.join(REPO, "utils", "lstopo"), "-w"]
        for name in (names or sorted(TOOLS)):
            objs = []
            changed = False
            for s in TOOLS[name]:
                obj = os.path.join(objd, name + "__" + os.path.basename(s)[:-2] + ".o")
                changed |= _compile(v["cc"], flags, os.path.join(REPO, s), obj)
                objs.append(obj)
            exe = os.path.join(out, name)
            if changed or not os.path.exists(exe) or os.path.getmtime(lib) > os.path.getmtime(exe):
                cmd = [v["cc"]] + v["ldflags"] + objs + [lib] + LIBS + ["-lncursesw", "-o", exe]
                r = subprocess.run(cmd, stdout=subprocess.PIPE, stderr=subprocess.STDOUT, text=True)
                if r.returncode != 0:
                    sys.stderr.write(r.stdout)
                    raise SystemExit("tool link failed: " + " ".join(cmd))
            res[name] = exe
    return res


if __name__ == "__main__":
    import argparse
    ap = argparse.ArgumentParser()
    ap.add_argument("--variant", default="asan")
    ap.add_argument("harness", nargs="*")
    a = ap.parse_args()
    print(build_lib(a.variant))
    for h in a.harness:
        print(build_harness(h, a.variant))
