"""Registry: how each property is decided (stages = harness executables and their
partitioning, per-tier deadlines), plus the descriptive texts copied into the evidence."""

COMMON_ASSUMPTIONS = [
    "small-scope: only the stated alphabets, universes and bounds are covered",
    "libc, libxml2, libudev, libpciaccess, the compiler and the sanitizer runtimes are trusted",
    "allocation failure is not injected",
]


def simple(name, harness, variant="asan", parts=16, deadline=None, **kw):
    st = dict(name=name, harness=harness, variant=variant, parts=parts)
    if deadline:
        st["deadline"] = deadline
    st.update(kw)
    return st


PROPS = {}
NOT_BUILT = {}

PROPS["C03"] = dict(
    level_text="Exhaustive within bounds: every representation reachable by the bounded BFS is checked against a reference "
               "set model for every query, and every combinator on every ordered pair of a 1600-element (6000 thorough) "
               "representation set under every aliasing pattern. Representation-independence is decided, not sampled, because "
               "states are keyed on the representation.",
    technique="explicit-state BFS over bitmap representations of the real library + reference set model",
    design_ref="DESIGN.md 5 (C03), 2.4",
    stages=[simple("bitmap", "c03_bitmap", deadline={"quick": 240, "thorough": 3000})],
    explanation="Explicit-state exploration of the bitmap register machine on the real library: states are "
                "internal representations (word count, words, infinite flag) read through the HWLOC_VERIF accessor; "
                "every constructor/modifier with every boundary argument, every combinator over every ordered pair "
                "of a closed core of representations under every aliasing pattern; in every state the full unary "
                "query battery, on every ordered pair the binary queries, all compared with a naive reference set model.",
    bounds={"quick": "unary-op depth 2 beyond the core; combinators closed over the first 150 representations; pair set 1600x1600",
            "thorough": "unary-op depth 3 beyond the core; combinators closed over the first 400 representations; pair set 6000x6000"},
    assumptions=COMMON_ASSUMPTIONS + ["indexes >= 640 are not used (reference window is 1024 bits)",
                                      "states are counted per worker beyond the common core (a representation reached by two workers is counted twice)"],
)


def _c01(tier):
    st = [simple("syn", "c01_load", args={"quick": ["--stage", "syn"], "thorough": ["--stage", "syn"]}, deadline={"quick": 300, "thorough": 2400}),
          simple("xml", "c01_load", args={"quick": ["--stage", "xml"], "thorough": ["--stage", "xml"]}, deadline={"quick": 300, "thorough": 1200})]
    if tier == "thorough":
        st.append(simple("small2", "c01_load", args={"thorough": ["--stage", "small2"]}, deadline={"thorough": 2400}))
    return st


PROPS["C01"] = dict(
    level_text="Exhaustive within bounds: every element of the product (generated synthetic universe + fixtures + corpus XML) x "
               "(deviation-bounded filter/flag configurations) is loaded by the real library and the result is decided by an "
               "independent re-implementation of every C01 clause over the public API, then by hwloc_topology_check(). "
               "Snapshot and live-machine sources are covered by the C18 and C10 checks with the same oracle.",
    technique="depth-1 explicit-state exploration of the real loader over an enumerated source x configuration product; independent well-formedness oracle",
    design_ref="DESIGN.md 5 (C01), 2.3, 4",
    stages=_c01,
    explanation="Every generated synthetic description, hand-designed fixture and corpus XML file is loaded under every configuration "
                "within the deviation bound; each successful load is checked clause by clause by wf.c (public API + reference set model) "
                "and by the built-in checker with assertions captured in-process.",
    bounds={"quick": "synthetic: <=2 intermediate levels x 10 type choices x arities 1-3 (+3 levels with arities 1-2, attached-NUMA, indexes and size families); configurations: deviation bound 1 (single flag, uniform filters, group setters, single (type,filter))",
            "thorough": "synthetic: <=3 intermediate levels full product (+4 levels restricted); fixtures and U_small additionally with deviation bound 2 and all 256 flag words"},
    assumptions=COMMON_ASSUMPTIONS + ["distinct states are counted per worker"],
)


PROPS["C04"] = dict(
    level_text="Exhaustive within bounds: every bitmap of the boundary family x 3 formats x every buffer length, and every "
               "parser input of the small-scope alphabet plus every single-character mutation of printed texts, executed on the "
               "real functions with exact-size heap buffers under ASan; round trips judged through the reference set model and "
               "an independent reference parser of the documented grammars.",
    technique="bounded-exhaustive input enumeration on the real code (small-scope), reference model + reference parser oracle",
    design_ref="DESIGN.md 5 (C04)",
    # indexes such as 4294967288 (list "1 -8") would make the library allocate 512 MB per input: let such
    # allocations fail (the library's ENOMEM paths) instead of spending the budget in memset
    stages=[simple("str", "c04_bitmap_str", deadline={"quick": 240, "thorough": 3000}, env={"ASAN_OPTIONS": "max_allocation_size_mb=64"})],
    explanation="Every assignment of the first six 32-bit groups over {0, 0xffffffff, 1, 0x80000000} (plus 0x0000ffff, 0xffff0000 thorough) x {finite, infinite from 192, infinite from 224}; "
                "all subsets of 12 (16 thorough) boundary bit positions x 6 tails x 2 representations are printed in the three "
                "formats at every buffer length 0..needed+2 and with NULL/0; texts are parsed back by hwloc and by a reference parser. "
                "All strings of length <= 5 (6) over {0 1 8 f x , - . space 0x80} and all single-character mutations of printed texts are "
                "given to the three parsers as exact-size heap copies.",
    bounds={"quick": "12 bit positions, strings <= 5 letters, mutations of every 8th printed text", "thorough": "16 bit positions, strings <= 6 letters, mutations of every printed text"},
    assumptions=COMMON_ASSUMPTIONS + ["bit indexes are below 640", "strings outside the documented grammar may be accepted or rejected; only safety and print/parse stability are demanded of them"],
)


PROPS["C02"] = dict(
    level_text="Exhaustive within bounds: breadth-first exploration of every history of modifying calls (alphabet computed from "
               "the state, arguments from small domains including invalid ones) up to the depth bound from every root x "
               "configuration, each transition executed on the real library from a freshly replayed state; every reached state is "
               "checked by the independent well-formedness checker, hwloc_topology_check(), the unchanged-on-documented-failure "
               "comparison of canonical dumps and the gp_index/userdata tags.",
    technique="explicit-state BFS over operation histories of the real library (state = replayed history, dedup on canonical dump)",
    design_ref="DESIGN.md 5 (C02), 2.1-2.3",
    stages=[simple("hist", "c02_history", parts=100, deadline={"quick": 240, "thorough": 900})],
    explanation="Roots: U_small (14 synthetic + fixtures with <= 8 PUs) x 4 configurations (default, keep-all + INCLUDE_DISALLOWED, "
                "KEEP_STRUCTURE everything, keep-all). Alphabet per state: restrict (subsets / object sets x 7 flag words + invalid), "
                "insert_misc at every object, Group insertion (object sets, sibling unions, conflicting sets, nodeset-only, empty, "
                "superset; dont_merge x kinds), alloc+free, allow (all flag words, custom sets), distances add (6 object selections x 4 "
                "matrices x grouping flags) / remove, memattr register/set_value, cpukinds register, infos/subtype edits, refresh.",
    bounds={"quick": "depth 2 on default and keep-all+disallowed configurations (depth 1 on the other two for large roots), frontier cap 600-2500 states per (root,cfg); capped partitions are reported with exhaustive=false",
            "thorough": "depth 2 everywhere, depth 3 on the small synthetic roots, frontier cap 60000"},
    assumptions=COMMON_ASSUMPTIONS + ["states beyond the frontier cap are checked but not expanded"],
)


PROPS["C08"] = dict(
    level_text="Exhaustive within bounds: every restrict call of the enumerated (set, flag word) product is executed on the real "
               "library from every root x configuration and again from every distinct state the first application reaches; the "
               "post-state is compared object by object (keyed by gp_index) with a reference model written from the statement, "
               "failing calls with the unchanged canonical dump.",
    technique="explicit-state exploration (depth 1-2 histories of restrict) of the real library against a gp_index-keyed reference model",
    design_ref="DESIGN.md 5 (C08)",
    stages=[simple("restrict", "c08_restrict", parts=100, deadline={"quick": 100, "thorough": 3000})],
    explanation="Sets: all subsets of the PU (NUMA) os_index set when it has <= 4 (6 thorough) elements, otherwise object sets, complements "
                "and unions of two; plus infinite supersets, supersets with an unknown index, disjoint and empty sets. Flags: all 32 words over the "
                "five restrict flags and an unknown bit. Roots carry Misc objects (keep-all configurations) and I/O (fixtures).",
    bounds={"quick": "subsets when <= 4 elements; second application from the first 30 distinct states per (root,cfg)",
            "thorough": "subsets when <= 6 elements; second application from up to 4000 distinct states per (root,cfg)"},
    assumptions=COMMON_ASSUMPTIONS + ["objects of KEEP_STRUCTURE types (and Groups) may disappear by structural merging: the model accepts their disappearance without re-deriving the merge rule",
                                      "mixed Misc-below-I/O subtrees under a single ADAPT flag are only checked for the clauses that the statement determines"],
)


PROPS["C07"] = dict(
    level_text="Exhaustive within bounds: every generated description (the generator is the reference model of what was written), "
               "the level-count boundary family around the 128-level limit, every token string of the small scope and every "
               "single-character deletion/duplication of base descriptions are given to the real parser/loader under ASan; accepted "
               "descriptions are compared with the generator, exported under all 16 flag words at every buffer length, reloaded and re-exported.",
    technique="bounded-exhaustive input enumeration on the real parser (generator as reference model) + export/import fixpoint",
    design_ref="DESIGN.md 5 (C07)",
    stages=[simple("gen", "c07_synthetic", args={"quick": ["--stage", "gen"], "thorough": ["--stage", "gen"]}, deadline={"quick": 200, "thorough": 3000}),
            simple("bound", "c07_synthetic", args={"quick": ["--stage", "bound"], "thorough": ["--stage", "bound"]}, deadline={"quick": 200, "thorough": 600}),
            simple("tokens", "c07_synthetic", args={"quick": ["--stage", "tokens"], "thorough": ["--stage", "tokens"]}, deadline={"quick": 200, "thorough": 3000})],
    explanation="gen: synthetic universe of section 4 (38k descriptions quick). bound: 117..131 levels x 6 shapes. tokens: all strings of <= 4 (5) tokens "
                "over a 24-token alphabet + deletions/duplications of 5 base descriptions.",
    bounds={"quick": "universe quick scope (5 generator families; attached-NUMA families also loaded with the default filters and with each normal type filtered out); token strings <= 4 tokens", "thorough": "universe thorough scope; token strings <= 5 tokens"},
    assumptions=COMMON_ASSUMPTIONS + ["descriptions are loaded with every type kept; Group and Die levels are subject to the documented merging and are not counted",
                                      "interleaved indexes= specifications are only checked through well-formedness and the export/import fixpoint, explicit permutations exactly"],
)


PROPS["C12"] = dict(
    level_text="Exhaustive within bounds: in every state reached by the modifying alphabet up to depth 1 from every root x "
               "configuration the topology is duplicated; dumps (including userdata pointers), XML bytes and the read-only battery "
               "must agree; every op of the alphabet is then applied to the copy (the original's dump must not move) and to the "
               "original (both must agree again); both destroy orders run under ASan/LSan.",
    technique="explicit-state exploration of histories (dup as a transition) with differential and non-interference oracles on canonical dumps",
    design_ref="DESIGN.md 5 (C12)",
    stages=[simple("dup", "c12_dup", parts=100, deadline={"quick": 100, "thorough": 3000})],
    explanation="States = replayed histories of length 0 and 1 over the C02 alphabet (lean argument domains in quick). The sharing monitor of the design "
                "(original placed in an mprotect'ed arena) is part of the C17 machinery; here sharing is detected through non-interference of every op.",
    bounds={"quick": "depth-1 states; mutation ops on root states and every 12th depth-1 state", "thorough": "mutation ops on every depth-1 state, richer argument domains"},
    assumptions=COMMON_ASSUMPTIONS,
)


def _c05(tier):
    st = []
    for ex in ("0", "1"):
        for im in ("0", "1"):
            st.append(simple("x%si%s" % (ex, im), "c05_xml", parts=16 if tier == "quick" else 32, deadline={"quick": 120, "thorough": 2400},
                             env={"HWLOC_LIBXML_EXPORT": ex, "HWLOC_LIBXML_IMPORT": im}))
    return st


PROPS["C05"] = dict(
    level_text="Exhaustive within bounds: every state of the enumerated set (fixtures, corpus, roots x configurations and all their "
               "depth-1 successors under the modifying alphabet, each annotated with userdata and escaping-sensitive strings) is "
               "exported and re-imported under every {export backend} x {import backend} x {buffer,file} x {v3,v2} combination; "
               "equivalence is decided on canonical dumps, the fixpoint on bytes, userdata on the multiset of callback records.",
    technique="explicit-state enumeration of reachable topologies x configuration matrix on the real XML code; canonical-dump equivalence oracle",
    design_ref="DESIGN.md 5 (C05)",
    stages=_c05,
    explanation="Four processes per partition set (nolibxml/libxml export x import, chosen through HWLOC_LIBXML_EXPORT/IMPORT because the choice is cached per process).",
    bounds={"quick": "fixtures + every third corpus file x 2 configurations; U_small x 4 configurations with lean depth-1 alphabets",
            "thorough": "whole corpus; full depth-1 alphabets"},  # every history state is also exported twice before any other consulting call (cold export)
    assumptions=COMMON_ASSUMPTIONS + ["names/infos use printable characters only (non-printable ones are documented to be dropped)",
                                      "states already ill-formed because of a known C02 finding are skipped"],
)


def _c06(tier):
    st = []
    for im in ("0", "1"):
        for stage in ("deviations", "tokens", "diff"):
            st.append(simple("%s-i%s" % (stage, im), "c06_xml_inputs", parts=16, deadline={"quick": 600, "thorough": 3000},
                             args={"quick": ["--stage", stage], "thorough": ["--stage", stage]}, env={"HWLOC_LIBXML_IMPORT": im, "HWLOC_LIBXML_EXPORT": "0", "ASAN_OPTIONS": "max_allocation_size_mb=512"}))
    return st


PROPS["C06"] = dict(
    level_text="Exhaustive within bounds: every single deviation of the stated alphabet at every applicable site of every base "
               "document (deviation bound 1), every document of <= 4 tokens of an XML token alphabet, and the same for diff XML, is "
               "given to the real loader of both backends as an exact-size heap copy under ASan/UBSan with assertion, signal and watchdog "
               "capture; successful loads are checked by wf.c, the read-only battery, dup and destroy, failed ones by reconfigure-and-load.",
    technique="deviation-bounded exhaustive input enumeration on the real XML loaders (both backends) with sanitizer + well-formedness oracles",
    design_ref="DESIGN.md 5 (C06)",
    stages=_c06,
    explanation="Base documents: fixtures, their v2-format exports, a hand-written hwloc-2.0 document (anonymous latency distances, v2 OS-device types, "
                "Die-as-Group), corpus files below 8 KB (30 KB thorough).",
    bounds={"quick": "deviation bound 1 on half of the fixtures + io/annot + small corpus; token documents <= 4 tokens", "thorough": "all fixtures and their v2 exports, corpus < 30 KB; token documents <= 5 tokens"},
    assumptions=COMMON_ASSUMPTIONS + ["long unstructured byte strings are outside any bounded enumeration: only the token scope, the truncations and single deviations are covered",
                                      "single allocations above 512 MB fail (ASan allocator limit) instead of being served"],
)


PROPS["C11"] = dict(
    level_text="Exhaustive small scope on the real functions: every object of the fixtures and of generated documents (all 128 OS-device "
               "type words plus words with unknown bits, both bridge upstream types, cache depths 1..5, group depths) x all 64 flag words x "
               "every buffer size in exact-size heap buffers under a watchdog; every printed text and every prefix/case variant of every "
               "type name and every string of <= 4 letters of a 14-letter alphabet through hwloc_type_sscanf; hwloc_compare_types on all 20 x 20 pairs.",
    technique="bounded-exhaustive enumeration of objects x flag words x buffer sizes and of parser inputs on the real code",
    design_ref="DESIGN.md 5 (C11)",
    stages=[simple("types", "c11_types", deadline={"quick": 150, "thorough": 2000})],
    explanation="Objects come from all fixtures, a generated XML with 134 OS devices, and 4 synthetic topologies; flag words are the 64 subsets of the six snprintf flags.",
    bounds={"quick": "strings <= 4 letters; fixtures, 4 synthetic shapes and the states one and two Group insertions away from the small roots; every size 0..needed+1 and a generous buffer", "thorough": "strings <= 5 letters"},
    assumptions=COMMON_ASSUMPTIONS + ["only the known OS-device type bits can be printed: the parse-back comparison masks unknown bits"],
)


PROPS["C13"] = dict(
    level_text="Exhaustive within bounds: breadth-first exploration of every history over {add (valid and invalid kinds/objects/flags), "
               "remove, remove_by_depth, release_remove, restrict, switch-to-dup, switch-to-XML-reload} up to the depth bound from 6 roots, "
               "on the real library, with a list reference model; after every step the whole query battery (4 getters x kind filters x *nr "
               "in {0,1,all}) must equal the model and the transforms are applied with NULLs / switch ports at every subset of positions.",
    technique="explicit-state BFS over distances API histories of the real library against a list reference model",
    design_ref="DESIGN.md 5 (C13)",
    stages=[simple("dist", "c13_distances", parts=48, deadline={"quick": 120, "thorough": 3000})],
    explanation="Roots: pu:4, node:4 pu:1, node:2 core:2 pu:1, package:2 core:2 pu:2, io.xml (OS devices), annot.xml (preloaded homogeneous + heterogeneous matrices).",
    bounds={"quick": "depth 2 (second step with the lean add alphabet)", "thorough": "depth 3"},
    assumptions=COMMON_ASSUMPTIONS + ["grouping at commit (GROUP flag) is exercised by C02, not here",
                                      "heterogeneous structures are modelled as never matching a depth/type filter",
                                      "shared-memory adoption of distances is covered by C19"],
)


PROPS["C15"] = dict(
    level_text="Exhaustive within bounds: breadth-first exploration of every history of register / restrict / dup / XML-reload calls up to "
               "depth 3 over a 4-PU (5 thorough) universe on the real library; after every step all kinds, infos, efficiencies and "
               "get_by_cpuset over every subset are compared with a partition reference model.",
    technique="explicit-state BFS over cpukinds API histories of the real library against a partition reference model",
    design_ref="DESIGN.md 5 (C15)",
    stages=[simple("kinds", "c15_cpukinds", parts=32, deadline={"quick": 120, "thorough": 3000}),
            # the same exploration one step shallower from a root loaded with NO_CPUKINDS: kinds registered by the user are live all the same
            simple("flagged", "c15_cpukinds", parts=16, deadline={"quick": 120, "thorough": 3000},
                   args={"quick": ["--rootflags", "nocpukinds"], "thorough": ["--rootflags", "nocpukinds"]})],
    explanation="register(S in all non-empty subsets + empty + NULL + a PU outside the topology, forced efficiency in {-1,0,1,2}, 5 info variants, flags in {0,1}), "
                "restrict to every proper subset, switch-to-dup, switch-to-XML-reload; states deduplicated on the reference partition.",
    bounds={"quick": "4 PUs, depth 3 (full (efficiency, infos) product at depth 1, a covering diagonal deeper)", "thorough": "5 PUs, depth 3"},
    assumptions=COMMON_ASSUMPTIONS + ["efficiencies are only compared with forced values when all are known and pairwise distinct; the frequency/core-type heuristics are outside the property"],
)


PROPS["C16"] = dict(
    level_text="Exhaustive within bounds: for every root and every sequence of <= 2 edits of the edit alphabet (representable and "
               "non-representable, two sites each) the pair (A, B) goes through build / apply on a copy / re-build / field comparison / "
               "reverse / diff XML round trip on the real library; every hand-built list of <= 3 entries over 10 entry kinds is applied "
               "forward and reverse and compared with a sequential reference model (return value -N, rollback, resulting fields).",
    technique="bounded-exhaustive enumeration of topology pairs and diff lists on the real diff code; canonical-dump and sequential-model oracles",
    design_ref="DESIGN.md 5 (C16)",
    stages=[simple("diff", "c16_diff", parts=16, deadline={"quick": 120, "thorough": 1200}),
            # the XML backend is chosen once per process: the same enumeration with the built-in exporter/importer
            simple("nolibxml", "c16_diff", parts=16, deadline={"quick": 120, "thorough": 1200}, env={"HWLOC_LIBXML": "0"})],
    explanation="B is produced by editing A's own XML export (rename, name set/unset, info value / add / remove / duplicate, NUMA local memory) and through the API (Misc insertion, restrict, subtype).",
    bounds={"quick": "<= 2 edits, <= 3 hand-built entries (reverse applications start from the forward state); diffs of every length 1..320 on pu:320; each stage once per XML backend", "thorough": "same scope, lengths 1..640"},
    assumptions=COMMON_ASSUMPTIONS + ["A and B are both loaded from XML so that they went through the same pipeline"],
)


PROPS["C14"] = dict(
    level_text="Exhaustive within bounds: breadth-first exploration of every history over {register (all flag words, duplicate and NULL names), "
               "set_value (every attribute x target x initiator x value of the small domains, invalid ones included), restrict, refresh, "
               "switch-to-dup, switch-to-XML-reload} up to the depth bound from 5 roots on the real library with a table reference model; after "
               "every step get_value / get_targets / get_initiators (with the *nr convention) / both best-of queries / local NUMA nodes for every "
               "object x 8 flag words / default nodeset are compared with the table or their definition.",
    technique="explicit-state BFS over memattr API histories of the real library against a table reference model",
    design_ref="DESIGN.md 5 (C14)",
    stages=[simple("memattrs", "c14_memattrs", parts=48, deadline={"quick": 120, "thorough": 3000})],
    explanation="Roots: node:2 pu:2, node:4 pu:1, cpuless.xml (CPU-less nodes), nested.xml (nested locality), node:1 pu:2.",
    bounds={"quick": "depth 2 plus a third step restricted to restrict/refresh/dup/XML after histories that stored values; after restrict/dup/XML every query kind also runs first and alone on a freshly rebuilt state", "thorough": "depth 3"},
    assumptions=COMMON_ASSUMPTIONS + ["stored cpuset initiators are pairwise disjoint (the domain the property defines); overlapping cpusets are only used as queries",
                                      "best-of results are accepted when they are an optimal stored entry (ties allowed)"],
)


PROPS["C09"] = dict(
    level_text="Exhaustive small-scope differential on the real helpers: every topology of U_small x 2 configurations and every state one "
               "restrict reaches; every helper with every argument of the small domains (all objects and ordered pairs, every subset of the "
               "PU/NUMA set plus out-of-root sets, every type/depth, hwloc_distrib for every root choice x n in 1..2*#PU+1 x every until x "
               "both flag words) compared with a brute-force search over the walked object list using independent 64-bit mask arithmetic.",
    technique="bounded-exhaustive argument enumeration on the real code, brute-force reference search (explicit-state over restrict successors)",
    design_ref="DESIGN.md 5 (C09), 6.1",
    stages=[simple("helpers", "c09_helpers", parts=50, deadline={"quick": 400, "thorough": 2400})],
    explanation="States: U_small under the default and the keep-all+INCLUDE_DISALLOWED configurations, plus the distinct states after one restrict of the (lean) restrict alphabet.",
    bounds={"quick": "successors by one restrict or one Group insertion of the lean alphabet", "thorough": "successors with subsets up to 4 elements"},
    assumptions=COMMON_ASSUMPTIONS + ["hwloc_distrib: pairwise disjointness is demanded for until=INT_MAX and n <= #PUs only (with a cut-off the documented result repeats cpusets)",
                                      "hwloc_get_closest_objs and hwloc_get_common_ancestor_obj are driven with objects that have CPU sets"],
)


PROPS["C19"] = dict(
    level_text="Exhaustive within bounds: every state (roots x configurations and their depth-1 successors) x 3 file offsets goes through "
               "get_length / write into a mapping followed by a PROT_NONE guard page / exact file size / every single deviation of "
               "(address, length, offset), a foreign ABI word and an occupied range / valid adoption / dump and XML equivalence / well-formedness / "
               "the read-only battery and every op of the modifying alphabet on the adopted topology (PROT_READ mapping: any store faults "
               "and is reported) / allow() / destroy leaves the range reusable.",
    technique="explicit-state enumeration of topologies x bounded fault/deviation enumeration on the real shmem code with MMU-based write detection",
    design_ref="DESIGN.md 5 (C19), 2.5",
    stages=[simple("shmem", "c19_shmem", parts=100, deadline={"quick": 120, "thorough": 3000})],
    explanation="The guard page makes 'length suffices' decidable by the MMU rather than by inspection; the read-only mapping does the same for 'modifiers do not touch the mapping'.",
    bounds={"quick": "modifying ops (incl. refresh) on root states and every 10th depth-1 state; cold pass (get_length, write, adopt right after the history) on every state", "thorough": "modifying ops on every depth-1 state"},
    assumptions=COMMON_ASSUMPTIONS + ["object-level edits that take no topology argument (infos, subtype) are documented as forbidden on adopted topologies and are not driven",
                                      "writer and adopter are the same process (a second process would only change which addresses are free)"],
)


def _mod(name):
    """engine modules, whether this file is imported as engine.props (check) or as props (setup_all.py)"""
    import importlib
    try:
        return importlib.import_module("engine." + name)
    except ImportError:
        return importlib.import_module(name)


def _c18_prepare(st, tier):
    _mod("snapshots").prepare()


_C18_COMMON = dict(extra_sources=["engine/env_fs.c"], ldflags=["-ldl"], prepare=_c18_prepare)

PROPS["C18"] = dict(
    level_text="Exhaustive within bounds: every bundled Linux / x86 / x86+linux snapshot x applicable component selection x "
               "configuration is loaded by the real discovery code (well-formedness oracle, determinism, INCLUDE_DISALLOWED vs default "
               "view, XML round trip); for the Linux snapshots the set P of paths the loader consults is recorded through a libc seam "
               "and every single removal from P (bound 1) and, thorough, every pair under sys/devices/system (bound 2) is replayed "
               "against the real loader. Removing a path outside P cannot change behaviour, so bound 1 is complete for single removals "
               "from the whole snapshot. Removals are also enumerated by path class (every instance of cpuN/topology/die_id at once - what a "
               "kernel without the attribute produces): every class, every pair of classes, and (thorough) every triple for small class sets.",
    technique="environment-deviation-bounded exhaustive exploration of the real Linux/x86 discovery code over a libc file-system seam (openat/fstatat/faccessat/readlinkat/readdir interposition), independent well-formedness oracle",
    design_ref="DESIGN.md 5 (C18), 2.5",
    stages=[simple("base", "c18_snapshots", parts=32, deadline={"quick": 240, "thorough": 3000},
                   args={"quick": ["--stage", "base"], "thorough": ["--stage", "base"]}, **_C18_COMMON),
            simple("faults", "c18_snapshots", parts=64, deadline={"quick": 240, "thorough": 6000},
                   args={"quick": ["--stage", "faults"], "thorough": ["--stage", "faults"]}, **_C18_COMMON)],
    explanation="Fault sequences are enumerated, not sampled: the seam answers ENOENT for the chosen paths and removes them from directory "
                "listings (a directory hides its subtree). Every faulted load must fail cleanly or give a well-formed topology with no "
                "assertion, signal, hang or sanitizer report.",
    bounds={"quick": "base: default + 4 uniform filters + 6 single flags + 9 single (type, KEEP_NONE) deviations; faults: bound 1 on snapshots with at most 2500 consulted paths, under the default configuration and with every type kept; path classes: bound 1 on every snapshot, bound 2 (all pairs of classes) on snapshots with at most 60 classes",
            "thorough": "base: additionally flag pairs and 2 filter+flag combinations; faults: bound 1 on every snapshot under both configurations, bound 2 under sys/devices/system when at most 200 such paths; path classes: bounds 1 and 2 on every snapshot (<= 400 classes), bound 3 on snapshots with at most 40 classes"},
    assumptions=COMMON_ASSUMPTIONS + ["a removal is modelled as ENOENT for the path and everything below it; short reads and EIO are not injected",
                                      "numbered directories (cpu12, node3, index0) are not removed (the property's alphabet); a path class that has a numbered directory among its consulted instances is left out",
                                      "distinct faulted outcomes are counted per worker"],
)


PROPS["C10"] = dict(
    level_text="Exhaustive within bounds: every topology of a 23-element family (synthetic / XML, with and without IS_THISSYSTEM, with "
               "disallowed and out-of-range positions; the live machine) x every binding entry point x every subset of a small universe "
               "of legal, complete-only and out-of-range positions plus infinite variants x every flag word of the domain x every policy, "
               "against a reference model of the argument fix-ups and of the hook table, observing what reaches sched_setaffinity / "
               "pthread_setaffinity_np / mbind / set_mempolicy / migrate_pages through symbol interposition. Live: every non-empty subset of "
               "the allowed CPUs is bound, read back, compared with the kernel mask and the last CPU location; loads under every component "
               "selection leave the caller's binding as found.",
    technique="bounded-exhaustive enumeration of argument tuples on the real binding code with an operating-system seam (symbol interposition) and a reference model; exhaustive live round trip over all subsets of the allowed CPUs",
    design_ref="DESIGN.md 5 (C10), 2.5",
    stages=[simple("args", "c10_binding", parts=32, deadline={"quick": 240, "thorough": 3000}, ldflags=["-ldl"],
                   args={"quick": ["--stage", "args"], "thorough": ["--stage", "args"]}),
            simple("live", "c10_binding", parts=16, deadline={"quick": 240, "thorough": 3000}, ldflags=["-ldl"],
                   args={"quick": ["--stage", "live"], "thorough": ["--stage", "live"]})],
    explanation="Synthetic and XML topologies loaded with IS_THISSYSTEM run the native Linux hooks; the seam then stubs the system calls, so the "
                "sets handed to the operating system are observed for topologies with several NUMA nodes and disallowed CPUs although the sandbox "
                "has one node. On the live machine calls are forwarded and the caller's binding is restored after each case.",
    bounds={"quick": "cpubind: subsets of <= 9 positions; membind: subsets of <= 7 positions; 26 cpubind and 76 membind flag words, 12 policies; live: all 65535 subsets of 16 CPUs with the THREAD variant, process/pid/thread variants on sets of weight <= 2 or >= 15; loads bound to singletons, neighbour pairs and a fifth of the other pairs x 5 component selections x 6 flag words (incl. RESTRICT_TO_CPUBINDING / RESTRICT_TO_MEMBINDING with IS_THISSYSTEM); singletons and the whole set also loaded from a second thread while the main thread is bound to all or to the other CPUs",
            "thorough": "cpubind: <= 11 positions; membind: <= 8 positions; live: all variants on all subsets; loads bound to every singleton and pair"},
    assumptions=COMMON_ASSUMPTIONS + ["set_area_membind/get_area_* are called with a non-zero length (a zero length is documented as a no-op)",
                                      "the from-mask of migrate_pages is a wildcard, only the destination mask is compared with the legal set",
                                      "the sandbox has one NUMA node: live membind round trips cover that node only"],
)


def _c20_prepare(st, tier):
    _mod("build").build_tools("asan")


PROPS["C20"] = dict(
    level_text="Exhaustive within bounds: the tools of the working tree (built with ASan/UBSan against the instrumented library) are run on every "
               "generated command line: topologies x option sets x every location expression of a generated grammar (prefix operators, all/root, "
               "type:range with every range form, nested locations, set literals; sequences of up to 2 (3) locations), compared line by line with a "
               "reference evaluator that works on the syntax tree through the library; --largest and -H outputs are fed back; hwloc-distrib for every "
               "n against hwloc_distrib(); lstopo XML / synthetic output against the library exports and reloaded; hwloc-diff + hwloc-patch on "
               "generated pairs; a list of malformed command lines and every single-character mutation of the generated locations (no crash, no hang).",
    technique="bounded-exhaustive enumeration of command lines over a generated grammar, executed on the real tools, with a reference evaluator over the syntax tree (small-scope differential checking)",
    design_ref="DESIGN.md 5 (C20)",
    stages=[simple("calc", "c20_tools", variant="fast", parts=64, deadline={"quick": 300, "thorough": 6000}, prepare=_c20_prepare,
                   args={"quick": ["--stage", "calc"], "thorough": ["--stage", "calc"]}),
            simple("other", "c20_tools", variant="fast", parts=32, deadline={"quick": 300, "thorough": 3000}, prepare=_c20_prepare,
                   args={"quick": ["--stage", "other"], "thorough": ["--stage", "other"]})],
    explanation="Expressions are fed in batches of 400 on the standard input of one hwloc-calc process per (topology, option set); every single "
                "location is run again on the command line. A tool that does not finish within 20 s is killed and reported as a hang.",
    bounds={"quick": "every second synthetic description and every XML fixture (<= 8 PUs) for every tool; second operands from a reduced list of 24 locations; malformed lists on 3 topologies",
            "thorough": "all 26 topologies; richer ranges, 3-location sequences, second operands from 60 locations"},
    assumptions=COMMON_ASSUMPTIONS + ["objects without an OS index cannot be named with physical indexes: --largest -p outputs naming such objects are counted, not compared",
                                      "--largest is an error for sets that leave the topology: such expressions are exercised with the other option sets only",
                                      "graphical and interactive lstopo outputs are not covered"],
)


def _c17_prepare(st, tier):
    import subprocess, os
    _b = _mod("build")
    o = os.path.join(_b.BUILD, "mon", "c17_padb.o")
    os.makedirs(os.path.dirname(o), exist_ok=True)
    src = os.path.join(_b.VERIF, "engine", "c17_padb.c")
    if not os.path.exists(o) or os.path.getmtime(o) < os.path.getmtime(src):
        subprocess.check_call(["clang", "-O1", "-fno-pie", "-c", src, "-o", o])


def _c17_stage(name, parts, dl):
    import os
    padb = os.path.join(os.path.dirname(os.path.dirname(os.path.abspath(__file__))), "build", "mon", "c17_padb.o")
    return simple(name, "c17_threads", variant="mon", parts=parts, deadline=dl, extra_sources=["engine/mcsched.c"],
                  ldflags=[padb, "-ldl"], prebuild=_c17_prepare,
                  args={"quick": ["--stage", name], "thorough": ["--stage", name]})


PROPS["C17"] = dict(
    level_text="Exhaustive within bounds: stateless model checking of real threads over the real library. Every schedule with at most B preemptions "
               "of T worker threads is executed for every tuple of reader battery groups on a shared refreshed topology and for every tuple of "
               "init/load/modify/export/destroy histories on per-thread topologies. Scheduling points are the interposed pthread_mutex operations "
               "and every access to a library global made without a mutex (all of the library's .data/.bss is one PROT_NONE region while a schedule "
               "runs; accesses trap and are single-stepped). Oracles: happens-before race detection on the globals, MMU write detection on the "
               "shared topology, per-thread result equality with the single-threaded run, deadlock detection.",
    technique="stateless model checking of the implementation under a controlled scheduler with iterative preemption bounding (CHESS style), scheduling points from mutex interposition and MMU traps on library globals; vector-clock race detector",
    design_ref="DESIGN.md 5 (C17), 2.6",
    stages=[_c17_stage("readers", 16, {"quick": 240, "thorough": 3000}), _c17_stage("independent", 21, {"quick": 300, "thorough": 6000})],
    explanation="A reader that stores into the shared topology races with every other reader whatever the schedule, so the MMU check decides the "
                "topology part independently of the bound; schedules matter for the process-wide state (component registry, cached environment "
                "variables), which is where the scheduling points are.",
    bounds={"quick": "readers: 2 threads, 3 topologies each as loaded and annotated+restricted+refreshed (the richest one also loaded with NO_DISTANCES / NO_MEMATTRS / NO_CPUKINDS before the annotation), all 55 unordered pairs of 10 battery groups, preemption bound 2; independent: 2 threads, all 21 unordered pairs of 6 histories (incl. a diff history with a failing export and an annotate history), preemption bound 1; the component registry must be released at the end of every execution",
            "thorough": "readers: 3 threads, 6 topologies in all five variants, all 220 unordered triples of 10 groups, bound 3; independent: 3 threads, all 56 triples of 6 histories, bound 2 (tuples that exceed the budget are reported with the bound they completed)"},
    assumptions=COMMON_ASSUMPTIONS + ["sequentially consistent memory: weak-memory reorderings are not modelled",
                                      "races are detected on the library's own global variables and on the shared topology; libc, libxml2 (the built-in XML backend is forced) and the kernel are trusted",
                                      "an access to a global from inside a system call does not trap (none is known in the library)",
                                      "the documented precondition (hwloc_topology_refresh() after modifications) is established by the harness"],
)
