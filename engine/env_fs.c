/* E2 seam: file-system environment answers, obtained without any source change by
 * defining the libc entry points in the harness executable (the library is linked
 * statically from the working tree, so its calls bind here).
 *
 *   mode RECORD : every path the loader asks for is recorded (relative to the FSROOT fd)
 *   mode HIDE   : a chosen set of paths (and everything below them) answers ENOENT and
 *                 disappears from directory listings
 * The real work is done with raw syscalls so that nothing recurses into these wrappers.
 */
#define _GNU_SOURCE
#include "env_fs.h"
#include <stdarg.h>
#include <fcntl.h>
#include <unistd.h>
#include <errno.h>
#include <string.h>
#include <stdlib.h>
#include <stdio.h>
#include <dirent.h>
#include <dlfcn.h>
#include <sys/stat.h>
#include <sys/syscall.h>

#define MAXFD 4096
static char *fd_path[MAXFD];          /* path (relative to the root) of directory fds opened through the seam; "" = the root itself */
static int root_fd = -1;
static int mode;                      /* 0 pass-through, 1 record, 2 hide */
static char **rec; static size_t nrec, caprec;
static const char *hidden[8]; static int nhidden;
static int hide_by_class;             /* hidden[] are path classes (every run of digits written N): every instance is hidden */
uint64_t envfs_calls, envfs_hits;

void envfs_set_root(int fd) { root_fd = fd; if (fd >= 0 && fd < MAXFD) { free(fd_path[fd]); fd_path[fd] = strdup(""); } }
void envfs_mode(int m) { mode = m; }
void envfs_hide(const char **paths, int n) { hide_by_class = 0; nhidden = n > 8 ? 8 : n; for (int i = 0; i < nhidden; i++) hidden[i] = paths[i]; }
void envfs_hide_classes(const char **classes, int n) { envfs_hide(classes, n); hide_by_class = 1; }
void envfs_path_class(const char *p, char *out, size_t n)
{
  size_t o = 0;
  for (; *p && o + 1 < n; p++) { if (*p >= '0' && *p <= '9') { out[o++] = 'N'; while (p[1] >= '0' && p[1] <= '9') p++; } else out[o++] = *p; }
  out[o] = 0;
}
size_t envfs_recorded(char ***out) { *out = rec; return nrec; }
void envfs_reset_record(void) { for (size_t i = 0; i < nrec; i++) free(rec[i]); nrec = 0; }

static void record(const char *p)
{
  for (size_t i = 0; i < nrec; i++) if (!strcmp(rec[i], p)) return;
  if (nrec == caprec) { caprec = caprec ? caprec * 2 : 1024; rec = realloc(rec, caprec * sizeof(char *)); }
  rec[nrec++] = strdup(p);
}

/* builds the root-relative path of (dirfd, path) into buf; returns 0 if the access is below the root */
static int resolve(int dirfd, const char *path, char *buf, size_t n)
{
  if (!path || root_fd < 0) return -1;
  if (dirfd < 0 || dirfd >= MAXFD || !fd_path[dirfd]) return -1;
  while (*path == '/') path++;                                  /* hwloc strips leading slashes itself, be tolerant */
  if (fd_path[dirfd][0]) snprintf(buf, n, "%s/%s", fd_path[dirfd], path); else snprintf(buf, n, "%s", path);
  size_t l = strlen(buf); while (l > 1 && buf[l - 1] == '/') buf[--l] = 0;
  return 0;
}
static int is_hidden(const char *rel)
{
  char cls[4096];
  if (hide_by_class) { envfs_path_class(rel, cls, sizeof(cls)); rel = cls; }
  for (int i = 0; i < nhidden; i++) { size_t l = strlen(hidden[i]); if (!strncmp(rel, hidden[i], l) && (rel[l] == 0 || rel[l] == '/')) return 1; }
  return 0;
}
/* returns 1 if the call must fail with ENOENT */
static int consult(int dirfd, const char *path, char *rel, size_t n)
{
  envfs_calls++;
  if (resolve(dirfd, path, rel, n) < 0) { rel[0] = 0; return 0; }
  if (mode == 1) record(rel);
  if (mode == 2 && is_hidden(rel)) { envfs_hits++; return 1; }
  return 0;
}

int openat(int dirfd, const char *path, int flags, ...)
{
  mode_t m = 0; char rel[4096];
  if (flags & (O_CREAT | O_TMPFILE)) { va_list ap; va_start(ap, flags); m = va_arg(ap, mode_t); va_end(ap); }
  if (consult(dirfd, path, rel, sizeof(rel))) { errno = ENOENT; return -1; }
  int fd = (int)syscall(SYS_openat, dirfd, path, flags, m);
  if (fd >= 0 && fd < MAXFD) { free(fd_path[fd]); fd_path[fd] = (rel[0] || (dirfd == root_fd && path && !strcmp(path, "."))) && (flags & O_DIRECTORY) ? strdup(rel) : NULL; }
  return fd;
}
int openat64(int dirfd, const char *path, int flags, ...)
{
  mode_t m = 0; if (flags & (O_CREAT | O_TMPFILE)) { va_list ap; va_start(ap, flags); m = va_arg(ap, mode_t); va_end(ap); }
  return openat(dirfd, path, flags, m);
}
int fstatat(int dirfd, const char *path, struct stat *st, int flags)
{
  char rel[4096];
  if (consult(dirfd, path, rel, sizeof(rel))) { errno = ENOENT; return -1; }
  return (int)syscall(SYS_newfstatat, dirfd, path, st, flags);
}
int fstatat64(int dirfd, const char *path, struct stat64 *st, int flags) { return fstatat(dirfd, path, (struct stat *)st, flags); }
int faccessat(int dirfd, const char *path, int amode, int flags)
{
  char rel[4096];
  if (consult(dirfd, path, rel, sizeof(rel))) { errno = ENOENT; return -1; }
  return (int)syscall(SYS_faccessat, dirfd, path, amode, flags);
}
ssize_t readlinkat(int dirfd, const char *path, char *buf, size_t bufsiz)
{
  char rel[4096];
  if (consult(dirfd, path, rel, sizeof(rel))) { errno = ENOENT; return -1; }
  return (ssize_t)syscall(SYS_readlinkat, dirfd, path, buf, bufsiz);
}
int close(int fd)
{
  if (fd >= 0 && fd < MAXFD && fd != root_fd && fd_path[fd]) { free(fd_path[fd]); fd_path[fd] = NULL; }
  return (int)syscall(SYS_close, fd);
}

/* directory listings: hidden entries disappear */
struct dirent *readdir(DIR *d)
{
  static struct dirent *(*real)(DIR *);
  if (!real) real = (struct dirent * (*)(DIR *))dlsym(RTLD_NEXT, "readdir");
  for (;;) {
    struct dirent *e = real(d);
    if (!e || mode != 2) return e;
    int fd = dirfd(d);
    if (fd < 0 || fd >= MAXFD || !fd_path[fd]) return e;
    char rel[4096];
    if (fd_path[fd][0]) snprintf(rel, sizeof(rel), "%s/%s", fd_path[fd], e->d_name); else snprintf(rel, sizeof(rel), "%s", e->d_name);
    if (!is_hidden(rel)) return e;
    envfs_hits++;
  }
}
struct dirent64 *readdir64(DIR *d) { return (struct dirent64 *)readdir(d); }

/* the loader opens the FSROOT directory with plain open(): that fd becomes the root of the seam */
static const char *watched_root;
void envfs_watch_root(const char *path) { watched_root = path; }
int open(const char *path, int flags, ...)
{
  mode_t m = 0; if (flags & (O_CREAT | O_TMPFILE)) { va_list ap; va_start(ap, flags); m = va_arg(ap, mode_t); va_end(ap); }
  int fd = (int)syscall(SYS_openat, AT_FDCWD, path, flags, m);
  if (fd >= 0 && fd < MAXFD) {
    free(fd_path[fd]); fd_path[fd] = NULL;
    if (watched_root && path && !strcmp(path, watched_root) && (flags & O_DIRECTORY)) envfs_set_root(fd);
  }
  return fd;
}
int open64(const char *path, int flags, ...)
{
  mode_t m = 0; if (flags & (O_CREAT | O_TMPFILE)) { va_list ap; va_start(ap, flags); m = va_arg(ap, mode_t); va_end(ap); }
  return open(path, flags, m);
}
