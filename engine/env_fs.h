/* file-system seam (see env_fs.c) */
#ifndef ENV_FS_H
#define ENV_FS_H
#include <stddef.h>
#include <stdint.h>
void envfs_watch_root(const char *fsroot_path);   /* the directory the loader will open as its root */
void envfs_set_root(int fd);
void envfs_mode(int m);                            /* 0 pass-through, 1 record, 2 hide */
void envfs_hide(const char **paths, int n);        /* root-relative paths (and their subtrees) answered with ENOENT */
void envfs_hide_classes(const char **classes, int n);   /* the same for path classes (runs of digits written N): all instances */
void envfs_path_class(const char *path, char *out, size_t n);
size_t envfs_recorded(char ***out);
void envfs_reset_record(void);
extern uint64_t envfs_calls, envfs_hits;
#endif
