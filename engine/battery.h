/* read-only battery (reentrant) */
#ifndef BATTERY_H
#define BATTERY_H
#include "hwloc.h"
#include "hwmc.h"
#include <limits.h>
enum { BAT_TRAVERSAL, BAT_PRINT, BAT_HELPERS, BAT_DISTANCES, BAT_MEMATTRS, BAT_CPUKINDS, BAT_SETS, BAT_XML, BAT_SYNTHETIC, BAT_LOOKUPS, BAT_NGROUPS };
void battery_group(hwloc_topology_t t, int group, struct sb *digest);
void battery_all(hwloc_topology_t t, struct sb *digest);
#endif
