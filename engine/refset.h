/* Reference model of finite / cofinite sets of non-negative integers.
 * A set is (bits[0..RS_BITS), tail): tail is the membership of every index >= RS_BITS.
 * Everything is written naively, bit by bit or word by word, on purpose: this is the
 * oracle, not the code under test.  Alphabets keep their indexes below RS_BITS-128 so
 * that the window is exact.
 */
#ifndef REFSET_H
#define REFSET_H
#include <stdint.h>
#include <string.h>
#include "hwloc.h"

#define RS_BITS 1024
#define RS_WORDS (RS_BITS / 64)

typedef struct refset { uint64_t w[RS_WORDS]; int tail; } refset;

static inline void rs_zero(refset *s) { memset(s, 0, sizeof(*s)); }
static inline void rs_fill(refset *s) { memset(s->w, 0xff, sizeof(s->w)); s->tail = 1; }
static inline int rs_isset(const refset *s, long i) { if (i < 0) return 0; if (i >= RS_BITS) return s->tail; return (int)((s->w[i / 64] >> (i % 64)) & 1); }
static inline void rs_set(refset *s, long i) { if (i >= 0 && i < RS_BITS) s->w[i / 64] |= (uint64_t)1 << (i % 64); }
static inline void rs_clr(refset *s, long i) { if (i >= 0 && i < RS_BITS) s->w[i / 64] &= ~((uint64_t)1 << (i % 64)); }
/* end == -1 means "to infinity" */
static inline void rs_set_range(refset *s, long b, long e)
{
  if (e == -1) { for (long i = b; i < RS_BITS; i++) rs_set(s, i); s->tail = 1; return; }
  for (long i = b; i <= e && i < RS_BITS; i++) rs_set(s, i);
}
static inline void rs_clr_range(refset *s, long b, long e)
{
  if (e == -1) { for (long i = b; i < RS_BITS; i++) rs_clr(s, i); s->tail = 0; return; }
  for (long i = b; i <= e && i < RS_BITS; i++) rs_clr(s, i);
}
static inline void rs_or(refset *r, const refset *a, const refset *b) { refset t; for (int i = 0; i < RS_WORDS; i++) t.w[i] = a->w[i] | b->w[i]; t.tail = a->tail | b->tail; *r = t; }
static inline void rs_and(refset *r, const refset *a, const refset *b) { refset t; for (int i = 0; i < RS_WORDS; i++) t.w[i] = a->w[i] & b->w[i]; t.tail = a->tail & b->tail; *r = t; }
static inline void rs_andnot(refset *r, const refset *a, const refset *b) { refset t; for (int i = 0; i < RS_WORDS; i++) t.w[i] = a->w[i] & ~b->w[i]; t.tail = a->tail & !b->tail; *r = t; }
static inline void rs_xor(refset *r, const refset *a, const refset *b) { refset t; for (int i = 0; i < RS_WORDS; i++) t.w[i] = a->w[i] ^ b->w[i]; t.tail = a->tail ^ b->tail; *r = t; }
static inline void rs_not(refset *r, const refset *a) { refset t; for (int i = 0; i < RS_WORDS; i++) t.w[i] = ~a->w[i]; t.tail = !a->tail; *r = t; }
static inline int rs_iszero(const refset *s) { for (int i = 0; i < RS_WORDS; i++) if (s->w[i]) return 0; return !s->tail; }
static inline int rs_isfull(const refset *s) { for (int i = 0; i < RS_WORDS; i++) if (~s->w[i]) return 0; return s->tail; }
static inline int rs_isequal(const refset *a, const refset *b) { for (int i = 0; i < RS_WORDS; i++) if (a->w[i] != b->w[i]) return 0; return a->tail == b->tail; }
static inline int rs_isincluded(const refset *a, const refset *b) { for (int i = 0; i < RS_WORDS; i++) if (a->w[i] & ~b->w[i]) return 0; return !(a->tail && !b->tail); }
static inline int rs_intersects(const refset *a, const refset *b) { for (int i = 0; i < RS_WORDS; i++) if (a->w[i] & b->w[i]) return 1; return a->tail && b->tail; }
/* first set index, -1 if none */
static inline long rs_first(const refset *s) { for (long i = 0; i < RS_BITS; i++) if (rs_isset(s, i)) return i; return s->tail ? RS_BITS : -1; }
/* last set index, -1 if none or infinite */
static inline long rs_last(const refset *s) { if (s->tail) return -1; for (long i = RS_BITS - 1; i >= 0; i--) if (rs_isset(s, i)) return i; return -1; }
/* next set index after prev (prev = -1: first), -1 if none */
static inline long rs_next(const refset *s, long prev) { for (long i = prev + 1; i < RS_BITS; i++) if (rs_isset(s, i)) return i; if (s->tail) return prev + 1 > RS_BITS ? prev + 1 : RS_BITS; return -1; }
static inline long rs_first_unset(const refset *s) { for (long i = 0; i < RS_BITS; i++) if (!rs_isset(s, i)) return i; return s->tail ? -1 : RS_BITS; }
static inline long rs_last_unset(const refset *s) { if (!s->tail) return -1; for (long i = RS_BITS - 1; i >= 0; i--) if (!rs_isset(s, i)) return i; return -1; }
static inline long rs_next_unset(const refset *s, long prev) { for (long i = prev + 1; i < RS_BITS; i++) if (!rs_isset(s, i)) return i; if (!s->tail) return prev + 1 > RS_BITS ? prev + 1 : RS_BITS; return -1; }
/* number of set indexes, -1 if infinite */
static inline long rs_weight(const refset *s) { if (s->tail) return -1; long n = 0; for (long i = 0; i < RS_BITS; i++) n += rs_isset(s, i); return n; }
static inline void rs_singlify(refset *s) { long f = rs_first(s); rs_zero(s); if (f >= 0) rs_set(s, f); }
static inline void rs_only(refset *s, long i) { rs_zero(s); rs_set(s, i); }
static inline void rs_allbut(refset *s, long i) { rs_fill(s); rs_clr(s, i); }
static inline uint64_t rs_word(const refset *s, unsigned i) { if (i < RS_WORDS) return s->w[i]; return s->tail ? ~(uint64_t)0 : 0; }
/* highest index whose membership differs from the tail, -1 if none */
static inline long rs_last_irregular(const refset *s) { for (long i = RS_BITS - 1; i >= 0; i--) if (rs_isset(s, i) != s->tail) return i; return -1; }

/* Observation of a real bitmap through the public API: the window is read word by word
 * with hwloc_bitmap_to_ith_ulong (itself compared with isset by C03), the tail by isset
 * probes far beyond the window. A NULL bitmap reads as the empty set. */
static inline void rs_from_bitmap(refset *s, hwloc_const_bitmap_t b)
{
  rs_zero(s);
  if (!b) return;
  for (unsigned i = 0; i < RS_WORDS; i++) s->w[i] = hwloc_bitmap_to_ith_ulong(b, i);
  s->tail = hwloc_bitmap_isset(b, RS_BITS + 77) ? 1 : 0;
}
/* same, bit by bit through hwloc_bitmap_isset only (slow; used where to_ith_ulong is the
 * function under test) */
static inline void rs_from_bitmap_slow(refset *s, hwloc_const_bitmap_t b)
{
  rs_zero(s);
  if (!b) return;
  for (long i = 0; i < RS_BITS; i++) if (hwloc_bitmap_isset(b, (unsigned)i)) rs_set(s, i);
  s->tail = (hwloc_bitmap_isset(b, RS_BITS + 77) && hwloc_bitmap_isset(b, 100003)) ? 1 : 0;
}
/* build a real bitmap denoting s using only set/set_range */
static inline hwloc_bitmap_t rs_to_bitmap(const refset *s)
{
  hwloc_bitmap_t b = hwloc_bitmap_alloc();
  for (long i = 0; i < RS_BITS; i++) if (rs_isset(s, i)) hwloc_bitmap_set(b, (unsigned)i);
  if (s->tail) hwloc_bitmap_set_range(b, RS_BITS, -1);
  return b;
}

/* text rendering: "{}" "{0-3,7,64-}" */
struct sb;
void rs_print(struct sb *b, const refset *s);
char *rs_str(const refset *s); /* static rotating buffers */

#endif
