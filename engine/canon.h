/* Canonical dump of a topology, obtained through public accessors only. */
#ifndef CANON_H
#define CANON_H
#include "hwloc.h"
#include "hwmc.h"

#define CANON_GP        (1u<<0)   /* gp_index of every object */
#define CANON_USERDATA  (1u<<1)   /* userdata pointers */
#define CANON_CONFIG    (1u<<2)   /* flags, type filters, is_thissystem */
#define CANON_SUPPORT   (1u<<3)   /* support bits */
#define CANON_DIST      (1u<<4)
#define CANON_MEMATTR   (1u<<5)
#define CANON_CPUKINDS  (1u<<6)
#define CANON_INFOS     (1u<<7)   /* object and topology info pairs */
#define CANON_ATTRS     (1u<<8)   /* name, subtype, type attributes, total_memory */
#define CANON_LEVELS    (1u<<9)   /* depth / logical_index / level tables */
#define CANON_SYMM      (1u<<10)  /* symmetric_subtree */
#define CANON_ALLOWED   (1u<<11)
#define CANON_SPECIAL_ORDER (1u<<12) /* logical_index of I/O, Misc and memory objects and the order of their levels (nothing documents that order) */
#define CANON_STRUCT    (CANON_LEVELS | CANON_ALLOWED)                  /* tree shape and sets only */
#define CANON_ALL       0xffffu
/* what an XML v3 round trip must preserve when reloading with all types kept */
#define CANON_XML       (CANON_ALL & ~(CANON_USERDATA | CANON_CONFIG | CANON_SUPPORT | CANON_SPECIAL_ORDER))

void canon(struct sb *out, hwloc_topology_t t, unsigned flags);
char *canon_str(hwloc_topology_t t, unsigned flags);  /* malloc'ed */
/* first differing line of two dumps, for messages (static buffer) */
const char *canon_diff(const char *a, const char *b);

/* all objects by a child-list walk (normal, memory, io, misc children, in that order),
 * independent of the level arrays. Returns count; *objsp malloc'ed. */
unsigned canon_walk(hwloc_topology_t t, hwloc_obj_t **objsp);

#endif
