/* Independent well-formedness checker: every clause of C01, re-implemented from the
 * statement over the public API and the reference set model (no hwloc_bitmap_* algebra,
 * no hwloc_topology_check). */
#include "wf.h"
#include "canon.h"
#include "refset.h"
#include <inttypes.h>

struct wfctx { hwloc_topology_t t; wf_report_fn rep; void *ctx; int nfail; };

static void fail(struct wfctx *w, const char *clause, const char *fmt, ...)
{
  char buf[700]; va_list ap;
  va_start(ap, fmt); vsnprintf(buf, sizeof(buf), fmt, ap); va_end(ap);
  w->nfail++;
  if (w->rep) w->rep(w->ctx, clause, buf);
}

static const char *oname(hwloc_obj_t o)
{
  static char bufs[4][96]; static int k;
  char *b = bufs[k++ & 3];
  if (!o) return "NULL";
  snprintf(b, 96, "%s(os=%d,gp=%" PRIu64 ",L=%u)", hwloc_obj_type_string(o->type), (int)o->os_index, o->gp_index, o->logical_index);
  return b;
}

static int is_normal(hwloc_obj_type_t t) { return t <= HWLOC_OBJ_GROUP; }
static int is_memory(hwloc_obj_type_t t) { return t == HWLOC_OBJ_NUMANODE || t == HWLOC_OBJ_MEMCACHE; }
static int is_io(hwloc_obj_type_t t) { return t == HWLOC_OBJ_BRIDGE || t == HWLOC_OBJ_PCI_DEVICE || t == HWLOC_OBJ_OS_DEVICE; }

static int special_depth(hwloc_obj_type_t t)
{
  switch (t) {
  case HWLOC_OBJ_NUMANODE: return HWLOC_TYPE_DEPTH_NUMANODE;
  case HWLOC_OBJ_MEMCACHE: return HWLOC_TYPE_DEPTH_MEMCACHE;
  case HWLOC_OBJ_BRIDGE: return HWLOC_TYPE_DEPTH_BRIDGE;
  case HWLOC_OBJ_PCI_DEVICE: return HWLOC_TYPE_DEPTH_PCI_DEVICE;
  case HWLOC_OBJ_OS_DEVICE: return HWLOC_TYPE_DEPTH_OS_DEVICE;
  case HWLOC_OBJ_MISC: return HWLOC_TYPE_DEPTH_MISC;
  default: return 0;
  }
}

/* per-object scratch, indexed by position in the walk */
struct oinfo { refset cs, ccs, ns, cns; int has_sets; };

static void check_list(struct wfctx *w, hwloc_obj_t parent, hwloc_obj_t first, unsigned arity, const char *which, int (*kind)(hwloc_obj_type_t), hwloc_obj_t *array)
{
  unsigned i = 0; hwloc_obj_t prev = NULL, c;
  for (c = first; c && i < 1000000; prev = c, c = c->next_sibling, i++) {
    if (c->parent != parent) fail(w, "wf.link.parent", "%s child %s of %s has parent %s", which, oname(c), oname(parent), oname(c->parent));
    if (c->sibling_rank != i) fail(w, "wf.link.sibling_rank", "%s child #%u of %s has sibling_rank %u", which, i, oname(parent), c->sibling_rank);
    if (c->prev_sibling != prev) fail(w, "wf.link.prev_sibling", "%s child #%u of %s", which, i, oname(parent));
    if (!kind(c->type)) fail(w, "wf.link.kind", "%s in the %s children list of %s", oname(c), which, oname(parent));
    if (array && i < arity && array[i] != c) fail(w, "wf.link.children_array", "children[%u] of %s is not the %u-th list element", i, oname(parent), i);
  }
  if (i != arity) fail(w, "wf.link.arity", "%s arity of %s is %u but the list has %u elements", which, oname(parent), arity, i);
}
static int kind_misc(hwloc_obj_type_t t) { return t == HWLOC_OBJ_MISC; }

/* recursive nodeset rule: inherited = NUMA nodes attached to ancestors-or-self so far.
 * returns in *below the set of NUMA nodes attached at or below o (o's local ones included) */
static void numa_in_memtree(hwloc_obj_t m, refset *out)
{
  if (m->type == HWLOC_OBJ_NUMANODE) rs_set(out, m->os_index);
  for (hwloc_obj_t c = m->memory_first_child; c; c = c->next_sibling) numa_in_memtree(c, out);
}

static void check_memobj_sets(struct wfctx *w, hwloc_obj_t m, hwloc_obj_t normal_parent)
{
  refset ns, cs, pcs, expect;
  if (!m->cpuset || !m->nodeset || !normal_parent->cpuset) return;
  rs_from_bitmap(&cs, m->cpuset); rs_from_bitmap(&pcs, normal_parent->cpuset);
  if (!rs_isequal(&cs, &pcs)) fail(w, "wf.cpuset.memchild", "%s cpuset %s != parent %s cpuset %s", oname(m), rs_str(&cs), oname(normal_parent), rs_str(&pcs));
  /* (nothing is demanded of complete_cpuset beyond inclusion: the statement only says that
   * memory children share their parent's cpuset) */
  rs_from_bitmap(&ns, m->nodeset);
  rs_zero(&expect); numa_in_memtree(m, &expect);
  if (!rs_isequal(&ns, &expect)) fail(w, "wf.nodeset.memory", "%s nodeset %s, NUMA nodes in its memory subtree %s", oname(m), rs_str(&ns), rs_str(&expect));
  if (m->type == HWLOC_OBJ_NUMANODE) {
    refset cns; rs_from_bitmap(&cns, m->complete_nodeset);
    if (!rs_isequal(&cns, &expect)) fail(w, "wf.nodeset.numa.complete", "%s complete_nodeset %s", oname(m), rs_str(&cns));
    if (m->memory_first_child || m->first_child) fail(w, "wf.numa.leaf", "%s has children", oname(m));
  } else if (!m->memory_first_child) {
    fail(w, "wf.memcache.leaf", "%s has no memory child", oname(m));
  }
  for (hwloc_obj_t c = m->memory_first_child; c; c = c->next_sibling) check_memobj_sets(w, c, normal_parent);
}

static void check_nodesets(struct wfctx *w, hwloc_obj_t o, const refset *inherited, refset *below)
{
  refset local, mine, children, ns, tmp;
  rs_zero(&local);
  for (hwloc_obj_t m = o->memory_first_child; m; m = m->next_sibling) {
    refset one; rs_zero(&one); numa_in_memtree(m, &one);
    if (rs_intersects(&one, &local)) fail(w, "wf.nodeset.disjoint", "memory children of %s share NUMA nodes", oname(o));
    rs_or(&local, &local, &one);
    check_memobj_sets(w, m, o);
  }
  if (rs_intersects(&local, inherited)) fail(w, "wf.nodeset.disjoint", "NUMA nodes attached to %s (%s) also attached to an ancestor", oname(o), rs_str(&local));
  rs_or(&mine, inherited, &local);
  rs_zero(&children);
  for (hwloc_obj_t c = o->first_child; c; c = c->next_sibling) {
    refset b; rs_zero(&b);
    check_nodesets(w, c, &mine, &b);
    if (rs_intersects(&b, &children) || rs_intersects(&b, &mine)) fail(w, "wf.nodeset.disjoint", "NUMA nodes below child %s of %s are not disjoint from siblings/ancestors", oname(c), oname(o));
    rs_or(&children, &children, &b);
  }
  rs_or(&tmp, &mine, &children);
  if (o->nodeset) {
    rs_from_bitmap(&ns, o->nodeset);
    if (!rs_isequal(&ns, &tmp)) fail(w, "wf.nodeset.union", "%s nodeset %s, expected inherited %s + local %s + children %s", oname(o), rs_str(&ns), rs_str(inherited), rs_str(&local), rs_str(&children));
  }
  rs_or(below, &local, &children);
}

int wf_check(hwloc_topology_t t, wf_report_fn rep, void *ctx)
{
  struct wfctx W = { t, rep, ctx, 0 }, *w = &W;
  hwloc_obj_t root = hwloc_get_root_obj(t);
  unsigned long tflags = hwloc_topology_get_flags(t);
  int depth = hwloc_topology_get_depth(t);

  if (!root) { fail(w, "wf.root", "no root"); return W.nfail; }
  /* the reference set model has a finite window: topologies with indexes beyond it are not judged */
  if (root->complete_cpuset && root->complete_nodeset) {
    int lc = hwloc_bitmap_last(root->complete_cpuset), ln = hwloc_bitmap_last(root->complete_nodeset);
    if (lc >= RS_BITS - 128 || ln >= RS_BITS - 128) { mc_count("wf_skipped_indexes_outside_reference_window", 1); return 0; }
  }
  if (root->type != HWLOC_OBJ_MACHINE) fail(w, "wf.root", "root type %s", hwloc_obj_type_string(root->type));
  if (root->parent) fail(w, "wf.root", "root has a parent");
  if (root->depth != 0) fail(w, "wf.root", "root depth %d", root->depth);
  if (root->next_sibling || root->prev_sibling || root->next_cousin || root->prev_cousin) fail(w, "wf.root", "root has siblings or cousins");
  if (hwloc_get_nbobjs_by_depth(t, 0) != 1 || hwloc_get_obj_by_depth(t, 0, 0) != root) fail(w, "wf.root", "level 0 is not exactly the root");
  if (depth < 2) { fail(w, "wf.depth", "topology depth %d", depth); return W.nfail; }
  if (hwloc_get_depth_type(t, depth - 1) != HWLOC_OBJ_PU) fail(w, "wf.pu.deepest", "deepest level has type %s", hwloc_obj_type_string(hwloc_get_depth_type(t, depth - 1)));
  if (hwloc_get_depth_type(t, depth) != (hwloc_obj_type_t)-1) fail(w, "wf.depth", "a level exists at depth %d", depth);
  if (hwloc_get_type_depth(t, HWLOC_OBJ_PU) != depth - 1) fail(w, "wf.pu.deepest", "type depth of PU is %d, topology depth %d", hwloc_get_type_depth(t, HWLOC_OBJ_PU), depth);
  if (hwloc_get_nbobjs_by_depth(t, depth - 1) == 0) fail(w, "wf.pu.deepest", "no PU");
  if (hwloc_get_nbobjs_by_depth(t, HWLOC_TYPE_DEPTH_NUMANODE) < 1) fail(w, "wf.numa.exists", "no NUMA node");

  hwloc_obj_t *objs; unsigned n = canon_walk(t, &objs);

  /* ---- per object: links, kinds, depths, level lookups */
  struct strset gps; strset_init(&gps);
  refset pu_os, numa_os; rs_zero(&pu_os); rs_zero(&numa_os);
  unsigned count_by_type[HWLOC_OBJ_TYPE_MAX]; memset(count_by_type, 0, sizeof(count_by_type));
  /* depths at which each normal type appears */
  int first_depth[HWLOC_OBJ_TYPE_MAX], multi[HWLOC_OBJ_TYPE_MAX];
  for (int i = 0; i < HWLOC_OBJ_TYPE_MAX; i++) { first_depth[i] = -100; multi[i] = 0; }
  unsigned *per_depth = calloc((size_t)depth + 1, sizeof(unsigned));
  unsigned per_special[9]; memset(per_special, 0, sizeof(per_special));
  /* DFS order must be the level order on normal levels */
  hwloc_obj_t *last_at_depth = calloc((size_t)depth + 1, sizeof(hwloc_obj_t));

  for (unsigned i = 0; i < n; i++) {
    hwloc_obj_t o = objs[i];
    if ((unsigned)o->type >= HWLOC_OBJ_TYPE_MAX) { fail(w, "wf.type.range", "object with type %d", (int)o->type); continue; }
    count_by_type[o->type]++;
    if (!strset_add(&gps, (const char *)&o->gp_index, sizeof(o->gp_index))) fail(w, "wf.gp.unique", "gp_index %" PRIu64 " used twice (%s)", o->gp_index, oname(o));
    check_list(w, o, o->first_child, o->arity, "normal", is_normal, o->children);
    check_list(w, o, o->memory_first_child, o->memory_arity, "memory", is_memory, NULL);
    check_list(w, o, o->io_first_child, o->io_arity, "io", is_io, NULL);
    check_list(w, o, o->misc_first_child, o->misc_arity, "misc", kind_misc, NULL);
    if (o->arity) {
      if (o->last_child != o->children[o->arity - 1] || o->first_child != o->children[0]) fail(w, "wf.link.first_last_child", "%s", oname(o));
    } else if (o->first_child || o->last_child) fail(w, "wf.link.first_last_child", "%s has arity 0 but first/last child", oname(o));
    /* which lists may exist below which kind */
    if (!is_normal(o->type) && o->first_child) fail(w, "wf.link.kind", "%s has normal children", oname(o));
    if (!(is_normal(o->type) || o->type == HWLOC_OBJ_MEMCACHE) && o->memory_first_child) fail(w, "wf.link.kind", "%s has memory children", oname(o));
    if ((is_memory(o->type) || o->type == HWLOC_OBJ_MISC) && o->io_first_child) fail(w, "wf.link.kind", "%s has io children", oname(o));
    if (o->type == HWLOC_OBJ_PU && (o->arity || o->memory_arity)) fail(w, "wf.pu.leaf", "%s has normal or memory children", oname(o));
    /* exactly one kind */
    {
      int k = !!hwloc_obj_type_is_normal(o->type) + !!hwloc_obj_type_is_memory(o->type) + !!hwloc_obj_type_is_io(o->type) + (o->type == HWLOC_OBJ_MISC);
      if (k != 1) fail(w, "wf.type.kind", "%s: %d kind predicates true", oname(o), k);
    }
    /* depth */
    if (is_normal(o->type)) {
      if (o->depth < 0 || o->depth >= depth) { fail(w, "wf.depth.normal", "%s depth %d", oname(o), o->depth); continue; }
      if (o->parent && o->depth <= o->parent->depth) fail(w, "wf.depth.order", "%s depth %d, parent depth %d", oname(o), o->depth, o->parent->depth);
      if (o->type == HWLOC_OBJ_PU && o->depth != depth - 1) fail(w, "wf.pu.deepest", "%s at depth %d", oname(o), o->depth);
      if (o->type == HWLOC_OBJ_MACHINE && o != root) fail(w, "wf.root.single", "second Machine object %s", oname(o));
      per_depth[o->depth]++;
      if (first_depth[o->type] == -100) first_depth[o->type] = o->depth; else if (first_depth[o->type] != o->depth) multi[o->type] = 1;
      /* DFS order == logical order */
      hwloc_obj_t prev = last_at_depth[o->depth];
      if ((prev ? prev->logical_index + 1 : 0) != o->logical_index) fail(w, "wf.level.order", "%s follows %s in tree order at depth %d", oname(o), oname(prev), o->depth);
      if (o->prev_cousin != prev) fail(w, "wf.link.cousin", "prev_cousin of %s is %s, expected %s", oname(o), oname(o->prev_cousin), oname(prev));
      if (prev && prev->next_cousin != o) fail(w, "wf.link.cousin", "next_cousin of %s is %s, expected %s", oname(prev), oname(prev->next_cousin), oname(o));
      last_at_depth[o->depth] = o;
    } else {
      int sd = special_depth(o->type);
      if (o->depth != sd) fail(w, "wf.depth.special", "%s depth %d, expected %d", oname(o), o->depth, sd);
      per_special[-sd]++;
      if (o->next_cousin && (o->next_cousin->logical_index != o->logical_index + 1 || o->next_cousin->prev_cousin != o)) fail(w, "wf.link.cousin", "special cousin chain broken after %s", oname(o));
      if (!o->prev_cousin && o->logical_index != 0) fail(w, "wf.link.cousin", "%s has no prev_cousin but logical_index %u", oname(o), o->logical_index);
    }
    /* level lookup both ways */
    if (hwloc_get_obj_by_depth(t, o->depth, o->logical_index) != o) fail(w, "wf.level.lookup", "get_obj_by_depth(%d,%u) != %s", o->depth, o->logical_index, oname(o));
    if (hwloc_get_depth_type(t, o->depth) != o->type) fail(w, "wf.level.type", "get_depth_type(%d)=%d for %s", o->depth, (int)hwloc_get_depth_type(t, o->depth), oname(o));
    if (hwloc_get_next_obj_by_depth(t, o->depth, o) != o->next_cousin) fail(w, "wf.level.next", "get_next_obj_by_depth after %s", oname(o));
    /* sets presence */
    {
      int ns = !!o->cpuset + !!o->complete_cpuset + !!o->nodeset + !!o->complete_nodeset;
      if (is_normal(o->type) || is_memory(o->type)) { if (ns != 4) fail(w, "wf.sets.present", "%s has %d of 4 sets", oname(o), ns); }
      else if (ns != 0) fail(w, "wf.sets.absent", "%s (I/O or Misc) has %d sets", oname(o), ns);
      if (ns == 4) {
        refset a, b;
        rs_from_bitmap(&a, o->cpuset); rs_from_bitmap(&b, o->complete_cpuset);
        if (!rs_isincluded(&a, &b)) fail(w, "wf.sets.complete", "%s cpuset %s not in complete_cpuset %s", oname(o), rs_str(&a), rs_str(&b));
        if (a.tail || b.tail) fail(w, "wf.sets.finite", "%s has an infinite cpuset", oname(o));
        if (o->parent && o->parent->cpuset) {
          refset pa, pb; rs_from_bitmap(&pa, o->parent->cpuset); rs_from_bitmap(&pb, o->parent->complete_cpuset);
          if (!rs_isincluded(&a, &pa)) fail(w, "wf.sets.parent", "%s cpuset %s not in parent's %s", oname(o), rs_str(&a), rs_str(&pa));
          if (!rs_isincluded(&b, &pb)) fail(w, "wf.sets.parent", "%s complete_cpuset %s not in parent's %s", oname(o), rs_str(&b), rs_str(&pb));
        }
        rs_from_bitmap(&a, o->nodeset); rs_from_bitmap(&b, o->complete_nodeset);
        if (!rs_isincluded(&a, &b)) fail(w, "wf.sets.complete", "%s nodeset %s not in complete_nodeset %s", oname(o), rs_str(&a), rs_str(&b));
        if (a.tail || b.tail) fail(w, "wf.sets.finite", "%s has an infinite nodeset", oname(o));
        if (o->parent && o->parent->nodeset) {
          refset pa, pb; rs_from_bitmap(&pa, o->parent->nodeset); rs_from_bitmap(&pb, o->parent->complete_nodeset);
          if (!rs_isincluded(&a, &pa)) fail(w, "wf.sets.parent", "%s nodeset %s not in parent's %s", oname(o), rs_str(&a), rs_str(&pa));
          if (!rs_isincluded(&b, &pb)) fail(w, "wf.sets.parent", "%s complete_nodeset %s not in parent's %s", oname(o), rs_str(&b), rs_str(&pb));
        }
        /* cpuset = disjoint union of the normal children's (PU: itself) */
        if (is_normal(o->type)) {
          refset cs, u; rs_from_bitmap(&cs, o->cpuset); rs_zero(&u);
          if (o->type == HWLOC_OBJ_PU) {
            rs_set(&u, o->os_index);
            if (o->os_index >= RS_BITS) { /* outside the reference window: compare through isset only */ }
            else if (!rs_isequal(&cs, &u)) fail(w, "wf.cpuset.pu", "%s cpuset %s", oname(o), rs_str(&cs));
            if (rs_isset(&pu_os, o->os_index)) fail(w, "wf.os_index.unique", "PU os_index %u twice", o->os_index);
            rs_set(&pu_os, o->os_index);
          } else {
            for (hwloc_obj_t c = o->first_child; c; c = c->next_sibling) {
              refset cc; if (!c->cpuset) continue; rs_from_bitmap(&cc, c->cpuset);
              if (rs_intersects(&cc, &u)) fail(w, "wf.cpuset.disjoint", "children of %s overlap at %s", oname(o), oname(c));
              rs_or(&u, &u, &cc);
            }
            if (!rs_isequal(&cs, &u)) fail(w, "wf.cpuset.union", "%s cpuset %s, union of normal children %s", oname(o), rs_str(&cs), rs_str(&u));
          }
        }
        if (o->type == HWLOC_OBJ_NUMANODE) {
          if (rs_isset(&numa_os, o->os_index)) fail(w, "wf.os_index.unique", "NUMA os_index %u twice", o->os_index);
          rs_set(&numa_os, o->os_index);
        }
      }
    }
    /* total_memory */
    {
      hwloc_uint64_t tm = 0;
      if (o->type == HWLOC_OBJ_NUMANODE && o->attr) tm += o->attr->numanode.local_memory;
      for (hwloc_obj_t c = o->first_child; c; c = c->next_sibling) tm += c->total_memory;
      for (hwloc_obj_t c = o->memory_first_child; c; c = c->next_sibling) tm += c->total_memory;
      if (tm != o->total_memory) fail(w, "wf.total_memory", "%s total_memory %" PRIu64 ", sum below %" PRIu64, oname(o), o->total_memory, tm);
    }
    /* type attributes */
    if (!o->attr) fail(w, "wf.attr.present", "%s has no attr", oname(o));
    else if (o->type >= HWLOC_OBJ_L1CACHE && o->type <= HWLOC_OBJ_L3ICACHE) {
      unsigned d = o->attr->cache.depth; hwloc_obj_cache_type_t ct = o->attr->cache.type;
      if (o->type <= HWLOC_OBJ_L5CACHE) {
        if (d != (unsigned)(o->type - HWLOC_OBJ_L1CACHE + 1) || (ct != HWLOC_OBJ_CACHE_UNIFIED && ct != HWLOC_OBJ_CACHE_DATA)) fail(w, "wf.attr.cache", "%s has cache depth %u type %d", oname(o), d, (int)ct);
      } else if (d != (unsigned)(o->type - HWLOC_OBJ_L1ICACHE + 1) || ct != HWLOC_OBJ_CACHE_INSTRUCTION) fail(w, "wf.attr.cache", "%s has cache depth %u type %d", oname(o), d, (int)ct);
    } else if (o->type == HWLOC_OBJ_GROUP) {
      if (o->attr->group.depth == (unsigned)-1) fail(w, "wf.attr.group", "%s has group depth -1", oname(o));
    } else if (o->type == HWLOC_OBJ_NUMANODE) {
      if ((o->attr->numanode.page_types_len == 0) != (o->attr->numanode.page_types == NULL)) fail(w, "wf.attr.numa", "%s page_types array/len mismatch", oname(o));
    }
    /* filters */
    {
      enum hwloc_type_filter_e f = HWLOC_TYPE_FILTER_KEEP_ALL;
      hwloc_topology_get_type_filter(t, o->type, &f);
      if (f == HWLOC_TYPE_FILTER_KEEP_NONE) fail(w, "wf.filter.none", "%s present although its type filter is KEEP_NONE", oname(o));
      if (f == HWLOC_TYPE_FILTER_KEEP_IMPORTANT && o->type == HWLOC_OBJ_BRIDGE && !o->io_first_child) fail(w, "wf.filter.important", "childless %s under KEEP_IMPORTANT", oname(o));
    }
  }

  /* ---- levels: widths, ends, type depth lookups */
  for (int d = 0; d < depth; d++) {
    unsigned nb = hwloc_get_nbobjs_by_depth(t, d);
    if (nb != per_depth[d]) fail(w, "wf.level.width", "depth %d: nbobjs %u, objects found by the walk %u", d, nb, per_depth[d]);
    if (hwloc_get_obj_by_depth(t, d, nb)) fail(w, "wf.level.end", "depth %d has an object at index %u", d, nb);
    if (last_at_depth[d] && last_at_depth[d]->next_cousin) fail(w, "wf.link.cousin", "last object at depth %d has a next_cousin", d);
    hwloc_obj_type_t ty = hwloc_get_depth_type(t, d);
    if ((unsigned)ty >= HWLOC_OBJ_TYPE_MAX || !is_normal(ty)) fail(w, "wf.level.type", "depth %d has type %d", d, (int)ty);
    if (d > 0 && d < depth - 1 && (ty == HWLOC_OBJ_PU || ty == HWLOC_OBJ_MACHINE)) fail(w, "wf.level.type", "intermediate depth %d has type %s", d, hwloc_obj_type_string(ty));
    if (nb == 0) fail(w, "wf.level.width", "empty level at depth %d", d);
  }
  for (int sd = 3; sd <= 8; sd++) {
    unsigned nb = hwloc_get_nbobjs_by_depth(t, -sd);
    if (nb != per_special[sd]) fail(w, "wf.level.width", "special depth %d: nbobjs %u, objects found by the walk %u", -sd, nb, per_special[sd]);
    if (hwloc_get_obj_by_depth(t, -sd, nb)) fail(w, "wf.level.end", "special depth %d has an object at index %u", -sd, nb);
    for (unsigned i = 0; i < nb; i++) {
      hwloc_obj_t o = hwloc_get_obj_by_depth(t, -sd, i);
      if (!o || o->logical_index != i || o->depth != -sd) { fail(w, "wf.level.lookup", "special depth %d index %u", -sd, i); break; }
    }
  }
  for (int ty = HWLOC_OBJ_TYPE_MIN; ty < HWLOC_OBJ_TYPE_MAX; ty++) {
    int td = hwloc_get_type_depth(t, (hwloc_obj_type_t)ty), expect;
    if (!is_normal((hwloc_obj_type_t)ty)) expect = special_depth((hwloc_obj_type_t)ty);
    else if (!count_by_type[ty]) expect = HWLOC_TYPE_DEPTH_UNKNOWN;
    else if (multi[ty]) expect = HWLOC_TYPE_DEPTH_MULTIPLE;
    else expect = first_depth[ty];
    if (td != expect) fail(w, "wf.type_depth", "get_type_depth(%s)=%d expected %d", hwloc_obj_type_string((hwloc_obj_type_t)ty), td, expect);
    /* (a non-Group type on several levels, e.g. synthetic "L3Cache:1 L3Cache:3 3", is reported as MULTIPLE like Groups: accepted) */
    int nbt = hwloc_get_nbobjs_by_type(t, (hwloc_obj_type_t)ty);
    if (!multi[ty] && nbt != (int)count_by_type[ty]) fail(w, "wf.level.width", "nbobjs_by_type(%s)=%d, walk found %u", hwloc_obj_type_string((hwloc_obj_type_t)ty), nbt, count_by_type[ty]);
    if (multi[ty] && nbt != -1) fail(w, "wf.level.width", "nbobjs_by_type(%s)=%d for a multi-level type", hwloc_obj_type_string((hwloc_obj_type_t)ty), nbt);
  }

  /* ---- nodesets, recursively */
  { refset inh, below; rs_zero(&inh); rs_zero(&below); check_nodesets(w, root, &inh, &below);
    if (!rs_isequal(&below, &numa_os)) fail(w, "wf.nodeset.union", "NUMA nodes reachable through memory children %s != NUMA objects found %s", rs_str(&below), rs_str(&numa_os)); }

  /* ---- topology-level sets */
  {
    refset rc, rcc, rn, rcn, ac, an, x;
    rs_from_bitmap(&rc, root->cpuset); rs_from_bitmap(&rcc, root->complete_cpuset);
    rs_from_bitmap(&rn, root->nodeset); rs_from_bitmap(&rcn, root->complete_nodeset);
    rs_from_bitmap(&x, hwloc_topology_get_topology_cpuset(t)); if (!rs_isequal(&x, &rc)) fail(w, "wf.toposet", "topology cpuset != root cpuset");
    rs_from_bitmap(&x, hwloc_topology_get_complete_cpuset(t)); if (!rs_isequal(&x, &rcc)) fail(w, "wf.toposet", "complete cpuset != root complete_cpuset");
    rs_from_bitmap(&x, hwloc_topology_get_topology_nodeset(t)); if (!rs_isequal(&x, &rn)) fail(w, "wf.toposet", "topology nodeset != root nodeset");
    rs_from_bitmap(&x, hwloc_topology_get_complete_nodeset(t)); if (!rs_isequal(&x, &rcn)) fail(w, "wf.toposet", "complete nodeset != root complete_nodeset");
    if (!rs_isequal(&rc, &pu_os)) fail(w, "wf.cpuset.root", "root cpuset %s != set of PU os_indexes %s", rs_str(&rc), rs_str(&pu_os));
    if (!rs_isequal(&rn, &numa_os)) fail(w, "wf.nodeset.root", "root nodeset %s != set of NUMA os_indexes %s", rs_str(&rn), rs_str(&numa_os));
    hwloc_const_bitmap_t acs = hwloc_topology_get_allowed_cpuset(t), ans = hwloc_topology_get_allowed_nodeset(t);
    if (!acs || !ans) fail(w, "wf.allowed", "allowed set is NULL");
    else {
      rs_from_bitmap(&ac, acs); rs_from_bitmap(&an, ans);
      if (tflags & HWLOC_TOPOLOGY_FLAG_INCLUDE_DISALLOWED) {
        if (!rs_isincluded(&ac, &rc)) fail(w, "wf.allowed.included", "allowed cpuset %s not in root cpuset %s", rs_str(&ac), rs_str(&rc));
        if (!rs_isincluded(&an, &rn)) fail(w, "wf.allowed.included", "allowed nodeset %s not in root nodeset %s", rs_str(&an), rs_str(&rn));
      } else {
        if (!rs_isequal(&ac, &rc)) fail(w, "wf.allowed.equal", "allowed cpuset %s != root cpuset %s", rs_str(&ac), rs_str(&rc));
        if (!rs_isequal(&an, &rn)) fail(w, "wf.allowed.equal", "allowed nodeset %s != root nodeset %s", rs_str(&an), rs_str(&rn));
      }
    }
  }
  free(per_depth); free(last_at_depth); free(objs); strset_free(&gps);
  return W.nfail;
}

/* ---- convenience: record failures as violations "wf.<clause>@<where>" */
struct mcrep { const char *where; };
static void mc_rep(void *ctx, const char *clause, const char *detail)
{
  struct mcrep *r = ctx; char key[200];
  snprintf(key, sizeof(key), "%s@%s", clause, r->where);
  mc_violation(key, "%s :: %s", mc_case_text(), detail);
}
int wf_check_mc(hwloc_topology_t t, const char *where)
{
  struct mcrep r = { where };
  return wf_check(t, mc_rep, &r);
}

/* secondary oracle: hwloc_topology_check() must not abort */
int wf_builtin_check_mc(hwloc_topology_t t, const char *where)
{
  if (MC_TRY(20000)) { hwloc_topology_check(t); mc_try_end(); }
  return mc_report_faults(where);
}
