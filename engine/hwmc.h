/* hwmc - shared substrate of the hwloc model-checking harnesses.
 *
 *  - command line / partitioning (--tier, --part i/n, --out, --only)
 *  - counters, samples, violations (deduplicated by key), written as a line-oriented
 *    result file that the python driver aggregates
 *  - protected execution of library calls: failed assert(), SIGSEGV/SIGBUS/SIGFPE/SIGABRT,
 *    watchdog timeout, ASan and UBSan reports are all turned into recorded outcomes and
 *    control returns to the explorer (no fork per case)
 *  - progress page (MAP_SHARED) naming the case in flight, for outcomes that kill the worker
 *  - a growable string buffer and a string-keyed hash set (state tables)
 */
#ifndef HWMC_H
#define HWMC_H

#include <stdio.h>
#include <stdlib.h>
#include <string.h>
#include <stdint.h>
#include <stdarg.h>
#include <setjmp.h>
#include <errno.h>

/* ---------- string buffer ---------- */
struct sb { char *s; size_t len, cap; };
void sb_init(struct sb *b);
void sb_reset(struct sb *b);
void sb_free(struct sb *b);
void sb_putc(struct sb *b, char c);
void sb_puts(struct sb *b, const char *s);
void sb_putn(struct sb *b, const char *s, size_t n);
void sb_printf(struct sb *b, const char *fmt, ...) __attribute__((format(printf,2,3)));
void sb_put_escaped(struct sb *b, const char *s); /* NULL -> <null>, escapes non printable */
char *sb_steal(struct sb *b);

uint64_t mc_hash(const void *p, size_t n);

/* ---------- hash set of strings (keeps a 128-bit digest only) ---------- */
struct strset { uint64_t *h1, *h2; size_t cap, n; };
void strset_init(struct strset *s);
void strset_free(struct strset *s);
/* returns 1 if newly added, 0 if it was already there */
int strset_add(struct strset *s, const char *key, size_t len);
int strset_has(struct strset *s, const char *key, size_t len);

/* ---------- run context ---------- */
struct mc_ctx {
  const char *prop;
  int thorough;        /* tier */
  int part, nparts;    /* this worker handles top-level items with index % nparts == part */
  long seed;
  const char *only;    /* replay: only the case whose text equals this is checked */
  const char *outpath;
  double deadline_s;   /* wall-clock budget of this worker (0 = none) */
  int deadline_hit;
  uint64_t states, transitions;
  int nviol;           /* violation records (after dedup) */
  uint64_t nviol_raw;
  int ncrash;          /* outcomes that abandoned a call (assert/signal/hang) */
};
extern struct mc_ctx MC;

void mc_init(int argc, char **argv, const char *prop);
/* extra harness-specific options: value of --name or NULL */
const char *mc_opt(const char *name);
int  mc_mine(uint64_t index);               /* partition test */
int  mc_deadline(void);                     /* 1 once the budget is used up */
void mc_count(const char *name, uint64_t n);
void mc_count_max(const char *name, uint64_t v);
void mc_sample(const char *fmt, ...) __attribute__((format(printf,1,2)));
/* distinct outcome tracking: counts distinct strings per class */
void mc_outcome(const char *cls, const char *fmt, ...) __attribute__((format(printf,2,3)));
/* record a violation. key identifies the failing clause/site (used for known findings and
 * dedup), the formatted text is the replayable case description. */
void mc_violation(const char *key, const char *fmt, ...) __attribute__((format(printf,2,3)));
void mc_note(const char *fmt, ...) __attribute__((format(printf,1,2)));
/* name the case in flight (progress page + --only filter). returns 0 if the case is
 * to be skipped because of --only */
int  mc_case(const char *fmt, ...) __attribute__((format(printf,1,2)));
const char *mc_case_text(void);
int  mc_finish(int exhaustive);             /* writes the result file, returns exit code */
double mc_now(void);

/* ---------- protected calls ----------
 *   if (MC_TRY(ms)) { ...library calls...; mc_try_end(); } else { outcome in mc_fault }
 * mc_try_end() must be called on the normal path.  After the block, mc_fault[0] != 0
 * tells that the block was abandoned (text = "assert:file:line:expr", "signal:SIGSEGV",
 * "hang"), and mc_san[0] != 0 that a sanitizer reported something ("asan:heap-buffer-overflow",
 * "ubsan:...") while it ran.
 */
extern sigjmp_buf mc_jmp;
extern char mc_fault[512];
extern char mc_san[256];
void mc_try_begin(unsigned timeout_ms);
void mc_try_end(void);
#define MC_TRY(ms) (mc_try_begin(ms), sigsetjmp(mc_jmp, 1) == 0)
/* records mc_fault / mc_san as violations "<prefix><fault>" with the current case text;
 * returns 1 if anything was recorded */
int mc_report_faults(const char *where);
void mc_clear_san(void);

/* leak check over everything allocated since the last call (LSan recoverable check);
 * returns 1 if leaks were reported */
int mc_leak_check(void);
void mc_leak_disable(void); /* after an abandoned call the process is no longer leak-clean */

#endif
