#define _GNU_SOURCE
#include "univ.h"
#include <dirent.h>
#include <sys/stat.h>

const char *univ_repo(void) { const char *r = getenv("VERIF_REPO"); return r && *r ? r : "/repo"; }
const char *univ_verif(void) { const char *r = getenv("VERIF_DIR"); return r && *r ? r : "/verif"; }

char *univ_read_file(const char *path, int *lenp)
{
  FILE *f = fopen(path, "rb");
  if (!f) return NULL;
  fseek(f, 0, SEEK_END); long n = ftell(f); fseek(f, 0, SEEK_SET);
  char *buf = malloc((size_t)n + 1);
  if (fread(buf, 1, (size_t)n, f) != (size_t)n) { fclose(f); free(buf); return NULL; }
  buf[n] = 0; fclose(f);
  if (lenp) *lenp = (int)n;
  return buf;
}

/* ------------------------------------------------------------------ configurations */
/* all subsets of the eight load-time flags usable offline, by increasing popcount */
#define NB 8
static const unsigned long FLAGBITS[NB] = {
  HWLOC_TOPOLOGY_FLAG_INCLUDE_DISALLOWED, HWLOC_TOPOLOGY_FLAG_IS_THISSYSTEM, HWLOC_TOPOLOGY_FLAG_IMPORT_SUPPORT,
  HWLOC_TOPOLOGY_FLAG_NO_DISTANCES, HWLOC_TOPOLOGY_FLAG_NO_MEMATTRS, HWLOC_TOPOLOGY_FLAG_NO_CPUKINDS,
  HWLOC_TOPOLOGY_FLAG_DONT_CHANGE_BINDING, HWLOC_TOPOLOGY_FLAG_THISSYSTEM_ALLOWED_RESOURCES };
unsigned long UNIV_FLAGS[1 << NB];
const int UNIV_NFLAGS = 1 << NB;
__attribute__((constructor)) static void init_flags(void)
{
  int n = 0;
  for (int pc = 0; pc <= NB; pc++)
    for (unsigned m = 0; m < (1u << NB); m++)
      if (__builtin_popcount(m) == pc) {
        unsigned long f = 0;
        for (int b = 0; b < NB; b++) if (m & (1u << b)) f |= FLAGBITS[b];
        UNIV_FLAGS[n++] = f;
      }
}

void ucfg_default(struct ucfg *c)
{
  memset(c, 0, sizeof(*c));
  c->all_filter = -1;
  for (int i = 0; i < HWLOC_OBJ_TYPE_MAX; i++) c->filt[i] = -1;
}
void ucfg_keepall(struct ucfg *c) { ucfg_default(c); c->all_filter = HWLOC_TYPE_FILTER_KEEP_ALL; }

void ucfg_print(struct sb *b, const struct ucfg *c)
{
  sb_printf(b, "flags=%#lx", c->flags);
  if (c->all_filter >= 0) sb_printf(b, " all=%d", c->all_filter);
  if (c->group_setter) sb_printf(b, " %s=%d", c->group_setter == 1 ? "caches" : c->group_setter == 2 ? "icaches" : "io", c->group_filter);
  for (int i = 0; i < HWLOC_OBJ_TYPE_MAX; i++) if (c->filt[i] >= 0) sb_printf(b, " %s=%d", hwloc_obj_type_string((hwloc_obj_type_t)i), c->filt[i]);
}

int univ_load(hwloc_topology_t *tp, const struct usrc *s, const struct ucfg *c)
{
  hwloc_topology_t t;
  int rc = 0;
  *tp = NULL;
  if (hwloc_topology_init(&t) < 0) return -1;
  if (c) {
    if (c->all_filter >= 0) {
      /* set_all_types_filter refuses nothing: it skips the combinations a type does not allow */
      if (hwloc_topology_set_all_types_filter(t, (enum hwloc_type_filter_e)c->all_filter) < 0) rc = -2;
    }
    if (!rc && c->group_setter == 1 && hwloc_topology_set_cache_types_filter(t, (enum hwloc_type_filter_e)c->group_filter) < 0) rc = -2;
    if (!rc && c->group_setter == 2 && hwloc_topology_set_icache_types_filter(t, (enum hwloc_type_filter_e)c->group_filter) < 0) rc = -2;
    if (!rc && c->group_setter == 3 && hwloc_topology_set_io_types_filter(t, (enum hwloc_type_filter_e)c->group_filter) < 0) rc = -2;
    for (int i = 0; !rc && i < HWLOC_OBJ_TYPE_MAX; i++)
      if (c->filt[i] >= 0 && hwloc_topology_set_type_filter(t, (hwloc_obj_type_t)i, (enum hwloc_type_filter_e)c->filt[i]) < 0) rc = -2;
    if (!rc && hwloc_topology_set_flags(t, c->flags) < 0) rc = -2;
  }
  if (!rc) {
    int r = 0;
    switch (s->kind) {
    case USRC_SYNTHETIC: r = hwloc_topology_set_synthetic(t, s->text); break;
    case USRC_XMLFILE: r = hwloc_topology_set_xml(t, s->text); break;
    case USRC_XMLBUF: r = hwloc_topology_set_xmlbuffer(t, s->text, s->len); break;
    }
    if (r < 0) rc = -1;
  }
  if (!rc && hwloc_topology_load(t) < 0) rc = -1;
  if (rc) { int e = errno; hwloc_topology_destroy(t); errno = e; return rc; }
  *tp = t;
  return 0;
}

/* ------------------------------------------------------------------ synthetic generator */
static const int SYN_TYPES[] = { -1, HWLOC_OBJ_PACKAGE, HWLOC_OBJ_DIE, HWLOC_OBJ_CORE, HWLOC_OBJ_L3CACHE, HWLOC_OBJ_L2CACHE,
                                 HWLOC_OBJ_L1CACHE, HWLOC_OBJ_L1ICACHE, HWLOC_OBJ_GROUP, HWLOC_OBJ_NUMANODE };
#define NSYN_TYPES 10
static const char *syn_type_name(int t)
{
  switch (t) {
  case HWLOC_OBJ_PACKAGE: return "Package"; case HWLOC_OBJ_DIE: return "Die"; case HWLOC_OBJ_CORE: return "Core";
  case HWLOC_OBJ_L3CACHE: return "L3Cache"; case HWLOC_OBJ_L2CACHE: return "L2Cache"; case HWLOC_OBJ_L1CACHE: return "L1dCache";
  case HWLOC_OBJ_L1ICACHE: return "L1iCache"; case HWLOC_OBJ_GROUP: return "Group"; case HWLOC_OBJ_NUMANODE: return "NUMANode";
  case HWLOC_OBJ_PU: return "PU"; default: return NULL;
  }
}

static void syn_render(struct syn_desc *d)
{
  struct sb b; sb_init(&b);
  for (int i = 0; i < d->nlevels; i++) {
    struct syn_level *l = &d->lv[i];
    if (i) sb_putc(&b, ' ');
    if (l->type >= 0) sb_printf(&b, "%s:", syn_type_name(l->type));
    sb_printf(&b, "%u", l->arity);
    if (l->type == HWLOC_OBJ_NUMANODE && (l->memory || l->mscache)) { sb_putc(&b, '('); if (l->memory) sb_printf(&b, "memory=%llu", l->memory); if (l->memory && l->mscache) sb_putc(&b, ' '); if (l->mscache) sb_printf(&b, "memorysidecachesize=%llu", l->mscache); sb_putc(&b, ')'); }
    if (l->size) sb_printf(&b, "(size=%llu)", l->size);
    if (l->indexes) sb_printf(&b, "(indexes=%s)", l->indexes);
    for (int k = 0; k < l->attached_numa; k++) {
      sb_puts(&b, " [numa");
      if (k < 3 && l->numa_attrs[k]) { if (l->numa_attrs[k][0]) sb_printf(&b, "(%s)", l->numa_attrs[k]); sb_putc(&b, ']'); continue; }
      if (l->type != HWLOC_OBJ_NUMANODE && (l->memory || l->mscache)) { sb_putc(&b, '('); if (l->memory) sb_printf(&b, "memory=%llu", l->memory); if (l->memory && l->mscache) sb_putc(&b, ' '); if (l->mscache) sb_printf(&b, "memorysidecachesize=%llu", l->mscache); sb_putc(&b, ')'); }
      sb_putc(&b, ']');
    }
  }
  snprintf(d->text, sizeof(d->text), "%s", b.s);
  sb_free(&b);
}

struct syn_gen { syn_cb cb; void *ctx; uint64_t n; int family; };
static void syn_emit(struct syn_gen *g, struct syn_desc *d) { d->family = g->family; syn_render(d); if (g->cb) g->cb(d, g->n, g->ctx); g->n++; }

static void syn_rec(struct syn_gen *g, struct syn_desc *d, int level, int nlevels, const int *types, int ntypes, const unsigned *arities, int narities)
{
  if (level == nlevels - 1) {
    /* last level: PU typed or untyped */
    for (int ty = 0; ty < 2; ty++) for (int a = 0; a < narities; a++) {
      memset(&d->lv[level], 0, sizeof(d->lv[level]));
      d->lv[level].type = ty ? HWLOC_OBJ_PU : -1; d->lv[level].arity = arities[a];
      d->nlevels = nlevels;
      syn_emit(g, d);
    }
    return;
  }
  for (int t = 0; t < ntypes; t++) for (int a = 0; a < narities; a++) {
    memset(&d->lv[level], 0, sizeof(d->lv[level]));
    d->lv[level].type = types[t]; d->lv[level].arity = arities[a];
    syn_rec(g, d, level + 1, nlevels, types, ntypes, arities, narities);
  }
}

uint64_t univ_syn_enumerate(int scope, syn_cb cb, void *ctx)
{
  struct syn_gen g = { cb, ctx, 0, 1 };
  struct syn_desc d;
  static const unsigned A123[] = {1, 2, 3}, A12[] = {1, 2}, A2[] = {2};
  /* family 1: the full product, <= 2 (thorough: 3) intermediate levels over all 10 type choices, arities 1..3 */
  int full = scope ? 3 : 2;
  for (int k = 0; k <= full; k++) { memset(&d, 0, sizeof(d)); syn_rec(&g, &d, 0, k + 1, SYN_TYPES, NSYN_TYPES, A123, 3); }
  g.family = 2;
  /* family 2: one level deeper with arities 1..2 (quick: 3 levels, thorough: 4 levels with arity 2 on 6 types) */
  if (!scope) { memset(&d, 0, sizeof(d)); syn_rec(&g, &d, 0, 4, SYN_TYPES, NSYN_TYPES, A12, 2); }
  else { static const int T6[] = { -1, HWLOC_OBJ_PACKAGE, HWLOC_OBJ_CORE, HWLOC_OBJ_L2CACHE, HWLOC_OBJ_GROUP, HWLOC_OBJ_NUMANODE };
         memset(&d, 0, sizeof(d)); syn_rec(&g, &d, 0, 5, T6, 6, A12, 2); }
  (void)A2;
  g.family = 3;
  /* family 3: attached NUMA nodes at any one level (1 or 2 of them), with or without memory=,
   * over 3-level skeletons */
  {
    static const int SK[][3] = { {HWLOC_OBJ_PACKAGE, HWLOC_OBJ_CORE, HWLOC_OBJ_PU}, {HWLOC_OBJ_GROUP, HWLOC_OBJ_L2CACHE, HWLOC_OBJ_PU},
                                 {-1, -1, -1}, {HWLOC_OBJ_PACKAGE, HWLOC_OBJ_DIE, HWLOC_OBJ_PU}, {HWLOC_OBJ_NUMANODE, HWLOC_OBJ_CORE, HWLOC_OBJ_PU},
                                 {HWLOC_OBJ_PACKAGE, HWLOC_OBJ_NUMANODE, HWLOC_OBJ_PU} };
    for (unsigned s = 0; s < sizeof(SK) / sizeof(SK[0]); s++)
      for (unsigned a0 = 1; a0 <= 3; a0++) for (unsigned a1 = 1; a1 <= 2; a1++) for (unsigned a2 = 1; a2 <= 2; a2++)
        for (int at = 0; at < 3; at++) for (int cnt = 1; cnt <= 2; cnt++) for (int mem = 0; mem < 2; mem++) {
          memset(&d, 0, sizeof(d)); d.nlevels = 3;
          d.lv[0].type = SK[s][0]; d.lv[0].arity = a0; d.lv[1].type = SK[s][1]; d.lv[1].arity = a1; d.lv[2].type = SK[s][2]; d.lv[2].arity = a2;
          d.lv[at].attached_numa = cnt; if (mem) d.lv[at].memory = 1048576ULL * (unsigned)(at + 1);
          syn_emit(&g, &d);
        }
  }
  g.family = 4;
  /* family 4: indexes= on the PU or NUMA level, cache and memory sizes */
  {
    static const char *PUIDX[] = { "3,2,1,0,7,6,5,4", "0,4,1,5,2,6,3,7", "2*4", "4*2", "2*2:2*2", "core:package", "package:core", "numa:core", "pu:core:package", "0,1,2,3,4,5,6,8" /* wrong: rejected or ignored */, "0,1" /* too short */ };
    static const char *NIDX[] = { "1,0", "0,1", "1,3", "2*1" };
    for (unsigned i = 0; i < sizeof(PUIDX) / sizeof(PUIDX[0]); i++) for (int numa = 0; numa < 3; numa++) {
      memset(&d, 0, sizeof(d)); d.nlevels = 3;
      d.lv[0].type = numa == 1 ? HWLOC_OBJ_NUMANODE : HWLOC_OBJ_PACKAGE; d.lv[0].arity = 2; if (numa == 2) d.lv[0].attached_numa = 1;
      d.lv[1].type = HWLOC_OBJ_CORE; d.lv[1].arity = 2; d.lv[2].type = HWLOC_OBJ_PU; d.lv[2].arity = 2; d.lv[2].indexes = PUIDX[i];
      syn_emit(&g, &d);
    }
    /* every ordered selection of 1..4 of the four level types as an interleaving, on a 4-level description */
    {
      static const char *TN[4] = { "package", "numa", "core", "pu" };
      static char specs[64][40]; int ns = 0;
      for (int k = 1; k <= 4; k++) {
        int idx[4];
        for (int code = 0; code < 256; code++) {
          int ok = 1; for (int q = 0; q < k; q++) { idx[q] = (code >> (2 * q)) & 3; for (int r = 0; r < q; r++) if (idx[r] == idx[q]) ok = 0; }
          if (!ok || (code >> (2 * k))) continue;
          char *w = specs[ns]; w[0] = 0; for (int q = 0; q < k; q++) { if (q) strcat(w, ":"); strcat(w, TN[idx[q]]); }
          memset(&d, 0, sizeof(d)); d.nlevels = 4;
          d.lv[0].type = HWLOC_OBJ_PACKAGE; d.lv[0].arity = 2; d.lv[1].type = HWLOC_OBJ_NUMANODE; d.lv[1].arity = 2; d.lv[2].type = HWLOC_OBJ_CORE; d.lv[2].arity = 2;
          d.lv[3].type = HWLOC_OBJ_PU; d.lv[3].arity = 2; d.lv[3].indexes = specs[ns];
          syn_emit(&g, &d); ns++;
        }
      }
    }
    {
      /* numeric interleaving on the same shape */
      static const char *NUM[] = { "8*2:1*8", "1*2:2*8", "4*2:2*2:8*2:1*2", "2*8:1*2", "4*4:1*4", "8*2:4*2:2*2:1*2", "2*2:8*2" /* incomplete: 4 positions missing and not the smallest loop */ };
      for (unsigned i = 0; i < sizeof(NUM) / sizeof(NUM[0]); i++) {
        memset(&d, 0, sizeof(d)); d.nlevels = 4;
        d.lv[0].type = HWLOC_OBJ_PACKAGE; d.lv[0].arity = 2; d.lv[1].type = HWLOC_OBJ_NUMANODE; d.lv[1].arity = 2; d.lv[2].type = HWLOC_OBJ_CORE; d.lv[2].arity = 2;
        d.lv[3].type = HWLOC_OBJ_PU; d.lv[3].arity = 2; d.lv[3].indexes = NUM[i];
        syn_emit(&g, &d);
      }
    }
    /* memory-side caches in front of the NUMA nodes: sizes below and above 32 bits */
    {
      static const unsigned long long MSC[] = { 1ULL << 20, 3ULL << 30, 6ULL << 30, 16ULL << 30, (1ULL << 32) + 4096 };
      for (unsigned i = 0; i < sizeof(MSC) / sizeof(MSC[0]); i++) for (int shape = 0; shape < 3; shape++) {
        memset(&d, 0, sizeof(d)); d.nlevels = 3;
        if (shape == 0) { d.lv[0].type = HWLOC_OBJ_NUMANODE; d.lv[0].arity = 2; d.lv[0].memory = 1ULL << 30; d.lv[0].mscache = MSC[i]; }
        else { d.lv[0].type = HWLOC_OBJ_PACKAGE; d.lv[0].arity = 2; d.lv[0].attached_numa = shape; d.lv[0].memory = shape == 1 ? (1ULL << 30) : 0; d.lv[0].mscache = MSC[i]; }
        d.lv[1].type = HWLOC_OBJ_CORE; d.lv[1].arity = 2; d.lv[2].type = HWLOC_OBJ_PU; d.lv[2].arity = 1;
        syn_emit(&g, &d);
      }
    }
    for (unsigned i = 0; i < sizeof(NIDX) / sizeof(NIDX[0]); i++) for (int mem = 0; mem < 2; mem++) {
      memset(&d, 0, sizeof(d)); d.nlevels = 3;
      d.lv[0].type = HWLOC_OBJ_NUMANODE; d.lv[0].arity = 2; d.lv[0].indexes = NIDX[i]; if (mem) d.lv[0].memory = 123456789ULL;
      d.lv[1].type = HWLOC_OBJ_L2CACHE; d.lv[1].arity = 2; d.lv[1].size = mem ? 65536 : 0; d.lv[2].type = HWLOC_OBJ_PU; d.lv[2].arity = 1;
      syn_emit(&g, &d);
    }
  }
  g.family = 5;
  /* family 5: two attached "[numa(...)]" clauses with their own attributes - memory and indexes in the first clause, in
   * the second, in both, in either order - attached to a level of every kind, including one that the default filters
   * remove (L1i): all the clauses of a level share one index list, and the nodes belong to the closest kept ancestor */
  {
    static const char *CL[] = { "", "memory=1048576", "indexes=2,3,0,1", "memory=2097152 indexes=2,3,0,1", "indexes=1,0,3,2 memory=2097152", "memory=3145728 indexes=0,2,1,3" };
    static const int HOST[] = { HWLOC_OBJ_PACKAGE, HWLOC_OBJ_L1ICACHE, HWLOC_OBJ_L2CACHE, HWLOC_OBJ_GROUP, HWLOC_OBJ_DIE };
    for (unsigned h = 0; h < sizeof(HOST) / sizeof(HOST[0]); h++) for (int at = 0; at < 2; at++)
      for (unsigned c0 = 0; c0 < sizeof(CL) / sizeof(CL[0]); c0++) for (unsigned c1 = 0; c1 < sizeof(CL) / sizeof(CL[0]); c1++) {
        memset(&d, 0, sizeof(d)); d.nlevels = 3;
        /* the host level has 2 objects in the whole topology, so that the 2 clauses give 4 nodes */
        if (at == 0) { d.lv[0].type = HOST[h]; d.lv[0].arity = 2; d.lv[1].type = HWLOC_OBJ_CORE; d.lv[1].arity = 2; }
        else { d.lv[0].type = HOST[h] == HWLOC_OBJ_PACKAGE ? HWLOC_OBJ_GROUP : HWLOC_OBJ_PACKAGE; d.lv[0].arity = 1; d.lv[1].type = HOST[h] == HWLOC_OBJ_PACKAGE ? HWLOC_OBJ_DIE : HOST[h]; d.lv[1].arity = 2; }
        d.lv[2].type = HWLOC_OBJ_PU; d.lv[2].arity = 2;
        d.lv[at].attached_numa = 2; d.lv[at].numa_attrs[0] = CL[c0]; d.lv[at].numa_attrs[1] = CL[c1];
        syn_emit(&g, &d);
      }
  }
  return g.n;
}

/* ------------------------------------------------------------------ fixed lists */
static struct usrc *FIX, *CORPUS, *SMALL;
static int NFIX = -1, NCORPUS = -1, NSMALL = -1;

static int cmpname(const void *a, const void *b) { return strcmp(((const struct usrc *)a)->name, ((const struct usrc *)b)->name); }

static int scan_xml_dir(const char *dir, struct usrc **outp)
{
  DIR *D = opendir(dir); struct dirent *e; int n = 0, cap = 0; struct usrc *out = NULL;
  if (!D) { *outp = NULL; return 0; }
  while ((e = readdir(D))) {
    size_t l = strlen(e->d_name);
    if (l < 5 || strcmp(e->d_name + l - 4, ".xml")) continue;
    if (n == cap) { cap = cap ? cap * 2 : 32; out = realloc(out, (size_t)cap * sizeof(*out)); }
    char path[1024]; snprintf(path, sizeof(path), "%s/%s", dir, e->d_name);
    out[n].kind = USRC_XMLFILE; out[n].text = strdup(path); out[n].len = 0; out[n].name = strdup(e->d_name); n++;
  }
  closedir(D);
  qsort(out, (size_t)n, sizeof(*out), cmpname);
  *outp = out;
  return n;
}

int univ_fix_count(void)
{
  if (NFIX < 0) { char d[1024]; snprintf(d, sizeof(d), "%s/harness/fixtures", univ_verif()); NFIX = scan_xml_dir(d, &FIX); }
  return NFIX;
}
const struct usrc *univ_fix(int i) { univ_fix_count(); return &FIX[i]; }
int univ_corpus_count(void)
{
  if (NCORPUS < 0) { char d[1024]; snprintf(d, sizeof(d), "%s/tests/hwloc/xml", univ_repo()); NCORPUS = scan_xml_dir(d, &CORPUS); }
  return NCORPUS;
}
const struct usrc *univ_corpus(int i) { univ_corpus_count(); return &CORPUS[i]; }

/* U_small: synthetic roots with <= 8 PUs chosen so that every structural shortcut has a
 * root that takes it, plus every fixture with <= 8 PUs. */
static const char *SMALL_SYN[] = {
  "pu:4",
  "core:2 pu:2",
  "node:2 pu:2",
  "package:2 core:2 pu:2",
  "node:2 core:2 pu:2",
  "package:2 [numa] core:2 pu:1",
  "package:1 group:2 [numa] [numa] core:1 pu:2",
  "package:2 l2:2 core:1 pu:2",
  "group:2 node:2 pu:2",
  "node:3 pu:1",
  "package:2 die:2 core:1 pu:2",
  "node:2 l3:1 l2:2 l1d:1 core:1 pu:1",
  "package:2 core:2 pu:2(indexes=core:package)",
  "[numa] package:2 [numa(memory=1048576)] pu:2",
  "group:2 pu:4",     /* a Group level above wide leaves: user Groups land inside an existing Group numbering (seeded change C11-group-depth-skip) */
  "package:4 pu:2",   /* four multi-PU siblings: a conflicting Group can adopt non-adjacent children before it meets the conflict (seeded change C02-group-putback-holes) */
};
int univ_small_count(void)
{
  if (NSMALL < 0) {
    int ns = (int)(sizeof(SMALL_SYN) / sizeof(SMALL_SYN[0])), nf = univ_fix_count();
    SMALL = calloc((size_t)(ns + nf), sizeof(*SMALL));
    NSMALL = 0;
    for (int i = 0; i < ns; i++) { SMALL[NSMALL].kind = USRC_SYNTHETIC; SMALL[NSMALL].text = strdup(SMALL_SYN[i]); SMALL[NSMALL].name = SMALL[NSMALL].text; NSMALL++; }
    for (int i = 0; i < nf; i++) {
      /* keep fixtures with <= 8 PUs: decided by counting <object type="PU" (not initiator_obj_type="PU" of memory attributes) */
      int len; char *buf = univ_read_file(FIX[i].text, &len); int pus = 0;
      if (!buf) continue;
      for (char *p = buf; (p = strstr(p, "<object type=\"PU\"")); p++) pus++;
      free(buf);
      if (pus <= 8) SMALL[NSMALL++] = FIX[i];
    }
  }
  return NSMALL;
}
const struct usrc *univ_small(int i) { univ_small_count(); return &SMALL[i]; }
