/* last object of the hwdata section: linked after the library (see engine/props.py C17) */
char c17_pad_b[4096] __attribute__((section("hwdata"), aligned(4096))) = { 1 };
