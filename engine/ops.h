/* Modifying-call alphabet shared by the history explorers (C02, C08, C12, C13, C19 ...).
 * An op is plain data (replayable, printable); objects are referenced by gp_index and sets
 * by 64-bit masks over os_indexes (+ tail choices), so that a history means the same thing
 * on every replay. */
#ifndef OPS_H
#define OPS_H
#include "hwloc.h"
#include "hwmc.h"
#include "univ.h"

enum opkind { OP_RESTRICT = 1, OP_MISC, OP_GROUP, OP_GROUP_FREE, OP_ALLOW, OP_DIST_ADD, OP_DIST_REMOVE,
              OP_DIST_REMOVE_DEPTH, OP_MEMATTR_REG, OP_MEMATTR_SET, OP_CPUKIND_REG, OP_INFO, OP_SUBTYPE, OP_REFRESH };

#define OPC_RESTRICT (1u<<0)
#define OPC_MISC     (1u<<1)
#define OPC_GROUP    (1u<<2)
#define OPC_ALLOW    (1u<<3)
#define OPC_DIST     (1u<<4)
#define OPC_MEMATTR  (1u<<5)
#define OPC_CPUKIND  (1u<<6)
#define OPC_INFO     (1u<<7)
#define OPC_REFRESH  (1u<<8)
#define OPC_ALL      0x1ffu

struct op {
  int kind;
  unsigned long flags;
  uint64_t set, set2;     /* masks over os_index 0..63 */
  int tail;               /* OP_RESTRICT/OP_ALLOW: 0 finite, 1 mask + {64-} (infinite), 2 mask + {100} (superset with an unknown index) */
  int a, b, c, d;
};

struct opscope {
  unsigned classes;
  int all_restrict_flags;   /* 1: all 32 flag words (+1 unknown bit), 0: a representative subset */
  int max_subset_bits;      /* enumerate all subsets of the PU/NUMA os_index set when it has <= this many elements */
  int rich;                 /* 1: larger argument domains (thorough) */
  int lean;                 /* 1: smallest argument domains (quick tiers of deep explorations) */
};

void op_print(struct sb *b, const struct op *o);

/* computes the alphabet for the current state; returns number of ops (out is malloc'ed) */
int ops_enumerate(hwloc_topology_t t, const struct opscope *sc, struct op **out);

struct opres {
  int rc;              /* 0 success, -1 failure (or NULL result) */
  int err;             /* errno on failure */
  int must_be_unchanged; /* the call is documented to leave the topology untouched in this outcome */
  int applicable;      /* 0: the op referred to an object that no longer exists (skipped) */
};
/* applies op on the real library (unprotected: wrap in MC_TRY) */
void op_apply(hwloc_topology_t t, const struct op *o, struct opres *r);

/* ---- histories */
#define HIST_MAX 6
struct hist { int root; int cfg; int n; struct op ops[HIST_MAX]; };
void hist_print(struct sb *b, const struct hist *h);

/* root configurations used by the history explorers */
int  hist_ncfg(void);
void hist_cfg(int i, struct ucfg *c);
const char *hist_cfg_name(int i);

/* build the state reached by h on a fresh topology: load root/cfg, tag every object's
 * userdata with hist_tag(gp_index), apply the ops (tagging new objects after each).
 * returns NULL if the root does not load under this configuration. Unprotected. */
hwloc_topology_t hist_build(const struct hist *h);
void *hist_tag(hwloc_uint64_t gp);
/* tags untagged objects; returns number of objects whose non-NULL userdata is not their tag */
int hist_retag(hwloc_topology_t t, char *why, size_t whylen);

hwloc_obj_t ops_obj_by_gp(hwloc_topology_t t, hwloc_uint64_t gp);
hwloc_bitmap_t ops_mask_to_bitmap(uint64_t mask, int tail);
uint64_t ops_bitmap_to_mask(hwloc_const_bitmap_t b);

#endif
